"""C19 — fast-path response parsing agrees with full JSON parsing (DESIGN.md section 4, C19)."""
from __future__ import annotations

import ast
import collections
import copy
import itertools
import re._parser as sre_parse  # regex ASTs (stdlib)
import textwrap

from sa import source
from sa.cfg import cfg_of, guards
from sa.classes import is_logging_stmt
from sa.minieval import CannotEval, Record, ev
from sa.source import AnchorMissing, dotted, is_self_attr, last_attr, local_defs, params_of, short, u, walk_body

_R = "esrally/driver/runner.py"

# representative bulk items: status x _shards
ITEMS = []
for status in (200, 201, 299, 300, 404, 409, 429):
    for shards in ("absent", 0, 1):
        d = {"_index": "i", "_id": "1", "status": status}
        if shards != "absent":
            d["_shards"] = {"total": 2, "successful": 2 - shards, "failed": shards}
        if status > 299:
            d["error"] = {"type": "x", "reason": "r"}
        ITEMS.append(d)
# failing items WITHOUT an error object (delete of a missing document: 404 / result not_found) and a successful item that carries one anyway
ITEMS.append({"_index": "i", "_id": "1", "status": 404, "result": "not_found", "_shards": {"total": 2, "successful": 2, "failed": 0}})
ITEMS.append({"_index": "i", "_id": "1", "status": 404, "result": "not_found"})
ITEMS.append({"_index": "i", "_id": "1", "status": 200, "result": "noop", "error": None, "_shards": {"total": 2, "successful": 2, "failed": 0}})


def structural_class_groups(pattern: str):
    """capture groups whose content is delimited by a negated character class over JSON-structural characters."""
    out = []
    try:
        tree = sre_parse.parse(pattern)
    except Exception:
        return None

    def walk(items, in_group=None):
        for op, av in items:
            name = str(op)
            if name == "SUBPATTERN":
                gid, _, _, sub = av
                walk(sub, gid if gid is not None else in_group)
            elif name in ("MAX_REPEAT", "MIN_REPEAT", "POSSESSIVE_REPEAT"):
                walk(av[2], in_group)
            elif name == "BRANCH":
                for b in av[1]:
                    walk(b, in_group)
            elif name == "IN" and in_group is not None:
                neg = any(str(o) == "NEGATE" for o, _ in av)
                lits = {chr(v) for o, v in av if str(o) == "LITERAL"}
                if neg and lits & set(']}",'):
                    out.append((in_group, sorted(lits)))
            elif name == "NOT_LITERAL" and in_group is not None and chr(av) in ']}",':
                out.append((in_group, [chr(av)]))

    walk(tree)
    return out


def has_const(node, value) -> bool:
    """the literal `value` (a dict key / message text: a stable anchor) occurs in the expression — local variable names do not count."""
    return node is not None and any(isinstance(x, ast.Constant) and type(x.value) is type(value) and x.value == value for x in ast.walk(node))


def loads_of(node) -> set:
    return {x.id for x in ast.walk(node) if isinstance(x, ast.Name) and isinstance(x.ctx, ast.Load)} if node is not None else set()


def stores_of(node) -> set:
    return {x.id for x in ast.walk(node) if isinstance(x, ast.Name) and isinstance(x.ctx, ast.Store)} if node is not None else set()


def root_name(node):
    while isinstance(node, (ast.Subscript, ast.Attribute)):
        node = node.value
    return node.id if isinstance(node, ast.Name) else None


def own_nodes(fn):
    """the nodes of a function's OWN body: nested function / class / lambda scopes appear as nodes but are never entered (source.walk_body enters a nested def that is a direct
    statement of the body)."""
    for st in getattr(fn, "body", []):
        if isinstance(st, (ast.FunctionDef, ast.AsyncFunctionDef, ast.ClassDef)):
            yield st
        else:
            yield from source.walk_local(st)


def xev(e: ast.AST, env: dict, ctors=None):
    """minieval.ev plus the string operations the parsers use to build paths / keys: str + str, sep.join(list), s.removeprefix(p), s[a:b], str(x) / repr(x) of a scalar or None;
    the views of a dict (.items() / .keys() / .values()), collections.Counter(<iterable>) and - when `ctors` (RecordCtors) is given - the construction of a small record type of the
    analysed code (NamedTuple / namedtuple / dataclass): the value is a tuple / record with the same equality, hash, ordering, unpacking and field access.
    Sub-expressions of these kinds are evaluated bottom-up on a fresh copy and replaced by their value; everything else is left to ev()."""

    class T(ast.NodeTransformer):
        def visit(self, n):
            n = self.generic_visit(n)
            try:
                if isinstance(n, ast.BinOp) and isinstance(n.op, ast.Add):
                    a, b = ev(n.left, env), ev(n.right, env)
                    if (isinstance(a, str) and isinstance(b, str)) or (isinstance(a, list) and isinstance(b, list)):
                        return ast.Constant(value=a + b)
                elif isinstance(n, ast.Call) and isinstance(n.func, ast.Attribute) and n.func.attr == "join" and len(n.args) == 1 and not n.keywords:
                    sep, parts = ev(n.func.value, env), ev(n.args[0], env)
                    if isinstance(sep, str) and isinstance(parts, (list, tuple)) and all(isinstance(x, str) for x in parts):
                        return ast.Constant(value=sep.join(parts))
                elif isinstance(n, ast.Call) and isinstance(n.func, ast.Attribute) and n.func.attr == "removeprefix" and len(n.args) == 1 and not n.keywords:
                    s_, p_ = ev(n.func.value, env), ev(n.args[0], env)
                    if isinstance(s_, str) and isinstance(p_, str):
                        return ast.Constant(value=s_.removeprefix(p_))
                elif isinstance(n, ast.Call) and isinstance(n.func, ast.Name) and n.func.id in ("frozenset", "set", "list", "tuple", "dict") and not n.args and not n.keywords:
                    return ast.Constant(value={"frozenset": frozenset, "set": set, "list": list, "tuple": tuple, "dict": dict}[n.func.id]())  # the empty container
                elif isinstance(n, ast.Call) and isinstance(n.func, ast.Name) and n.func.id in ("enumerate", "zip", "range") and n.args and not n.keywords:
                    vals = [ev(a, env) for a in n.args]
                    if n.func.id == "range" and all(isinstance(x, int) and not isinstance(x, bool) for x in vals) and len(vals) <= 3:
                        return ast.Constant(value=list(range(*vals)))
                    if n.func.id == "enumerate" and isinstance(vals[0], (list, tuple, str)) and (len(vals) == 1 or (len(vals) == 2 and type(vals[1]) is int)):
                        return ast.Constant(value=[list(x) for x in enumerate(*vals)])
                    if n.func.id == "zip" and all(isinstance(x, (list, tuple, str)) for x in vals):
                        return ast.Constant(value=[list(x) for x in zip(*vals)])
                elif isinstance(n, ast.Call) and isinstance(n.func, ast.Name) and n.func.id in ("str", "repr") and len(n.args) == 1 and not n.keywords:
                    v_ = ev(n.args[0], env)
                    if v_ is None or isinstance(v_, (bool, int, float, str)):
                        return ast.Constant(value=str(v_) if n.func.id == "str" else repr(v_))
                elif isinstance(n, ast.Subscript) and isinstance(n.slice, ast.Slice):
                    base = ev(n.value, env)
                    lo, hi, st = [ev(x, env) if x is not None else None for x in (n.slice.lower, n.slice.upper, n.slice.step)]
                    if isinstance(base, (str, list)) and all(x is None or (isinstance(x, int) and not isinstance(x, bool)) for x in (lo, hi, st)) and st != 0:
                        return ast.Constant(value=base[lo:hi:st])
                elif isinstance(n, ast.Call) and dotted(n.func) == "next" and 1 <= len(n.args) <= 2 and not n.keywords and isinstance(n.args[0], ast.Call) and dotted(n.args[0].func) == "iter" \
                        and len(n.args[0].args) == 1 and not n.args[0].keywords:
                    seq = ev(n.args[0].args[0], env)
                    if isinstance(seq, (list, tuple, dict, str)):
                        if len(seq):
                            return ast.Constant(value=next(iter(seq)))
                        if len(n.args) == 2:
                            return ast.Constant(value=ev(n.args[1], env))
                elif isinstance(n, ast.Call) and isinstance(n.func, ast.Attribute) and n.func.attr in ("items", "keys", "values") and not n.args and not n.keywords:
                    base = ev(n.func.value, env)
                    if isinstance(base, dict):
                        return ast.Constant(value=list(getattr(base, n.func.attr)()))
                elif isinstance(n, ast.Call) and dotted(n.func) in ("Counter", "collections.Counter") and len(n.args) <= 1 and not n.keywords:
                    src_ = ev(n.args[0], env) if n.args else []
                    if isinstance(src_, (list, tuple, set, frozenset, str, dict)):
                        return ast.Constant(value=collections.Counter(src_))
                elif isinstance(n, ast.Call) and ctors is not None and dotted(n.func) is not None and not any(isinstance(a, ast.Starred) for a in n.args) \
                        and all(k.arg is not None for k in n.keywords) and ctors.get(dotted(n.func)) is not None:
                    return ast.Constant(value=ctors.get(dotted(n.func))([ev(a, env) for a in n.args], {k.arg: ev(k.value, env) for k in n.keywords}))
            except (CannotEval, TypeError):
                pass
            return n

    try:
        return ev(T().visit(source.clone(e)), env)
    except TypeError as x:  # e.g. len(None): the extracted expression would raise on this value
        raise CannotEval(f"{u(e)[:60]}: {x}")


# ---- small record types of the analysed code (NamedTuple / namedtuple / dataclass) as values -------------------------------------------------------------------------

class _NT(tuple, Record):
    """value of a named tuple: a tuple (same equality, hash, ordering, unpacking, indexing as the plain tuple of its members) whose members can also be read by field name."""

    def __new__(cls, names, values):
        self = tuple.__new__(cls, values)
        self.fields = dict(zip(names, values))
        return self

    def __init__(self, *a, **k):
        pass


class _DC(Record):
    """value of a dataclass instance: fields by name; equality / hash / ordering as the decorator's eq / frozen / order flags generate them."""

    def __init__(self, cname, names, values, eq=True, frozen=False, order=False, unsafe_hash=False):
        self.cname, self.names, self.fields = cname, list(names), dict(zip(names, values))
        self.eq, self.frozen, self.order, self.unsafe_hash = eq, frozen, order, unsafe_hash

    def _t(self):
        return tuple(self.fields[n] for n in self.names)

    def __eq__(self, other):
        if not self.eq:
            return self is other
        return isinstance(other, _DC) and other.cname == self.cname and self._t() == other._t()

    def __ne__(self, other):
        return not self == other

    def __hash__(self):
        if not self.eq:
            return id(self)
        if not (self.frozen or self.unsafe_hash):
            raise TypeError(f"unhashable type: '{self.cname}'")
        return hash((self.cname, self._t()))

    def _cmp(self, other, op):
        if not (self.order and isinstance(other, _DC) and other.cname == self.cname):
            raise TypeError(f"'{op}' not supported between instances of '{self.cname}' and '{getattr(other, 'cname', type(other).__name__)}'")
        return self._t(), other._t()

    def __lt__(self, other):
        a, b = self._cmp(other, "<")
        return a < b

    def __le__(self, other):
        a, b = self._cmp(other, "<=")
        return a <= b

    def __gt__(self, other):
        a, b = self._cmp(other, ">")
        return a > b

    def __ge__(self, other):
        a, b = self._cmp(other, ">=")
        return a >= b

    def __repr__(self):
        return f"{self.cname}(" + ", ".join(f"{n}={self.fields[n]!r}" for n in self.names) + ")"


def members_of(v) -> tuple:
    """the member values of a detail: of a (named) tuple / list, of a record; () for anything else."""
    return tuple(v) if isinstance(v, (tuple, list)) else (tuple(v.fields.values()) if isinstance(v, Record) else ())


_RECORD_SPECIALS = {"__new__", "__init__", "__post_init__", "__eq__", "__ne__", "__hash__", "__lt__", "__le__", "__gt__", "__ge__", "__iter__", "__getitem__", "__len__", "__bool__",
                    "__getattr__", "__getattribute__"}


class RecordCtors:
    """name -> constructor model for the small record types a module can see: classes deriving from typing.NamedTuple, `X = namedtuple("X", fields)`, @dataclass classes - defined in
    the module or imported from another module of the package (loaded on first use). get(name) -> callable(args, kwargs) -> value, or None when the name is no such type.
    A type whose construction / comparison is customised (own __new__ / __eq__ / __lt__ ..., default factories, several bases) is refused on use (CannotEval), never guessed."""

    def __init__(self, module, on_use=None, depth=0):
        self.module, self.on_use, self.depth = module, on_use, depth
        self._made: dict = {}

    @staticmethod
    def _raw_class(module, cls):
        """the class as WRITTEN (the parse-time normalisation N7 turns `x: T = v` into `x = v`; which members are annotated decides what a field is)."""
        try:
            lines = module.text.splitlines()[min([cls.lineno] + [d_.lineno for d_ in cls.decorator_list]) - 1:cls.end_lineno]
            raw = ast.parse(textwrap.dedent("\n".join(lines))).body[0]
            return raw if isinstance(raw, ast.ClassDef) and raw.name == cls.name else None
        except (SyntaxError, IndexError, AttributeError):
            return None

    def _definition(self, name):
        """(kind, node, module) of the top-level definition `name` refers to."""
        m = self.module
        if "." in name:
            head, _, rest = name.partition(".")
            tgt = m.imports.get(head)
            if tgt is None or "." in rest or self.depth > 1:
                return None
            rel = tgt.replace(".", "/") + ".py"
            if not m.repo.exists(rel):
                return None
            return RecordCtors(m.repo.module(rel), self.on_use, self.depth + 1)._definition(rest)
        for n in m.tree.body:
            if isinstance(n, ast.ClassDef) and n.name == name:
                return ("class", n, m)
            if isinstance(n, ast.Assign) and len(n.targets) == 1 and isinstance(n.targets[0], ast.Name) and n.targets[0].id == name and isinstance(n.value, ast.Call) \
                    and dotted(n.value.func) in ("namedtuple", "collections.namedtuple"):
                return ("namedtuple", n.value, m)
        tgt = m.imports.get(name)
        if tgt and "." in tgt and self.depth <= 1 and not any(isinstance(n, (ast.FunctionDef, ast.AsyncFunctionDef)) and n.name == name for n in m.tree.body):
            modpath, _, nm = tgt.rpartition(".")
            rel = modpath.replace(".", "/") + ".py"
            if modpath.split(".")[0] == m.modname.split(".")[0] and m.repo.exists(rel):
                return RecordCtors(m.repo.module(rel), self.on_use, self.depth + 1)._definition(nm)
        return None

    def get(self, name):
        if name not in self._made:
            self._made[name] = self._make(name)
        return self._made[name]

    def _make(self, name):
        d = self._definition(name)
        if d is None:
            return None
        kind, node, mod = d
        made = self._make_from(name, kind, node, mod)
        if made is not None and self.on_use is not None and mod is not self.module:
            self.on_use(mod)  # the verdict depends on that module too
        return made

    def _make_from(self, name, kind, node, mod):

        def refuse(why):
            def ctor(args, kwargs):
                raise CannotEval(f"{name}: {why}")
            return ctor

        def binder(cname, names, defaults, make):
            def ctor(args, kwargs):
                if len(args) > len(names) or any(k not in names for k in kwargs) or any(k in names[:len(args)] for k in kwargs):
                    raise CannotEval(f"{cname}(..): arguments do not fit the fields {names}")
                vals = []
                for i, f_ in enumerate(names):
                    if i < len(args):
                        vals.append(args[i])
                    elif f_ in kwargs:
                        vals.append(kwargs[f_])
                    elif f_ in defaults:
                        vals.append(copy.deepcopy(defaults[f_]))
                    else:
                        raise CannotEval(f"{cname}(..): no value for the field {f_}")
                return make(names, vals)
            return ctor

        if kind == "namedtuple":
            a = node.args
            try:
                spec = ev(a[1], {}) if len(a) >= 2 else ev(next(k.value for k in node.keywords if k.arg == "field_names"), {})
                names = spec.replace(",", " ").split() if isinstance(spec, str) else list(spec)
                dflt = next((ev(k.value, {}) for k in node.keywords if k.arg == "defaults"), None)
            except (CannotEval, StopIteration, TypeError):
                return refuse("the field names are not literals")
            if not all(isinstance(x, str) for x in names) or any(k.arg not in ("field_names", "defaults", "typename") for k in node.keywords) or len(a) > 2:
                return refuse("namedtuple() with options that are not modelled")
            dflt = list(dflt) if dflt is not None else []
            return binder(name, names, dict(zip(names[len(names) - len(dflt):], dflt)), lambda ns, vs: _NT(ns, vs))
        raw = self._raw_class(mod, node)
        if raw is None:
            return None
        bases = [dotted(b) for b in raw.bases]
        decs = [(dotted(x.func) if isinstance(x, ast.Call) else dotted(x), x) for x in raw.decorator_list]
        is_nt = bases and all(b in ("NamedTuple", "typing.NamedTuple") for b in bases)
        dcs = [x for d_, x in decs if d_ in ("dataclass", "dataclasses.dataclass")]
        if not is_nt and not (dcs and not bases and len(decs) == 1):
            return None if not (dcs or any(b in ("NamedTuple", "typing.NamedTuple") for b in bases if b)) else refuse("a record type with further bases / decorators")
        special = sorted({s.name for s in raw.body if isinstance(s, (ast.FunctionDef, ast.AsyncFunctionDef))} & _RECORD_SPECIALS)
        if special or raw.keywords:
            return refuse(f"construction / comparison customised ({', '.join(special) or 'class keywords'})")
        names, defaults = [], {}
        for s_ in raw.body:
            if isinstance(s_, ast.AnnAssign) and isinstance(s_.target, ast.Name):
                ann = s_.annotation.value if isinstance(s_.annotation, ast.Subscript) else s_.annotation
                if dotted(ann) in ("ClassVar", "typing.ClassVar"):
                    continue
                names.append(s_.target.id)
                if s_.value is not None:
                    try:
                        defaults[s_.target.id] = ev(s_.value, {})
                    except CannotEval:
                        return refuse(f"default of the field {s_.target.id} is not a literal")
        if not names:
            return refuse("no fields")
        if is_nt:
            return binder(name, names, defaults, lambda ns, vs: _NT(ns, vs))
        flags = {"eq": True, "frozen": False, "order": False, "unsafe_hash": False}
        if isinstance(dcs[0], ast.Call):
            if dcs[0].args or any(k.arg is None or not isinstance(k.value, ast.Constant) or not isinstance(k.value.value, bool) for k in dcs[0].keywords):
                return refuse("dataclass options that are not literals")
            for k in dcs[0].keywords:
                if k.arg in flags:
                    flags[k.arg] = k.value.value
                elif k.arg not in ("slots", "repr", "init", "kw_only", "match_args", "weakref_slot") or (k.arg in ("init", "kw_only") and k.value.value != (k.arg == "init")):
                    return refuse(f"dataclass option {k.arg}")
        return binder(name, names, defaults, lambda ns, vs: _DC(name, ns, vs, **flags))


# ---- extracted helpers are analysed together with their callers ---------------------------------------------------------------------------------------------------

def _is_noise(s) -> bool:
    """doc strings, `pass` and logging statements: no effect on any value the rules look at."""
    return isinstance(s, ast.Pass) or (isinstance(s, ast.Expr) and isinstance(s.value, ast.Constant)) or is_logging_stmt(s)


def _subst(expr, mapping):
    """fresh copy of expr with every load of a name in `mapping` replaced by a fresh copy of the mapped expression. ONE pass: what is substituted is not substituted again
    (a later re-binding of an operand must not change an earlier value). Refuses (CannotEval) when a comprehension / lambda inside expr binds one of the names involved."""
    inner = {t.id for n in ast.walk(expr) if isinstance(n, ast.comprehension) for t in ast.walk(n.target) if isinstance(t, ast.Name)} | \
        {a.arg for n in ast.walk(expr) if isinstance(n, ast.Lambda) for a in n.args.args}
    if inner and (inner & set(mapping) or any(inner & loads_of(v) for v in mapping.values())):
        raise CannotEval(f"name bound inside `{short(expr, 40)}` clashes with a substituted name")

    class S(ast.NodeTransformer):
        def visit_Name(self, n):
            if isinstance(n.ctx, ast.Load) and n.id in mapping:
                return source.clone(mapping[n.id])
            return n

    return S().visit(source.clone(expr))


def _signature(fn):
    """(parameter names without self / cls, {parameter: default expression})"""
    a = fn.args
    pos = [x.arg for x in a.posonlyargs + a.args]
    defaults = dict(zip(pos[len(pos) - len(a.defaults):], a.defaults))
    defaults.update({x.arg: d for x, d in zip(a.kwonlyargs, a.kw_defaults) if d is not None})
    if pos and pos[0] in ("self", "cls"):
        pos = pos[1:]
    return pos + [x.arg for x in a.kwonlyargs], defaults


def helper_expr(fn):
    """The value a small pure helper returns, as ONE expression over its parameters: single-target assignments are substituted (in order), if / else and guard clauses (N8 made
    them if / else) become conditional expressions. Anything else (loops, try, calls as statements, in-place updates) -> CannotEval: such a helper is not a plain predicate / projection."""
    if not isinstance(fn, ast.FunctionDef) or fn.args.vararg or fn.args.kwarg or any(isinstance(x, (ast.Yield, ast.YieldFrom, ast.Await)) for x in ast.walk(fn)) \
            or any(dotted(d) not in ("staticmethod", "classmethod") for d in fn.decorator_list):
        raise CannotEval(f"{getattr(fn, 'name', '?')} is not a plain function")

    def block(stmts, sub, depth):
        for i, s in enumerate(stmts):
            if _is_noise(s):
                continue
            if isinstance(s, ast.Assign) and len(s.targets) == 1 and isinstance(s.targets[0], ast.Name):
                sub = dict(sub)
                sub[s.targets[0].id] = _subst(s.value, sub)
            elif isinstance(s, ast.Return):
                return _subst(s.value, sub) if s.value is not None else ast.Constant(value=None)
            elif isinstance(s, ast.If) and depth < 6:
                rest = list(stmts[i + 1:])
                return ast.IfExp(test=_subst(s.test, sub), body=block(list(s.body) + rest, sub, depth + 1), orelse=block(list(s.orelse) + rest, sub, depth + 1))
            else:
                raise CannotEval(f"statement `{short(s, 50)}` of helper {fn.name}")
        return ast.Constant(value=None)

    return block(list(fn.body), {}, 0)


class Expander:
    """Calls of small pure helpers - methods of the same class (through self / cls / the class name), functions of the module, functions nested in the analysed function - are replaced
    by the expression the helper returns, arguments substituted for parameters (bound by position AND keyword, defaults filled in). An extracted predicate is thereby analysed
    exactly like the inline expression it came from; helpers that are not plain expressions stay calls (the evaluation then says 'cannot evaluate', never a verdict)."""

    def __init__(self, module, cls=None, nested=()):
        self.module, self.cls = module, cls
        self.methods = module.methods(cls) if cls is not None else {}
        self.nested = {f.name: f for f in nested}
        self._cache: dict = {}
        self._hx: dict = {}

    def target(self, call):
        f = call.func
        if isinstance(f, ast.Attribute) and isinstance(f.value, ast.Name) and f.attr in self.methods and f.value.id in ("self", "cls", getattr(self.cls, "name", None)):
            return self.methods[f.attr]
        if isinstance(f, ast.Name):
            if f.id in self.nested:
                return self.nested[f.id]
            t = self.module.index().get(f.id)
            if isinstance(t, ast.FunctionDef):
                return t
        return None

    def helper(self, fn):
        if id(fn) not in self._hx:
            try:
                self._hx[id(fn)] = helper_expr(fn)
            except CannotEval as e:
                self._hx[id(fn)] = e
        r = self._hx[id(fn)]
        if isinstance(r, CannotEval):
            raise r
        return r

    def __call__(self, expr):
        if getattr(expr, "_parent", None) is None:  # a synthesised node: not cached (its id may be reused)
            return self._expand(expr, 0)
        k = id(expr)
        if k not in self._cache:
            self._cache[k] = (expr, self._expand(expr, 0))
        return self._cache[k][1]

    def _expand(self, expr, depth):
        if not any(isinstance(n, ast.Call) and self.target(n) is not None for n in ast.walk(expr)):
            return expr
        ex = self

        class T(ast.NodeTransformer):
            def visit_Call(self, c):
                self.generic_visit(c)
                fn = ex.target(c)
                if fn is None or depth > 4 or any(isinstance(a, ast.Starred) for a in c.args) or any(k.arg is None for k in c.keywords):
                    return c
                try:
                    body = ex.helper(fn)
                    names, defaults = _signature(fn)
                    bound = source.bind_args(c, fn)
                    if len(c.args) > len(names) or any(k.arg not in names for k in c.keywords):
                        return c
                    mapping = {}
                    for p in names:
                        if p in bound:
                            mapping[p] = bound[p]
                        elif p in defaults:
                            mapping[p] = defaults[p]
                        else:
                            return c
                    return ex._expand(_subst(body, mapping), depth + 1)
                except CannotEval:
                    return c

        return T().visit(source.clone(expr))


def in_caller_terms(expr, helper, binding):
    """`expr` of the helper rewritten over the CALLER's names: single-assignment locals of the helper are inlined, its parameters replaced by the argument expressions of the
    call (`binding`: parameter -> expression in the caller's terms, None when that argument itself is not expressible). None when a local of the helper remains (a value computed
    inside it by anything but single assignments), when a parameter it reads is re-bound inside the helper, or when an argument is missing."""
    if expr is None:
        return None
    a_ = helper.args
    params = {x.arg for x in a_.posonlyargs + a_.args + a_.kwonlyargs}
    stored = {x.id for n in walk_body(helper) for x in ast.walk(n) if isinstance(x, ast.Name) and isinstance(x.ctx, (ast.Store, ast.Del))}
    try:
        e = source.inline_node(expr, {k: v for k, v in local_defs(helper).items() if k not in params})
        free = loads_of(e)
        if free & stored or any(p in free and binding.get(p) is None for p in params):
            return None
        return _subst(e, {p: binding[p] for p in params & free})
    except (CannotEval, RecursionError):
        return None


class HelperStore:
    """an assignment (`x[k] = v`, `x[k] op= v`, `x = v`) a region of code performs through a helper it calls: the statement, the helper it is a statement of, the helper's
    parameters in the caller's terms, and the chain of calls it is reached through - [(call, binding of the function the call is a statement of)], the first one a call in the
    analysed function itself (binding None: its own names)."""

    def __init__(self, node, helper, binding, chain):
        self.node, self.helper, self.binding, self.chain = node, helper, binding, list(chain)
        self.call = self.chain[0][0]
        self.target = node.targets[0] if isinstance(node, ast.Assign) else node.target

    def caller_name(self, e):
        """the local of the CALLER the helper's expression `e` is, when e is a parameter bound to a plain name at the call (the same object on both sides: an in-place update of
        it inside the helper is an update of the caller's container); None otherwise."""
        if isinstance(e, ast.Name) and isinstance(self.binding.get(e.id), ast.Name) and not any(
                isinstance(x, ast.Name) and isinstance(x.ctx, (ast.Store, ast.Del)) and x.id == e.id for n in walk_body(self.helper) for x in ast.walk(n)):
            return self.binding[e.id].id
        return None

    def value(self):
        """the assigned value in the caller's terms (None: not expressible)."""
        return in_caller_terms(self.node.value, self.helper, self.binding)

    @staticmethod
    def names_for(binding, name):
        """the names under which the caller's local `name` is known in a scope: itself in the analysed function (binding None), the parameters bound to it in a helper."""
        return [name] if binding is None else [p for p, a in binding.items() if isinstance(a, ast.Name) and a.id == name]

    def params_bound_to(self, name):
        return self.names_for(self.binding, name)

    def scopes(self):
        """[(statement, binding of the scope it belongs to)] from the call in the analysed function down to the store: the conditions around EACH of them control the store."""
        return [(source.enclosing_stmt(c), b) for c, b in self.chain] + [(self.node, self.binding)]


def helper_stores(nodes, resolve, exclude=(), _outer=None, _chain=(), _depth=0):
    """The assignments the given nodes (e.g. those of a loop) perform through helpers: for every call among them that `resolve` maps to a function of the analysed code - method of the
    same class, nested function, function of the module - the assignments of that function's own body, and (two levels deep) of the helpers it calls in turn, with the parameters
    expressed over the names of the outermost caller. An extracted block of statements is thereby seen by a rule exactly like the inline statements it came from."""
    out = []
    for c in nodes:
        if not isinstance(c, ast.Call) or any(isinstance(a, ast.Starred) for a in c.args) or any(k.arg is None for k in c.keywords):
            continue
        h = resolve(c)
        if h is None or not isinstance(h, (ast.FunctionDef, ast.AsyncFunctionDef)) or any(h is x for x in exclude) or h.args.vararg or h.args.kwarg:
            continue
        names, defaults = _signature(h)
        b = dict(source.bind_args(c, h))
        if len(c.args) > len(names) or any(k.arg not in names for k in c.keywords):
            continue
        for p in names:
            if p not in b and p in defaults and isinstance(defaults[p], ast.Constant):
                b[p] = defaults[p]
        if _outer is not None:
            b = {p: in_caller_terms(e, _outer[0], _outer[1]) for p, e in b.items()}
        chain = tuple(_chain) + ((c, _outer[1] if _outer is not None else None),)
        for n in walk_body(h):
            if isinstance(n, (ast.Assign, ast.AugAssign)):
                out.append(HelperStore(n, h, b, chain))
        if _depth < 1:
            out += helper_stores([n for n in walk_body(h)], resolve, tuple(exclude) + (h,), (h, b), chain, _depth + 1)
    return out


# ---- concrete interpretation of extracted statements on representative values ------------------------------------------------------------------------------------

class _Opaque:
    """a value the interpretation knows nothing about (the result of something it does not model): every USE of it raises CannotEval, passing it on does not."""

    def __init__(self, what):
        self.what = what

    def _no(self, *a, **k):
        raise CannotEval(f"the uninterpreted value `{self.what}` is used")

    __bool__ = __len__ = __iter__ = __contains__ = __getitem__ = __setitem__ = __delitem__ = __eq__ = __ne__ = __lt__ = __gt__ = __le__ = __ge__ = __hash__ = _no
    __add__ = __radd__ = __sub__ = __rsub__ = __mul__ = __rmul__ = __truediv__ = __rtruediv__ = __mod__ = __rmod__ = __neg__ = __int__ = __float__ = __index__ = _no

    def __repr__(self):
        return f"<uninterpreted {self.what}>"


def has_opaque_value(v) -> bool:
    return isinstance(v, _Opaque) or (isinstance(v, dict) and any(has_opaque_value(x) for x in list(v.keys()) + list(v.values()))) \
        or (isinstance(v, (list, tuple, set, frozenset)) and any(has_opaque_value(x) for x in v)) or (isinstance(v, Record) and any(has_opaque_value(x) for x in v.fields.values()))


_MUTATORS = ("update", "add", "append", "extend", "pop", "setdefault", "clear", "discard", "remove", "insert", "popitem", "sort", "reverse")
_JUMPS = (ast.Return, ast.Raise, ast.Break, ast.Continue)


class Machine:
    """Interprets EXTRACTED statements (assignments, if / for / while / try, in-place updates of dicts / lists / sets, calls of helpers of the analysed code) on representative
    values; expressions are evaluated by minieval (ev / xev) after helper calls were expanded. Nothing of the repository is imported or run.
      strict:   whatever cannot be interpreted raises CannotEval (the rule reports 'not recognised').
      tolerant: a statement that cannot be interpreted makes everything it may bind or update an _Opaque value and the run goes on; a later DECISION that needs such a value
                raises CannotEval. (If the statement may jump - return / raise / break / continue inside - the run cannot go on soundly: CannotEval.)
    loop_feed: {id(For node): values} - that loop iterates over the given values instead of its own iterable (an event stream in place of the ijson parser); every iteration
               is recorded in .trace ({'item', 'stores': [(container, key, value)], 'broke'}).
    on_call:   hook (call node, env, machine) -> value | NotImplemented for calls the rule supplies the result of (the selective parse, json.loads of the probe response).
    ctors:     RecordCtors - constructions of NamedTuple / namedtuple / dataclass types of the analysed code evaluate to tuples / records."""

    def __init__(self, expand=None, strict=True, loop_feed=None, on_call=None, budget=40000, ctors=None):
        self.expand = expand if expand is not None else (lambda e: e)
        self.strict, self.loop_feed, self.on_call, self.budget, self.ctors = strict, loop_feed or {}, on_call, budget, ctors
        self.trace: list = []
        self.cur = None
        self.depth = 0

    # -- expressions ------------------------------------------------------------------------------------
    def val(self, e, env):
        e = self.expand(e)
        try:
            return ev(e, env)
        except (CannotEval, TypeError, StopIteration):
            pass
        try:
            return xev(e, env, self.ctors)
        except StopIteration:
            raise CannotEval(f"{short(e, 50)}: next() of an empty iterator")

    def value_of(self, e, env):
        """value of the right-hand side of a statement: the hook first, then evaluation, then - for a helper that is not a plain expression - its interpretation."""
        c = e.value if isinstance(e, ast.Await) else e
        if isinstance(c, ast.Call) and self.on_call is not None:
            r = self.on_call(c, env, self)
            if r is not NotImplemented:
                return r
        if isinstance(e, ast.Dict) and not self.strict and None not in e.keys:
            v = {}
            for k_, x_ in zip(e.keys, e.values):  # member by member: one uninterpreted member does not hide the others
                try:
                    v[self.val(k_, env)] = self.value_of(x_, env)
                except CannotEval:
                    v[self.val(k_, env)] = _Opaque(short(x_, 40))
            return v
        try:
            return self.val(e, env)
        except CannotEval:
            fn = self.expand.target(c) if isinstance(c, ast.Call) and hasattr(self.expand, "target") else None
            if fn is None:
                raise
            return self.call(fn, c, env)

    def call(self, fn, c, env):
        """interprets the body of a helper of the analysed code on the argument VALUES (containers are shared with the caller, as in Python)."""
        if self.depth > 5 or any(isinstance(a, ast.Starred) for a in c.args) or any(k.arg is None for k in c.keywords) or not isinstance(fn, ast.FunctionDef) \
                or fn.args.vararg or fn.args.kwarg or any(isinstance(x, (ast.Yield, ast.YieldFrom, ast.Await)) for x in ast.walk(fn)):
            raise CannotEval(f"call {short(c, 50)}")
        names, defaults = _signature(fn)
        bound = source.bind_args(c, fn)
        if len(c.args) > len(names) or any(k.arg not in names for k in c.keywords):
            raise CannotEval(f"call {short(c, 50)}: arguments do not fit {fn.name}")
        # a nested function reads the variables of the function around it
        env2 = dict(env) if any(isinstance(a, (ast.FunctionDef, ast.AsyncFunctionDef)) for a in source.ancestors(fn)) else {}
        for p in names:
            src_, where = (bound[p], env) if p in bound else ((defaults[p], {}) if p in defaults else (None, None))
            if src_ is None:
                raise CannotEval(f"call {short(c, 50)}: no argument for {p}")
            try:
                env2[p] = self.val(src_, where)
            except CannotEval:
                if self.strict:
                    raise
                env2[p] = _Opaque(short(src_, 40))
        self.depth += 1
        try:
            sig = self.run(fn.body, env2)
        finally:
            self.depth -= 1
        if sig is None:
            return None
        if sig[0] == "return":
            return sig[1]
        raise CannotEval(f"helper {fn.name} leaves by {sig[0]}")

    # -- statements ---------------------------------------------------------------------------------------
    def run(self, stmts, env):
        for s in stmts:
            sig = self.stmt(s, env)
            if sig is not None:
                return sig
        return None

    def give_up(self, s, env, why):
        """tolerant mode: the statement is not interpreted - what it may bind or update in place is unknown from here on."""
        if self.strict or any(isinstance(x, _JUMPS) for x in ast.walk(s)):
            raise CannotEval(f"{why} (`{short(s, 50)}` at line {getattr(s, 'lineno', '?')})")
        for n in ast.walk(s):
            nm = None
            if isinstance(n, ast.Name) and isinstance(n.ctx, (ast.Store, ast.Del)):
                nm = n.id
            elif isinstance(n, (ast.Subscript, ast.Attribute)) and isinstance(n.ctx, (ast.Store, ast.Del)):
                nm = root_name(n)
            elif isinstance(n, ast.Call) and isinstance(n.func, ast.Attribute) and n.func.attr in _MUTATORS:
                nm = root_name(n.func.value)
            elif isinstance(n, ast.Call):
                # an uninterpreted call may update the containers handed to it (and the one it is a method of)
                for a in list(n.args) + [k.value for k in n.keywords] + ([n.func.value] if isinstance(n.func, ast.Attribute) else []):
                    if isinstance(env.get(root_name(a)), (dict, list, set)):
                        env[root_name(a)] = _Opaque(root_name(a))
            if nm is not None and nm != "self":
                env[nm] = _Opaque(nm)
        return None

    def bind(self, t, v, env, s):
        if isinstance(t, ast.Name):
            env[t.id] = v
        elif isinstance(t, (ast.Tuple, ast.List)) and not any(isinstance(x, ast.Starred) for x in t.elts):
            if isinstance(v, _Opaque) and not self.strict:
                for x in t.elts:
                    self.bind(x, _Opaque(v.what), env, s)
                return
            if not isinstance(v, (list, tuple)) or len(v) != len(t.elts):
                raise CannotEval(f"unpacking `{short(s, 50)}`")
            for x, xv in zip(t.elts, v):
                self.bind(x, xv, env, s)
        elif isinstance(t, ast.Subscript):
            box, key_ = self.val(t.value, env), self.val(t.slice, env)
            if not isinstance(box, (dict, list)):
                raise CannotEval(f"in-place update `{short(s, 50)}`")
            try:
                box[key_] = v
            except (TypeError, IndexError) as x:
                raise CannotEval(f"`{short(s, 50)}`: {type(x).__name__}")
            if self.cur is not None:
                self.cur["stores"].append((box, key_, v))
        else:
            raise CannotEval(f"target of `{short(s, 50)}`")

    def stmt(self, s, env):
        self.budget -= 1
        if self.budget < 0:
            raise CannotEval("interpretation budget exhausted")
        if _is_noise(s) or isinstance(s, (ast.Import, ast.ImportFrom, ast.Assert)):
            return None
        if isinstance(s, ast.FunctionDef):
            if hasattr(self.expand, "nested"):
                self.expand.nested.setdefault(s.name, s)
            return None
        if isinstance(s, ast.Return):
            if s.value is None:
                return ("return", None)
            try:
                return ("return", self.value_of(s.value, env))
            except CannotEval:
                if self.strict:
                    raise
                return ("return", _Opaque(short(s.value, 40)))
        if isinstance(s, ast.Raise):
            return ("raise", s)
        if isinstance(s, ast.Break):
            return ("break", None)
        if isinstance(s, ast.Continue):
            return ("continue", None)
        if isinstance(s, ast.Expr):
            return self.expr_stmt(s, env)
        if isinstance(s, ast.Assign):
            try:
                v = self.value_of(s.value, env)
            except CannotEval:
                if self.strict and not all(isinstance(t, ast.Name) for t in s.targets):
                    raise
                v = _Opaque(short(s.value, 40))  # e.g. `parser = ijson.parse(text)`: harmless unless the value is used
            try:
                for t in s.targets:
                    self.bind(t, v, env, s)
            except CannotEval as e:
                return self.give_up(s, env, str(e))
            return None
        if isinstance(s, ast.AugAssign):
            try:
                v = self.val(ast.BinOp(left=source.clone(s.target), op=s.op, right=s.value), env)
                self.bind(s.target, v, env, s)
            except CannotEval as e:
                return self.give_up(s, env, str(e))
            return None
        if isinstance(s, ast.If):
            try:
                c = bool(self.val(s.test, env))
            except CannotEval as e:
                return self.give_up(s, env, str(e))
            return self.run(s.body if c else s.orelse, env)
        if isinstance(s, ast.For):
            fed = id(s) in self.loop_feed
            try:
                items = self.loop_feed[id(s)] if fed else self.val(s.iter, env)
                if not isinstance(items, (list, tuple, set, frozenset, dict, range, str)):
                    raise CannotEval(f"iterable of `{short(s, 50)}`")
                items = list(items)
            except CannotEval as e:
                return self.give_up(s, env, str(e))
            broke = False
            for item in items:
                prev = self.cur
                if fed:
                    self.cur = {"item": item, "stores": [], "broke": False}
                    self.trace.append(self.cur)
                self.bind(s.target, item, env, s)
                try:
                    sig = self.run(s.body, env)
                finally:
                    rec, self.cur = self.cur, prev
                if sig is not None and sig[0] == "break":
                    if fed:
                        rec["broke"] = True
                    broke = True
                    break
                if sig is not None and sig[0] != "continue":
                    return sig
            return None if broke else self.run(s.orelse, env)
        if isinstance(s, ast.While):
            while True:
                self.budget -= 1
                if self.budget < 0:
                    raise CannotEval("interpretation budget exhausted")
                try:
                    c = bool(self.val(s.test, env))
                except CannotEval as e:
                    return self.give_up(s, env, str(e))
                if not c:
                    return self.run(s.orelse, env)
                sig = self.run(s.body, env)
                if sig is not None and sig[0] == "break":
                    return None
                if sig is not None and sig[0] != "continue":
                    return sig
        if isinstance(s, ast.Try):
            # the interpreted run raises nothing: body, else, finally
            sig = self.run(s.body, env)
            if sig is None:
                sig = self.run(s.orelse, env)
            fin = self.run(s.finalbody, env)
            return fin if fin is not None else sig
        if isinstance(s, ast.Delete):
            try:
                for t in s.targets:
                    if isinstance(t, ast.Name):
                        env.pop(t.id, None)
                    elif isinstance(t, ast.Subscript):
                        del self.val(t.value, env)[self.val(t.slice, env)]
                    else:
                        raise CannotEval(f"`{short(s, 50)}`")
            except (KeyError, IndexError, TypeError) as x:
                raise CannotEval(f"`{short(s, 50)}`: {type(x).__name__}")
            return None
        return self.give_up(s, env, f"statement {type(s).__name__}")

    def expr_stmt(self, s, env):
        c = s.value.value if isinstance(s.value, ast.Await) else s.value
        if not isinstance(c, ast.Call):
            return None
        if self.on_call is not None and self.on_call(c, env, self) is not NotImplemented:
            return None
        f = c.func
        if isinstance(f, ast.Attribute) and f.attr in _MUTATORS:
            recv = None
            try:
                recv = self.val(f.value, env)
            except CannotEval:
                pass  # e.g. a container reached through self: the generic rule below decides
            if isinstance(recv, (dict, list, set)):
                try:
                    getattr(recv, f.attr)(*[self.val(a, env) for a in c.args], **{k.arg: self.val(k.value, env) for k in c.keywords if k.arg})
                except (KeyError, IndexError, TypeError, ValueError, AttributeError) as x:
                    return self.give_up(s, env, f"{type(x).__name__}")
                except CannotEval as e:
                    return self.give_up(s, env, str(e))
                return None
            if isinstance(recv, _Opaque):
                return None
        fn = self.expand.target(c) if hasattr(self.expand, "target") else None
        if fn is not None:
            try:
                self.call(fn, c, env)
                return None
            except CannotEval as e:
                return self.give_up(s, env, str(e))
        # an uninterpreted call: harmless when nothing it is handed (receiver included) is a container of this run
        if any(isinstance(env.get(nm), (dict, list, set)) for nm in loads_of(c)):
            return self.give_up(s, env, f"call {short(c, 50)}")
        return None


def _is_pop(n) -> bool:
    return isinstance(n, ast.Call) and isinstance(n.func, ast.Attribute) and n.func.attr == "pop"


class PopMachine(Machine):
    """Machine whose EXPRESSIONS may take-and-remove from the containers of the run: `d.pop(k[, default])` inside an expression is evaluated in Python's order (receiver, arguments
    left to right - an inner pop happens first -, then the removal), `or` / `and` / conditional expressions evaluate only the operands Python would evaluate. The value of every pop
    is bound to a fresh name, the rest of the expression is left to the evaluator of Machine. A tuple is evaluated member by member (tolerant mode: one uninterpreted member does
    not hide the others)."""

    _n = 0

    def val(self, e, env):
        e = self.expand(e)
        if not any(_is_pop(n) for n in ast.walk(e)):
            return Machine.val(self, e, env)
        return self._pval(e, env)

    def _pval(self, e, env):
        if not any(_is_pop(n) for n in ast.walk(e)):
            return Machine.val(self, e, env)
        if isinstance(e, ast.BoolOp):
            r = None
            for x in e.values:
                r = self._pval(x, env)
                if bool(r) != isinstance(e.op, ast.And):
                    return r
            return r
        if isinstance(e, ast.IfExp):
            return self._pval(e.body if self._pval(e.test, env) else e.orelse, env)
        if _is_pop(e):
            recv = self._pval(e.func.value, env)
            if not isinstance(recv, (dict, list)) or e.keywords or any(isinstance(a, ast.Starred) for a in e.args):
                raise CannotEval(f"{short(e, 50)}: receiver / arguments of pop")
            args = [self._pval(a, env) for a in e.args]
            try:
                return recv.pop(*args)
            except (KeyError, IndexError, TypeError) as x:
                raise CannotEval(f"{short(e, 50)}: {type(x).__name__}")
        m, env2 = self, dict(env)

        class T(ast.NodeTransformer):
            def visit(self, n):
                if isinstance(n, ast.expr) and any(_is_pop(x) for x in ast.walk(n)) and (_is_pop(n) or isinstance(n, (ast.BoolOp, ast.IfExp))):
                    PopMachine._n += 1
                    nm = f"_pop{PopMachine._n}_"
                    env2[nm] = m._pval(n, env)
                    return ast.Name(id=nm, ctx=ast.Load())
                if isinstance(n, (ast.Lambda, ast.ListComp, ast.SetComp, ast.DictComp, ast.GeneratorExp)) and any(_is_pop(x) for x in ast.walk(n)):
                    raise CannotEval(f"{short(n, 50)}: pop in a deferred expression")
                return self.generic_visit(n)

        return Machine.val(self, ast.fix_missing_locations(T().visit(source.clone(e))), env2)

    def value_of(self, e, env):
        if isinstance(e, ast.Tuple) and not any(isinstance(x, ast.Starred) for x in e.elts):
            out = []
            for x in e.elts:
                try:
                    out.append(self.value_of(x, env))
                except CannotEval:
                    if self.strict:
                        raise
                    out.append(_Opaque(short(x, 40)))
            return tuple(out)
        return Machine.value_of(self, e, env)


def json_events(doc, prefix=""):
    """the (prefix, event, value) stream ijson.parse produces for the JSON document `doc` (reference model of the event source; ints as 'integer', floats as 'double')."""
    if isinstance(doc, dict):
        yield (prefix, "start_map", None)
        for k, v in doc.items():
            yield (prefix, "map_key", k)
            yield from json_events(v, f"{prefix}.{k}" if prefix else k)
        yield (prefix, "end_map", None)
    elif isinstance(doc, list):
        yield (prefix, "start_array", None)
        for v in doc:
            yield from json_events(v, f"{prefix}.item" if prefix else "item")
        yield (prefix, "end_array", None)
    elif doc is None:
        yield (prefix, "null", None)
    elif isinstance(doc, bool):
        yield (prefix, "boolean", doc)
    elif isinstance(doc, int):
        yield (prefix, "integer", doc)
    elif isinstance(doc, float):
        yield (prefix, "double", doc)
    else:
        yield (prefix, "string", doc)


_SCALAR_EVENTS = ("null", "boolean", "integer", "double", "number", "string")


def full_parse_view(events, props, lists, objects):
    """what a FULL parse of the document behind `events` has for the requested paths, and the index of the event after which each of them is known:
    scalar properties by their path, requested lists as 'is empty', requested flat objects as {member key: scalar value} (member keys as the map_key events spell them)."""
    out, at = {}, {}
    for i, (p, e, v) in enumerate(events):
        if p in props and e in _SCALAR_EVENTS and p not in at:
            out[p], at[p] = v, i
        if lists is not None and p in lists and e == "start_array" and p not in at and i + 1 < len(events):
            out[p], at[p] = events[i + 1][:2] == (p, "end_array"), i + 1
        if objects is not None and p in objects and e == "start_map" and p not in at:
            obj, key_, j = {}, None, i + 1
            while j < len(events) and events[j][:2] != (p, "end_map"):
                if events[j][:2] == (p, "map_key"):
                    key_ = events[j][2]
                elif events[j][1] in _SCALAR_EVENTS and key_ is not None and events[j][0] == p + "." + key_:
                    obj[key_] = events[j][2]
                j += 1
            if j < len(events):
                out[p], at[p] = obj, j
    return out, at


def same_json(a, b) -> bool:
    """equality as JSON values: 0 / 0.0 / False and 1 / 1.0 / True are different values."""
    if type(a) is not type(b):
        return False
    if isinstance(a, dict):
        return a.keys() == b.keys() and all(same_json(a[k], b[k]) for k in a)
    if isinstance(a, (list, tuple)):
        return len(a) == len(b) and all(same_json(x, y) for x, y in zip(a, b))
    return a == b


def run(chk):
    repo = chk.repo
    rn = repo.module(_R)
    chk.use(rn)
    chk.explanation = (
        "Decides agreement of sibling fast/slow paths and the shape of textual extraction, on VALUES: detailed_stats and simple_stats are interpreted as whole functions (extracted "
        "statements evaluated by minieval on probe bulk responses; helper methods they call are interpreted with them; the selective parse and the full re-parse of the probe are "
        "supplied by the rule) - each of 24 representative items (status x _shards, odd error objects) must be reported as failed iff status > 299 or _shards.failed > 0, identically in "
        "both paths, success == (error count == 0), the fast path re-parses iff `errors` is flagged; "
        "no JSON value's end is delimited by a regex character class / find on a structural character (regex AST query) and offsets found in one text are only applied to that same text; "
        "parse() is interpreted on the ijson event streams of small documents (same leaf at several depths, empty / nested lists, falsy members, dotted member keys) and must return what "
        "a full parse has for the requested paths, stopping no earlier than when everything requested was seen. "
        "Orderings over the collected (status, reason) error details are evaluated over the details the extraction produces for representative failed items and must be total (F29) - "
        "the extraction method is interpreted as a whole, a detail may be a plain tuple or a NamedTuple / namedtuple / dataclass of the module (modelled as a value with the same "
        "equality, hash and ordering), orderings of collections.Counter views over the details are evaluated too; "
        "every keyed read of a selective-parse result (the parse() call, a helper that returns it unchanged, a helper the result is handed to) must be among the paths that call requested; "
        "the pattern, locator literal and decoder offset of the cursor search are evaluated on seven spellings of the member (white space around the colon) and must point at the "
        "value's opening bracket (F30) - the search may slice the tail off or scan in place (<compiled pattern>.search(text, pos)), the decoder may get the whole text or the tail; "
        "on a response in which no hit carries the member while a longer member name ends like it, no match may reach the decoder (a start position of -1 scans the whole text); "
        "the per-page accounting (pages / weight, hit total from the first page only, sticky timed_out, summed took) is followed into helpers the page loop calls (stores into the "
        "parameter bound to the result variable, conditions around every call on the way evaluated on the parameters bound to the result / the page number); once a cursor is stored in the shared body, every path to ANY exit of the page function (exception edges included) removes it again (F28). "
        "Known findings: fast-path gate does not summarise the _shards.failed disjunct (F10; also hides a 404 not_found delete item); the cursor key is located by a "
        "nesting-insensitive text search (F9b)."
    )
    chk.not_decided = "equivalence on all JSON texts, hit/page accounting arithmetic, ijson's own behaviour."
    CTORS = RecordCtors(rn, on_use=chk.use)
    BI = rn.cls("BulkIndex")
    bm = rn.methods(BI)
    det, simp = bm.get("detailed_stats"), bm.get("simple_stats")
    if det is None or simp is None:
        raise AnchorMissing("BulkIndex.detailed_stats / simple_stats")

    # ---- O19.1 sibling agreement on the item predicate -----------------------------------------------------------------------------------------
    chk.rule("O19.1", "in both the detailed and the fast path every bulk item is counted as failed iff status > 299 or _shards.failed > 0 (21 representative items), as succeeded otherwise; "
             "success == (error count == 0); error details extracted for failed items", 44,
             "a bulk response with that item: success/error counts differ between the two paths and from a full parse")

    def item_loop(f):
        for n in walk_body(f):
            if isinstance(n, ast.For) and isinstance(n.iter, ast.Subscript) and source.is_const(n.iter.slice, "items"):
                return n
        raise AnchorMissing(f"loop over response['items'] in {f.name}")

    def counter_names(f):
        """(error counter, success counter): the locals reported under 'error-count' / 'success-count'."""
        for n in walk_body(f):
            if isinstance(n, ast.Dict):
                d = {k.value: v for k, v in zip(n.keys, n.values) if isinstance(k, ast.Constant)}
                if isinstance(d.get("error-count"), ast.Name) and isinstance(d.get("success-count"), ast.Name):
                    return d["error-count"].id, d["success-count"].id
        raise AnchorMissing(f"result dict with error-count / success-count in {f.name}")

    from sa import pat as _pat
    from sa.classes import is_logging_stmt

    def bound_by(s):
        """names a statement (re)binds or updates in place: plain / tuple targets, and the root of a subscript / attribute target."""
        tg = s.targets if isinstance(s, ast.Assign) else ([s.target] if isinstance(s, (ast.AugAssign, ast.AnnAssign)) else [])
        out = set()
        for t in tg:
            out |= stores_of(t)
            if isinstance(t, (ast.Subscript, ast.Attribute)) and root_name(t):
                out.add(root_name(t))
        return out

    tables = {}
    # an extracted item predicate (`if self._item_failed(data):`, a module-level / nested helper) is analysed through the expression it returns
    expand1 = Expander(rn, BI, [n for f_ in (det, simp) for n in ast.walk(f_) if isinstance(n, ast.FunctionDef) and n is not f_])
    # What the two paths REPORT, decided on values: each function is interpreted as a whole (Machine, tolerant: what it cannot interpret - request sizes, the ops histogram, the error
    # description - becomes an unknown value and does not matter unless a decision needs it) on probe bulk responses. The rule supplies the two views of the response the functions
    # ask for: parse(<response>, paths) -> the requested top-level scalars of the probe (the selective parse), json.loads(..) -> the whole probe (the full parse; how often it is
    # asked for is recorded). Nothing is read off local names, the order of statements or the spelling of tests.
    pf1 = rn.func("parse")
    pp1 = params_of(pf1)
    sp = params_of(simp)
    if len(sp) < 4:
        raise AnchorMissing("simple_stats(self, bulk_size, unit, response)")
    dparams = [p_ for p_ in params_of(det) if p_ not in ("self", "cls")]
    # the (fully parsed) response is the parameter whose `items` are read
    dresp = [p_ for p_ in dparams if any(isinstance(n, ast.Subscript) and isinstance(n.value, ast.Name) and n.value.id == p_ and source.is_const(n.slice, "items") for n in ast.walk(det))
             or any(isinstance(n, ast.Call) and isinstance(n.func, ast.Attribute) and n.func.attr == "get" and isinstance(n.func.value, ast.Name) and n.func.value.id == p_ and n.args
                    and source.is_const(n.args[0], "items") for n in ast.walk(det))]
    if len(dresp) != 1 or len(dparams) != 2:
        raise AnchorMissing("detailed_stats(self, params, response): the parameter whose `items` are counted")
    dresp = dresp[0]
    # the function that extracts the error details of ONE failed item, by role: two parameters besides self, details are added (.add / .append) to one of them, and it is
    # reachable from BOTH counting paths through calls of methods of the class (self / cls / the class name) and of module-level functions (its name is used only to choose
    # among several such functions)
    def bulk_callee(c):
        """the method of BulkIndex / module-level function a call resolves to (None: something else)."""
        t = expand1.target(c)
        return t if isinstance(t, ast.FunctionDef) and (t in bm.values() or source.parent(t) is rn.tree) else None

    def self_closure(f, seen=None):
        seen = seen if seen is not None else {}
        if id(f) not in seen:
            seen[id(f)] = f
            for n in ast.walk(f):
                if isinstance(n, ast.Call) and bulk_callee(n) is not None:
                    self_closure(bulk_callee(n), seen)
        return seen

    def adds_to_a_parameter(m_):
        ps = [p_ for p_ in params_of(m_) if p_ not in ("self", "cls")]
        return len(ps) == 2 and any(isinstance(n, ast.Call) and isinstance(n.func, ast.Attribute) and n.func.attr in ("add", "append") and isinstance(n.func.value, ast.Name)
                                    and n.func.value.id in ps for n in walk_body(m_))

    reach_det, reach_simp = self_closure(det), self_closure(simp)
    xd_candidates = [m_ for k_, m_ in reach_det.items() if m_ not in (det, simp) and k_ in reach_simp and adds_to_a_parameter(m_)]
    xd_candidates = [m_ for m_ in xd_candidates if m_.name == "extract_error_details"] or xd_candidates
    XD = xd_candidates[0] if len(xd_candidates) == 1 else None

    # the same role in its PURE shape: a function with one parameter (the item) that RETURNS the detail, the counting paths add its result: <collection>.add(<that call>)
    def adds_result_of(n):
        """the function whose result the statement-level call n adds to a collection held in a local (None: n is no such call)."""
        if isinstance(n, ast.Call) and isinstance(n.func, ast.Attribute) and n.func.attr in ("add", "append") and isinstance(n.func.value, ast.Name) and len(n.args) == 1 and not n.keywords \
                and isinstance(n.args[0], ast.Call):
            g_ = bulk_callee(n.args[0])
            if g_ is not None and len([p_ for p_ in params_of(g_) if p_ not in ("self", "cls")]) == 1 and not g_.args.kwonlyargs:
                return g_
        return None

    XD_PURE = None
    if XD is None and not xd_candidates:
        pure = [{id(adds_result_of(n)): adds_result_of(n) for f_ in reach.values() for n in ast.walk(f_) if adds_result_of(n) is not None} for reach in (reach_det, reach_simp)]
        both = [g_ for k_, g_ in pure[0].items() if k_ in pure[1]]
        XD_PURE = both[0] if len(both) == 1 else None
    XD_NAME = XD.name if XD is not None else (XD_PURE.name if XD_PURE is not None else "extract_error_details")

    def extracts_details(c):
        """the statement-level call c extracts the error details of one item (either shape)."""
        if XD is not None:
            return bulk_callee(c) is XD
        if XD_PURE is not None:
            return adds_result_of(c) is XD_PURE
        return is_self_attr(c.func, XD_NAME)
    OK_ITEM = {"_index": "i", "_id": "1", "status": 201, "_shards": {"total": 2, "successful": 2, "failed": 0}}
    BAD_ITEMS = [{"_index": "i", "_id": "2", "status": 429, "error": {"type": "x", "reason": "r"}}, {"_index": "i", "_id": "3", "status": 500, "error": {"type": "y", "reason": "q"}}]

    def bulk_response(mix, errors="as Elasticsearch sets it"):
        """probe response for a bulk of ok (True) / failed (False) items."""
        bad = itertools.cycle(BAD_ITEMS)
        r = {"took": 3}
        if errors is not None:
            r["errors"] = (not all(mix)) if errors == "as Elasticsearch sets it" else errors
        r["items"] = [{("index" if i_ % 2 == 0 else "update"): copy.deepcopy(OK_ITEM if ok_ else next(bad))} for i_, ok_ in enumerate(mix)]
        return r

    def stats_of(f, resp, bulk_size=None, unit="docs"):
        """(the stats dict f returns for the probe response, number of full parses it asked for, number of times the error details of an item were extracted) - f interpreted, never run."""
        full_parses, details = [], []

        def on_call(c, env, m):
            if isinstance(c.func, ast.Name) and rn.index().get(c.func.id) is pf1:
                a_ = source.bind_args(c, pf1)
                req = m.val(a_[pp1[1]], env) if pp1[1] in a_ else []
                return {k_: resp[k_] for k_ in req if k_ in resp and not isinstance(resp[k_], (dict, list))}
            if dotted(c.func) in ("json.loads", "json.load"):
                full_parses.append(c)
                return copy.deepcopy(resp)
            if extracts_details(c):
                details.append(c)  # observed only: the machine interprets the method like any other helper
            return NotImplemented

        m = Machine(expand1, strict=False, on_call=on_call, ctors=CTORS)
        if f is simp:
            env = {sp[1]: len(resp["items"]) if bulk_size is None else bulk_size, sp[2]: unit}
        else:
            env = {dresp: copy.deepcopy(resp), [p_ for p_ in dparams if p_ != dresp][0]: {"body": "{}\n{}", "action-metadata-present": True}}
        sig = m.run(f.body, env)
        if sig is None or sig[0] != "return" or not isinstance(sig[1], dict):
            raise CannotEval(f"{f.name} does not return a dict for the probe response")
        return sig[1], len(full_parses), len(details)

    def reported(r, k_):
        v_ = r.get(k_, "<not reported>")
        if isinstance(v_, _Opaque):
            raise CannotEval(f"the value reported under {k_!r} is not interpreted ({v_.what})")
        return v_

    def classifier_for(f):
        """(item loop, classify(item) -> counters) - the item loop of f interpreted statement by statement (fallback when the function cannot be interpreted as a whole)."""
        L = item_loop(f)
        if not isinstance(L.target, ast.Name):
            raise AnchorMissing(f"loop variable of the item loop in {f.name}")
        itemv = L.target.id
        ERRC, OKC = counter_names(f)

        def counter_hit(s, ERRC=ERRC, OKC=OKC):
            """('err' | 'ok', k) when the statement adds the constant k to the error / success counter (the locals reported under error-count / success-count)."""
            c = k = None
            if isinstance(s, ast.AugAssign) and isinstance(s.target, ast.Name) and isinstance(s.op, ast.Add):
                c, k = s.target.id, s.value
            elif isinstance(s, ast.Assign) and len(s.targets) == 1 and isinstance(s.targets[0], ast.Name):
                b_ = _pat.match(s.value, "V_c + E_k", binds={"c": s.targets[0].id}) or _pat.match(s.value, "E_k + V_c", binds={"c": s.targets[0].id})
                if b_ is not None:
                    c, k = s.targets[0].id, (s.value.right if isinstance(s.value.left, ast.Name) and s.value.left.id == s.targets[0].id else s.value.left)
            if c not in (ERRC, OKC) or not isinstance(k, ast.Constant) or type(k.value) is not int:
                return None
            return ("err" if c == ERRC else "ok", k.value)

        def is_details(s):
            return isinstance(s, ast.Expr) and isinstance(s.value, ast.Call) and (last_attr(s.value.func) == XD_NAME or (XD_PURE is not None and adds_result_of(s.value) is XD_PURE))

        # backward slice of the classification: the names the counting decision depends on (by data flow and control dependence), instead of guessing relevance from variable names
        body_stmts = [n for st_ in L.body for n in source.walk_local(st_) if isinstance(n, ast.stmt)]
        rel: set = set()

        def touches(s, rel=rel, counter_hit=counter_hit, is_details=is_details):
            return any(isinstance(x, ast.stmt) and (counter_hit(x) or is_details(x) or bound_by(x) & rel) for x in source.walk_local(s))

        changed = True
        while changed:
            changed = False
            for s_ in body_stmts:
                if isinstance(s_, ast.If) and touches(s_):
                    need = loads_of(expand1(s_.test))
                elif isinstance(s_, (ast.Assign, ast.AugAssign, ast.AnnAssign)) and not counter_hit(s_) and bound_by(s_) & rel:
                    need = loads_of(s_) | (loads_of(expand1(s_.value)) if s_.value is not None else set())
                else:
                    continue
                if not need <= rel:
                    rel |= need
                    changed = True

        def classify(item, L=L, itemv=itemv, ERRC=ERRC, OKC=OKC, rel=rel, counter_hit=counter_hit, is_details=is_details, touches=touches):
            env = {itemv: {"index": copy.deepcopy(item)}}
            counters = {"err": 0, "ok": 0, "details": 0}

            def run_block(stmts):
                for s in stmts:
                    hit = counter_hit(s)
                    if hit:
                        counters[hit[0]] += hit[1]
                    elif is_details(s):
                        counters["details"] += 1
                    elif isinstance(s, ast.Pass) or is_logging_stmt(s):
                        continue
                    elif isinstance(s, (ast.Assign, ast.AugAssign, ast.AnnAssign)):
                        b_ = bound_by(s)
                        if b_ & {ERRC, OKC}:
                            raise CannotEval(f"counter updated by something other than +1 at line {s.lineno}")
                        if not b_ & rel:
                            for x in b_:
                                env.pop(x, None)  # the classification does not depend on it
                            continue
                        if not isinstance(s, ast.Assign) or len(s.targets) != 1 or not isinstance(s.targets[0], (ast.Name, ast.Tuple, ast.Subscript)) or (
                                isinstance(s.targets[0], ast.Tuple) and not all(isinstance(x, ast.Name) for x in s.targets[0].elts)):
                            raise CannotEval(f"update of a value the item classification depends on: {short(s, 60)} at line {s.lineno}")
                        t = s.targets[0]
                        val = ev(expand1(s.value), env)
                        if isinstance(t, ast.Name):
                            env[t.id] = val
                        elif isinstance(t, ast.Subscript):
                            # in-place update of (a part of) the item: applied to this run's private copy
                            box, key_ = ev(t.value, env), ev(t.slice, env)
                            if not isinstance(box, dict) or isinstance(key_, (dict, list, set)):
                                raise CannotEval(f"in-place update {short(s, 60)} at line {s.lineno}")
                            box[key_] = val
                        else:
                            if not isinstance(val, (list, tuple)) or len(val) != len(t.elts):
                                raise CannotEval(f"unpacking {short(s, 60)} at line {s.lineno}")
                            for x, v in zip(t.elts, val):
                                env[x.id] = v
                    elif isinstance(s, ast.If):
                        if not touches(s):
                            continue
                        run_block(s.body if ev(expand1(s.test), env) else s.orelse)
                    elif isinstance(s, ast.Expr):
                        continue
                    else:
                        raise CannotEval(f"statement {type(s).__name__} at line {s.lineno}")

            run_block(L.body)
            return counters
        return L, classify

    def whole_function(f, item):
        """counters for a bulk response holding just this item (flagged `errors`, so that the fast path inspects it): f interpreted as a whole."""
        r, _, n_details = stats_of(f, {"took": 3, "errors": True, "items": [{"index": copy.deepcopy(item)}]}, bulk_size=1)
        return {"err": reported(r, "error-count"), "ok": reported(r, "success-count"), "details": n_details}

    for f in (det, simp):
        try:
            L, classify = classifier_for(f)
            no_loop = None
        except AnchorMissing as e:
            L, classify, no_loop = f, None, str(e)
        if XD is None and XD_PURE is None and f is det:
            chk.unknown("O19.1", "the method of BulkIndex that extracts the error details of a failed item (two parameters, adds to one of them, called from both counting paths) "
                                 f"could not be located ({len(xd_candidates)} candidates)", BI)
        rows = []
        for item in ITEMS:
            inst = f"{f.name}: item status={item['status']} _shards={'absent' if '_shards' not in item else 'failed=' + str(item['_shards']['failed'])}" + \
                ("" if ("error" in item) == (item["status"] > 299) else (" without error object" if "error" not in item else " with error: null"))
            want_fail = item["status"] > 299 or ("_shards" in item and item["_shards"]["failed"] > 0)
            try:
                c = whole_function(f, item)
            except (CannotEval, TypeError) as e1:
                try:
                    if classify is None:
                        raise CannotEval(f"anchor missing: {no_loop}")
                    c = classify(item)
                except (CannotEval, TypeError) as e:
                    msg_ = f"{f.name} cannot be interpreted over the item domain: as a whole: {e1}; its item loop: {e}"
                    if not any(msg_ in m_ for m_ in chk.inconclusive):
                        chk.unknown("O19.1", msg_, L)
                    rows.append(None)
                    continue
            got = "failed" if (c["err"], c["ok"]) == (1, 0) else ("succeeded" if (c["err"], c["ok"]) == (0, 1) else f"err+={c['err']} ok+={c['ok']}")
            rows.append(got)
            # (where the extraction of the details could not be located, only the counting is decided - the missing anchor is reported above, never as a violation)
            ok = got == ("failed" if want_fail else "succeeded") and (not want_fail or (XD is None and XD_PURE is None) or c["details"] == 1)
            chk.ob("O19.1", inst, ok, L, f"counted as {got}" + (f", error details extracted {c['details']}x" if want_fail and (XD is not None or XD_PURE is not None) else "") + f"; full parse: {'failed' if want_fail else 'succeeded'}",
                   key=f"{_R}:BulkIndex.{f.name}:item:{item['status']}|{'absent' if '_shards' not in item else item['_shards']['failed']}" + ("" if ("error" in item) == (item["status"] > 299) else "|odd-error"))
        tables[f.name] = rows
    if None not in (tables.get("detailed_stats") or [None]) + (tables.get("simple_stats") or [None]):
        chk.ob("O19.1", "detailed and fast path agree on every representative item", tables.get("detailed_stats") == tables.get("simple_stats"), det, "")
    MIXES = ([], [True], [False], [True, False, True, False, True], [False, False], [True, True, True])
    for f in (det, simp):
        try:
            bad = None
            for mix in MIXES:
                r = stats_of(f, bulk_response(mix))[0]
                n_bad, n_ok = mix.count(False), mix.count(True)
                got = (reported(r, "success"), reported(r, "success-count"), reported(r, "error-count"))
                if not (same_json(got[0], n_bad == 0) and same_json(got[1], n_ok) and same_json(got[2], n_bad)) and bad is None:
                    bad = f"bulk of {n_ok} succeeded and {n_bad} failed item(s): reported success={got[0]!r} success-count={got[1]!r} error-count={got[2]!r}"
            chk.ob("O19.1", f"{f.name}: success == (error count == 0); counts reported under their names", bad is None, f, bad or f"{len(MIXES)} probe responses")
            r0 = stats_of(f, bulk_response([]))[0]
            r1 = stats_of(f, bulk_response([True, True]))[0]
            chk.ob("O19.1", f"{f.name}: error count starts at 0", same_json(reported(r0, "error-count"), 0) and same_json(reported(r1, "error-count"), 0), f,
                   f"no failed item: error-count {reported(r0, 'error-count')!r} / {reported(r1, 'error-count')!r}")
        except (CannotEval, TypeError) as e:
            chk.unknown("O19.1", f"{f.name} cannot be interpreted on the probe bulk responses: {e}", f)
    # fast path: success count when no errors are flagged == bulk size (docs), recounted from 0 when the items are inspected; the full parse happens iff errors are flagged
    full = [n for n in walk_body(simp) if isinstance(n, ast.Call) and dotted(n.func) == "json.loads"]
    try:
        quiet_docs = stats_of(simp, bulk_response([True, True]), bulk_size=7919, unit="docs")[0]
        quiet_ops = stats_of(simp, bulk_response([True, True]), bulk_size=7919, unit="ops")[0]
        loud_docs = stats_of(simp, bulk_response([True, False, True]), bulk_size=7919, unit="docs")[0]
        loud_ops = stats_of(simp, bulk_response([True, False, True]), bulk_size=7919, unit="ops")[0]
        got = [reported(x, "success-count") for x in (quiet_docs, quiet_ops, loud_docs, loud_ops)]
        ok = same_json(got[0], 7919) and not same_json(got[1], 7919) and same_json(got[2], 2) and same_json(got[3], 2)
        chk.ob("O19.1", "fast path: success count == bulk size unless items are inspected (then recounted from 0)", ok, simp,
               f"bulk size 7919: success-count {got[0]!r} (docs) / {got[1]!r} (ops) when no errors are flagged; {got[2]!r} / {got[3]!r} for 2 succeeded + 1 failed item")
        mixed = [True, False, True, False]
        n_full = [stats_of(simp, bulk_response(mixed, errors=e_))[1] for e_ in (True, False, None)]
        r_fast = stats_of(simp, bulk_response(mixed, errors=True))[0]
        r_det = stats_of(det, bulk_response(mixed, errors=True))[0]
        agree = all(same_json(reported(r_fast, k_), reported(r_det, k_)) for k_ in ("success", "success-count", "error-count"))
        chk.ob("O19.1", "fast path re-parses fully when errors are flagged", n_full[0] >= 1 and n_full[1:] == [0, 0] and agree, full[0] if full else simp,
               f"full parses with errors=true / false / absent: {n_full}; with errors=true the fast path reports " + ", ".join(f"{k_}={reported(r_fast, k_)!r}" for k_ in ("success-count", "error-count"))
               + ("" if agree else " and the detailed path " + ", ".join(f"{k_}={reported(r_det, k_)!r}" for k_ in ("success-count", "error-count"))))
    except (CannotEval, TypeError) as e:
        chk.unknown("O19.1", f"simple_stats cannot be interpreted on the probe bulk responses: {e}", simp)
    # the variable holding the selectively parsed flags: assigned from parse(response, [... 'errors' ...])
    flagv = [n.targets[0].id for n in walk_body(simp) if isinstance(n, ast.Assign) and len(n.targets) == 1 and isinstance(n.targets[0], ast.Name) and isinstance(n.value, ast.Call)
             and dotted(n.value.func) == "parse" and has_const(n.value, "errors")]

    def gate_open(node, errors):
        """are all guards of node satisfied for a response whose top-level `errors` is true / false / absent? (None: cannot be evaluated)"""
        if len(set(flagv)) != 1:
            return None
        env = {flagv[0]: ({"took": 3} if errors is None else {"took": 3, "errors": errors})}
        sdefs_ = {k_: v_ for k_, v_ in local_defs(simp).items() if k_ != flagv[0]}
        try:
            return all(bool(xev(expand1(source.inline_node(t, sdefs_)), dict(env))) == pol for t, pol in guards(node))
        except CannotEval:
            return None

    # ---- O19.4 known finding F10 ---------------------------------------------------------------------------------------------------------------------
    chk.rule("O19.4", "the fast-path gate (top-level `errors` flag) summarises every disjunct of the item failure predicate", 1,
             "item with status 201 and _shards.failed=1 while errors=false: fast path reports success 1/0, detailed path failure 0/1; the same gate hides the other disjunct for a bulk "
             "delete of an absent document (404 / result not_found, no error object, errors=false): fast path success 4/0, detailed path failure 3/1 (hunt C19-f3, another face of F10)")
    # decided on values: a bulk whose only failure is a shard failure of an item with a 2xx status - Elasticsearch does not set `errors` for it. Both paths are interpreted on this
    # response: if the fast path reports other counts than the detailed path, the gate hides a disjunct of the item predicate.
    SHARD_ONLY = {"took": 3, "errors": False, "items": [{"index": {"_index": "i", "_id": "1", "status": 201, "_shards": {"total": 2, "successful": 1, "failed": 1}}},
                                                       {"index": copy.deepcopy(OK_ITEM)}]}
    site4 = simp
    try:
        site4 = item_loop(simp)
    except AnchorMissing:
        pass
    try:
        fast4, slow4 = stats_of(simp, SHARD_ONLY)[0], stats_of(det, SHARD_ONLY)[0]
        hidden = not all(same_json(reported(fast4, k_), reported(slow4, k_)) for k_ in ("success", "success-count", "error-count"))
        detail4 = "errors=false, one item with status 201 and _shards.failed=1: the fast path reports " + ", ".join(f"{k_}={reported(fast4, k_)!r}" for k_ in ("success", "success-count", "error-count")) \
            + "; the detailed path " + ", ".join(f"{k_}={reported(slow4, k_)!r}" for k_ in ("success", "success-count", "error-count"))
    except (CannotEval, TypeError):
        # fallback (the functions cannot be interpreted as a whole): the guards of the item loop evaluated for errors = true / false / absent, the predicate read off the item table
        L = item_loop(simp)
        g_ = [gate_open(L, e_) for e_ in (True, False, None)]
        gated_by_errors = (g_[0] is True and g_[1] is False) if None not in g_ else any(has_const(t, "errors") for t, _ in guards(L))
        rows_s = tables.get("simple_stats") or []
        shard_only = [i for i, it in enumerate(ITEMS) if it["status"] <= 299 and "_shards" in it and it["_shards"]["failed"] > 0]
        if len(rows_s) == len(ITEMS) and all(rows_s[i] is not None for i in shard_only):
            pred_has_shards = any(rows_s[i] == "failed" for i in shard_only)
        else:
            pred_has_shards = any(has_const(n.test, "_shards") for n in ast.walk(L) if isinstance(n, ast.If))
        hidden = gated_by_errors and pred_has_shards
        detail4 = "items are only inspected when the response's `errors` flag is set, but the item predicate also fails items with _shards.failed > 0, which Elasticsearch does not reflect in `errors`"
    chk.ob("O19.4", "fast-path gate vs `_shards.failed > 0`", not hidden, site4, detail4, key=f"{_R}:BulkIndex.simple_stats:gate-vs-item-predicate:_shards.failed")

    # ---- O19.9 orderings over the collected error details are total (F29) ------------------------------------------------------------------------------------------
    chk.rule("O19.9", "every ordering (sorted / sort / min / max) applied to the error details collected from the failed bulk items is total over the details the extraction can produce: "
             "a failed item may carry no reason (detail (status, None)) next to an item of the same status that carries one (detail (status, str))", 1,
             "two failed items share a status and only one has an error reason (delete of an absent document + update of an absent document; `reason: null`): TypeError from comparing "
             "None with str in BOTH the detailed and the fast path - neither reports success / error counts at all")
    xd = XD if XD is not None else XD_PURE
    if xd is None:
        raise AnchorMissing("BulkIndex.extract_error_details (the method / module-level function that adds the details of one failed item to a collection, or returns them to "
                            "counting paths that add them)")
    # roles of its parameters by use: the collection is the one details are added to, the item is the other one (pure shape: the item is the only one)
    xparams = [p_ for p_ in params_of(xd) if p_ not in ("self", "cls")]
    if XD is not None:
        coll = [p_ for p_ in xparams if any(isinstance(n, ast.Call) and isinstance(n.func, ast.Attribute) and n.func.attr in ("add", "append") and isinstance(n.func.value, ast.Name)
                                             and n.func.value.id == p_ for n in walk_body(xd))]
        if len(coll) != 1 or len(xparams) != 2:
            raise AnchorMissing("extract_error_details(<collection the details are added to>, <item>)")
        DCOLL = coll[0]
        DITEM = [p_ for p_ in xparams if p_ != DCOLL][0]
    else:
        DCOLL, DITEM = None, xparams[0]
    add_methods = {n.func.attr for n in walk_body(xd) if isinstance(n, ast.Call) and isinstance(n.func, ast.Attribute) and n.func.attr in ("add", "append") and isinstance(n.func.value, ast.Name)
                   and n.func.value.id == DCOLL}
    expand9 = Expander(rn, BI, [n for n in ast.walk(xd) if isinstance(n, ast.FunctionDef) and n is not xd])

    def details_of(item):
        """the details the extraction adds for one failed item: the method interpreted as a whole (Machine, strict: assignments, if / elif / else chains, guard clauses, helpers it
        calls, <collection>.add / .append(<expr>)) on the item and an empty collection of the kind it adds to; a detail may be a plain tuple or a small record type of the module
        (NamedTuple / namedtuple / dataclass), which evaluates to a value with the same equality, hash and ordering."""
        box = set() if add_methods == {"add"} else []
        m = Machine(expand9, strict=True, ctors=CTORS)
        sig = m.run(xd.body, {DITEM: copy.deepcopy(item), DCOLL: box} if DCOLL is not None else {DITEM: copy.deepcopy(item)})
        if sig is not None and sig[0] != "return":
            raise CannotEval(f"{xd.name} leaves by {sig[0]} for the item {item!r}")
        if DCOLL is None and sig is None:
            raise CannotEval(f"{xd.name} returns no detail for the item {item!r}")
        added = list(box) if DCOLL is not None else [sig[1]]
        for v_ in added:
            hash(v_)  # details are collected in a set by the callers
            if has_opaque_value(v_):
                raise CannotEval(f"a detail {xd.name} adds is not interpreted")
        return added

    # representative FAILED items: with a reason, without an error object (delete of an absent document; item failed because of its shards), error without reason, `reason: null`,
    # error given as plain text - two statuses, so that details tie on the status
    FAILED = [{"status": st_, **extra} for st_ in (404, 500) for extra in ({"error": {"type": "x", "reason": "r"}}, {"error": {"type": "x", "reason": "another reason"}}, {"result": "not_found"},
                                                                           {"error": {"type": "x"}}, {"error": {"type": "x", "reason": None}}, {"error": "plain text"})]
    FAILED.append({"status": 201, "_shards": {"total": 2, "successful": 1, "failed": 1}})
    DETAILS = None
    try:
        DETAILS = set()
        for it_ in FAILED:
            DETAILS |= set(details_of(it_))
    except (CannotEval, TypeError) as e:
        chk.unknown("O19.9", f"extract_error_details cannot be interpreted over the representative failed items: {e}", xd)
        DETAILS = None
    if DETAILS is not None and not DETAILS:
        raise AnchorMissing("extract_error_details adds no detail for any representative failed item")

    def key_function(kx, fn):
        """python callable for the key= expression of an ordering: a lambda, a local / nested / own-class function with a single returned expression, operator.itemgetter, str / repr."""
        kx = source.inline_node(kx, local_defs(fn)) if isinstance(kx, ast.Name) and kx.id in local_defs(fn) else kx
        if isinstance(kx, ast.Lambda) and len(kx.args.args) == 1 and not (kx.args.vararg or kx.args.kwarg or kx.args.kwonlyargs or kx.args.posonlyargs):
            return lambda v, kx=kx: xev(kx.body, {kx.args.args[0].arg: v})
        if isinstance(kx, ast.Name) and kx.id in ("str", "repr"):
            return {"str": str, "repr": repr}[kx.id]
        if isinstance(kx, ast.Call) and dotted(kx.func) in ("operator.itemgetter", "itemgetter") and kx.args and all(isinstance(a, ast.Constant) and type(a.value) is int for a in kx.args):
            idx = [a.value for a in kx.args]
            return (lambda v: v[idx[0]]) if len(idx) == 1 else (lambda v: tuple(v[i] for i in idx))
        target = None
        if isinstance(kx, ast.Name):
            target = next((n for n in walk_body(fn) if isinstance(n, (ast.FunctionDef,)) and n.name == kx.id), None) or (rn.index().get(kx.id) if isinstance(rn.index().get(kx.id), ast.FunctionDef) else None)
        elif is_self_attr(kx):
            target = bm.get(kx.attr)
        if target is not None:
            ps = [p_ for p_ in params_of(target) if p_ not in ("self", "cls")]
            body = [s for s in target.body if not (is_logging_stmt(s) or (isinstance(s, ast.Expr) and isinstance(s.value, ast.Constant)))]
            if len(ps) == 1 and len(body) == 1 and isinstance(body[0], ast.Return) and body[0].value is not None:
                return lambda v, e_=body[0].value, p_=ps[0]: xev(e_, {p_: v})
        raise CannotEval(f"key function `{short(kx, 60)}`")

    if DETAILS is not None:
        # the counting paths themselves and the methods of the class they hand the SAME collection to (and whatever those pass it on to)
        def detail_collections(fn, depth=0):
            """the names (locals / parameters of fn) handed to extract_error_details as the collection - directly or through helper methods of the class that pass them on."""
            out = set()
            for n in walk_body(fn):
                if XD_PURE is not None and adds_result_of(n) is XD_PURE:
                    out.add(n.func.value.id)  # pure shape: the local the returned detail is added to
                elif isinstance(n, ast.Call) and bulk_callee(n) is not None:
                    callee = bulk_callee(n)
                    roles = {DCOLL} if callee is xd else ((detail_collections(callee, depth + 1) & set(params_of(callee))) if depth < 3 and callee is not fn else set())
                    out |= {a.id for p_, a in source.bind_args(n, callee).items() if p_ in roles and isinstance(a, ast.Name)}
            return out

        todo = []
        for f in (det, simp):
            names = detail_collections(f)
            if len(names) != 1:
                raise AnchorMissing(f"{f.name}: the collection handed to extract_error_details")
            todo.append((f, names.pop()))
        seen9 = set()
        while todo:
            fn, P = todo.pop()
            if (fn.name, P) in seen9:
                continue
            seen9.add((fn.name, P))
            for n in walk_body(fn):
                if not isinstance(n, ast.Call):
                    continue
                if bulk_callee(n) is not None and bulk_callee(n) is not xd:
                    for p_, a in source.bind_args(n, bulk_callee(n)).items():
                        if isinstance(a, ast.Name) and a.id == P:
                            todo.append((bulk_callee(n), p_))
                if dotted(n.func) in ("sorted", "min", "max") and len(n.args) == 1:
                    subject, what = n.args[0], dotted(n.func)
                elif isinstance(n.func, ast.Attribute) and n.func.attr == "sort" and not n.args:
                    subject, what = n.func.value, "sort"
                else:
                    continue
                subj = source.inline_node(subject, {k_: v_ for k_, v_ in local_defs(fn).items() if k_ != P})
                if P not in loads_of(subj):
                    continue  # an ordering of something else (e.g. of the status codes only)
                kx = next((k.value for k in n.keywords if k.arg == "key"), None)
                try:
                    elems = xev(subj, {P: set(DETAILS)})
                    if not isinstance(elems, (set, list, tuple, frozenset)):
                        raise CannotEval(f"`{short(subject, 60)}` is not a collection of details")
                    elems = sorted(elems, key=repr)
                    keyf = key_function(kx, fn) if kx is not None and not (isinstance(kx, ast.Constant) and kx.value is None) else (lambda v: v)
                    keys = [keyf(e_) for e_ in elems]
                except (CannotEval, TypeError, IndexError) as e:
                    chk.unknown("O19.9", f"{fn.name}: `{short(n, 70)}` cannot be evaluated over the representative details: {e}", n)
                    continue
                clash = None
                for (e1, k1), (e2, k2) in itertools.combinations(zip(elems, keys), 2):
                    try:
                        k1 < k2, k2 < k1
                    except TypeError:
                        clash = (e1, e2)
                        break
                chk.ob("O19.9", f"{fn.name}: {what}() over the error details never compares a missing reason (None) with a reason (str)", clash is None, n,
                       short(n, 90) + (f" — total over {len(elems)} representative details, {sum(1 for e_ in elems if any(x_ is None for x_ in members_of(e_)))} of them without a reason"
                                       if clash is None else f" — ordering the details {clash[0]!r} and {clash[1]!r} raises TypeError: no statistics at all for this bulk in either path"),
                       key=f"{_R}:BulkIndex.{fn.name}:ordering-of-details:{what}")
    # ---- O19.2 value boundaries ----------------------------------------------------------------------------------------------------------------------------
    chk.rule("O19.2", "no JSON value handed to a JSON decoder has its END delimited by a regex character class or a text search on a structural character; offsets found in one text are "
             "applied only to that same text (not bytes offsets on the decoded string); the START of the value is found for every JSON spelling of the member (white space - space, tab, "
             "LF, CR - on either side of the colon, as in pretty-printed responses) and is the value's opening bracket", 10,
             "sort value containing ']' or a nested array; non-ASCII text before the last hit; a pretty-printed response (`\"sort\" : [2]`): no cursor where a full parse gives [2]")
    SA = rn.cls("SearchAfterExtractor")
    sm = rn.methods(SA)
    gl = sm.get("_get_last_sort")
    if gl is None:
        raise AnchorMissing("SearchAfterExtractor._get_last_sort")
    pats = {}
    for n in ast.walk(SA):
        if isinstance(n, ast.Assign) and isinstance(n.value, ast.Call) and dotted(n.value.func) == "re.compile" and isinstance(n.value.args[0], ast.Constant):
            pats[u(n.targets[0])] = (n.value.args[0].value, n)
    for n in ast.walk(SA):
        if isinstance(n, ast.Call) and dotted(n.func) in ("re.search", "re.match", "re.findall", "re.finditer", "re.fullmatch") and n.args and isinstance(n.args[0], ast.Constant) and isinstance(n.args[0].value, str):
            pats[f"<inline pattern @ line {n.lineno}>"] = (n.args[0].value, n)
    gdefs = local_defs(gl)
    decs = [n for n in walk_body(gl) if isinstance(n, ast.Call) and (dotted(n.func) == "json.loads" or last_attr(n.func) == "raw_decode")]
    if not decs:
        raise AnchorMissing("JSON decoding call in _get_last_sort")
    for d in decs:
        if dotted(d.func) == "json.loads":
            a = d.args[0]
            # value from a regex group?
            ai = source.inline_node(a, gdefs)
            if any(isinstance(x, ast.Call) and last_attr(x.func) in ("group", "groups") for x in ast.walk(ai)):
                bad = []
                for pname, (ptxt, pn) in pats.items():
                    g_ = structural_class_groups(ptxt)
                    if g_:
                        bad.append((pname, ptxt, g_))
                chk.ob("O19.2", "json.loads(<regex group>)", not bad, d, f"the decoded text is cut out by {[(p, t) for p, t, _ in bad]}: the group ends at the first structural character, wherever it occurs" if bad else "group not delimited by a structural character class",
                       key=f"{_R}:SearchAfterExtractor._get_last_sort:value-end-by-char-class")
            else:
                chk.ob("O19.2", "json.loads on a complete text", True, d, "")
        else:
            chk.ob("O19.2", "value end found by JSONDecoder.raw_decode", True, d, short(d, 80))
    for pname, (ptxt, pn) in pats.items():
        g_ = structural_class_groups(ptxt)
        if g_ is None:
            chk.unknown("O19.2", f"pattern {ptxt!r} does not parse", pn)
        else:
            used_for_value = any(isinstance(n, ast.Call) and last_attr(n.func) == "group" for n in walk_body(gl))
            chk.ob("O19.2", f"pattern {pname} does not delimit a value by a structural character class", not (g_ and used_for_value), pn, f"{ptxt!r}: {g_}")
    # offset/text agreement
    texts = {}
    for n in walk_body(gl):
        if isinstance(n, ast.Assign) and isinstance(n.targets[0], ast.Name) and isinstance(n.value, ast.Call) and last_attr(n.value.func) in ("rfind", "find", "index", "rindex"):
            texts[n.targets[0].id] = u(source.inline_node(n.value.func.value, gdefs))  # single-assignment aliases of the text resolved
    _SEARCHES = ("search", "match", "fullmatch")
    _RE_SEARCH_SIG = ast.parse("def search(pattern, string, flags=0): pass").body[0]  # re.search / re.match / re.fullmatch
    _PATTERN_SEARCH_SIG = ast.parse("def search(string, pos=0, endpos=None): pass").body[0]  # the methods of a compiled pattern

    def whole_text(e_):
        """the text an expression is a tail / part of: slices stripped (`t[i:]` is a part of t - positions in it are positions in t shifted by i, in the same unit)."""
        e_ = source.inline_node(e_, gdefs)
        while isinstance(e_, ast.Subscript) and isinstance(e_.slice, ast.Slice):
            e_ = e_.value
        return u(e_)

    def searched_text(c):
        """(pattern expression, text expression, [pos, endpos] expressions, method) of a pattern search: re.search(p, text) or <compiled pattern>.search(text[, pos[, endpos]])."""
        if not isinstance(c, ast.Call) or not isinstance(c.func, ast.Attribute) or c.func.attr not in _SEARCHES or any(isinstance(a, ast.Starred) for a in c.args) \
                or any(k.arg is None for k in c.keywords):
            return None
        if dotted(c.func) in ("re." + m_ for m_ in _SEARCHES):
            a_ = source.bind_args(c, _RE_SEARCH_SIG)
            return (a_["pattern"], a_["string"], [], c.func.attr) if set(a_) == {"pattern", "string"} and len(c.args) + len(c.keywords) == 2 else None
        a_ = source.bind_args(c, _PATTERN_SEARCH_SIG)
        if len(a_) != len(c.args) + len(c.keywords) or "string" not in a_ or ("endpos" in a_ and "pos" not in a_):
            return None
        return (c.func.value, a_["string"], [a_[k_] for k_ in ("pos", "endpos") if k_ in a_], c.func.attr)

    def bound_name(c):
        """the name a call's result is bound to: by a plain assignment or by an assignment expression (`if (m := pattern.search(text)) is None: return None`)"""
        as_, np_ = source.enclosing_stmt(c), source.parent(c)
        return as_.targets[0].id if isinstance(as_, ast.Assign) and as_.value is c and len(as_.targets) == 1 and isinstance(as_.targets[0], ast.Name) else (
            np_.target.id if isinstance(np_, ast.NamedExpr) and np_.value is c and isinstance(np_.target, ast.Name) else None)

    # positions read off a match object (m.start(k) / m.end(k) / m.span(k)) are positions in the text that was searched (shifted by the start of the slice, if a slice was searched)
    mtexts = {}
    for n in walk_body(gl):
        st_ = searched_text(n)
        if st_ is not None and bound_name(n) is not None:
            mtexts[bound_name(n)] = whole_text(st_[1])
    n_off = 0
    for n in walk_body(gl):
        tgt = None
        used = set()
        mused = set()
        if isinstance(n, ast.Subscript) and isinstance(n.slice, ast.Slice):
            tgt = u(source.inline_node(n.value, gdefs))
            used = {x.id for x in ast.walk(n.slice) if isinstance(x, ast.Name)}
        elif isinstance(n, ast.Call) and last_attr(n.func) == "raw_decode" and len(n.args) == 2:
            tgt = u(source.inline_node(n.args[0], gdefs))
            used = {x.id for x in ast.walk(n.args[1]) if isinstance(x, ast.Name)}
        elif isinstance(n, ast.Call) and last_attr(n.func) in ("search", "match") and len(n.args) >= 3 and dotted(n.func) in ("re.search", "re.match"):
            tgt = u(source.inline_node(n.args[1], gdefs))
            used = {x.id for x in ast.walk(n.args[2]) if isinstance(x, ast.Name)}
        elif searched_text(n) is not None and searched_text(n)[2]:
            # <compiled pattern>.search(text, pos[, endpos]): the start position is an offset into the text handed over
            tgt = u(source.inline_node(searched_text(n)[1], gdefs))
            used = {x.id for a_ in searched_text(n)[2] for x in ast.walk(a_) if isinstance(x, ast.Name)}
        if tgt is not None:
            mused = {x.func.value.id for a_ in ([n.slice] if isinstance(n, ast.Subscript) else list(n.args)) for x in ast.walk(a_)
                     if isinstance(x, ast.Call) and isinstance(x.func, ast.Attribute) and x.func.attr in ("start", "end", "span") and isinstance(x.func.value, ast.Name) and x.func.value.id in mtexts}
        for v in used & set(texts):
            n_off += 1
            ok = texts[v] == tgt
            chk.ob("O19.2", f"offset `{v}` (found in `{texts[v]}`) applied to `{tgt}`", ok, n, "" if ok else "an offset found in one text (e.g. the raw bytes) indexes another (the decoded string): they differ by the number of multi-byte characters before it")
        for v in sorted(mused):
            n_off += 1
            ok = mtexts[v] == whole_text(n.value if isinstance(n, ast.Subscript) else (n.args[0] if last_attr(n.func) == "raw_decode" else searched_text(n)[1]))
            chk.ob("O19.2", f"position read off the match `{v}` (a search in `{mtexts[v]}`) applied to `{tgt}`", ok, n,
                   "" if ok else "a position found in one text (e.g. the raw bytes) indexes another (the decoded string): they differ by the number of multi-byte characters before it")
    if n_off >= 1:
        chk.ob("O19.2", "offset uses located", True, gl, f"{n_off} use(s)")
    else:
        chk.unknown("O19.2", "_get_last_sort: no use of an offset found by a text search (find / rfind / index) could be located", gl)
    # decoded once: the text searched is the decoded response. The codec is decided on its VALUE (any spelling of UTF-8; bytes.decode() without an argument is UTF-8)
    import codecs as _codecs
    dec = [n for n in walk_body(gl) if isinstance(n, ast.Call) and isinstance(n.func, ast.Attribute) and n.func.attr == "decode"] + \
          [n for n in walk_body(gl) if isinstance(n, ast.Call) and dotted(n.func) == "str" and (len(n.args) >= 2 or any(k.arg == "encoding" for k in n.keywords))]
    if not dec:
        chk.unknown("O19.2", "_get_last_sort: where the response bytes are decoded could not be located", gl)
    else:
        d0 = dec[0]
        enc = next((k.value for k in d0.keywords if k.arg == "encoding"), None) or (d0.args[0] if dotted(d0.func) != "str" and d0.args else (d0.args[1] if dotted(d0.func) == "str" and len(d0.args) >= 2 else None))
        if enc is None:
            chk.ob("O19.2", "response decoded as UTF-8 before searching", True, d0, "bytes.decode(): UTF-8 by default")
        elif isinstance(enc, ast.Constant) and isinstance(enc.value, str):
            try:
                codec = _codecs.lookup(enc.value).name
            except LookupError:
                codec = f"unknown codec {enc.value!r}"
            chk.ob("O19.2", "response decoded as UTF-8 before searching", codec == "utf-8", d0, f"codec: {codec}")
        else:
            chk.unknown("O19.2", f"_get_last_sort: the codec `{short(enc, 40)}` the response is decoded with is not a literal", d0)
    # F30: the START of the value, decided on values. The extracted locator literal (rfind / find argument), the extracted pattern literal and the extracted decoder offset expression
    # are evaluated on a response whose last hit spells the member with white space on either side of the colon: the offset handed to the decoder must be the position of the value's
    # opening bracket (what a full parse of the same text uses). Nothing of the repository runs: `re` is applied to the pattern LITERAL, str.rfind to the locator LITERAL.
    import json as _json
    import re as _re

    def compiled_literal(pexpr):
        """the pattern text behind the expression handed to search / match: a string literal, an attribute bound to re.compile(<literal>) in the class, or a local of either kind."""
        pi = source.inline_node(pexpr, gdefs)
        if isinstance(pi, ast.Constant) and isinstance(pi.value, str):
            return pi.value
        # bound in the class (self.x = re.compile(..) in a method, x = re.compile(..) in the class body) or at module level
        bound = [pn for pname, (_, pn) in pats.items() if isinstance(pn, ast.Assign) and last_attr(pn.targets[0]) == last_attr(pi) and isinstance(pi, (ast.Name, ast.Attribute))]
        call_ = bound[0].value if len(bound) == 1 else (rn.module_constant(pi.id) if isinstance(pi, ast.Name) and rn.module_constant(pi.id) is not None else pi)
        if isinstance(call_, ast.Call) and dotted(call_.func) == "re.compile" and len(call_.args) == 1 and not call_.keywords and isinstance(call_.args[0], ast.Constant) \
                and isinstance(call_.args[0].value, str):
            return call_.args[0].value
        return None

    probes = []  # (search call, method, pattern text, text expression, name bound to the match, [pos, endpos] expressions of a compiled pattern's search)
    for n in walk_body(gl):
        st_ = searched_text(n)
        if st_ is None:
            continue
        pexpr, texpr, posargs, meth = st_
        ptxt = compiled_literal(pexpr)
        if ptxt is None:
            continue
        probes.append((n, meth, ptxt, texpr, bound_name(n), posargs))
    if len(probes) != 1:
        raise AnchorMissing(f"_get_last_sort: the one pattern search that locates the cursor value ({len(probes)} found)")
    sc, meth, ptxt, texpr, mv, posargs = probes[0]
    try:
        cpat = _re.compile(ptxt)
    except _re.error as e:
        raise AnchorMissing(f"_get_last_sort: pattern {ptxt!r} does not compile: {e}")
    raw = [d for d in decs if last_attr(d.func) == "raw_decode" and len(d.args) == 2]

    class KeyNotFound(CannotEval):
        """str.index / str.rindex of the locator literal on a probe text that does not contain it: the analysed code raises ValueError there"""

    class OnText(ast.NodeTransformer):
        """replaces `<text>.rfind(<literal>)` (find / index / rindex) by its value on the probe text and `<match>.start(k)` / `.end(k)` by the value for the probe match."""

        def __init__(self, full, m):
            self.full, self.m = full, m

        def visit_NamedExpr(self, n):
            # `(m := <the pattern search>)` inside a test: the match is supplied by the rule under that name
            if mv is not None and isinstance(n.target, ast.Name) and n.target.id == mv:
                return ast.Name(id=mv, ctx=ast.Load())
            return self.generic_visit(n)

        def visit_Call(self, c):
            self.generic_visit(c)
            if isinstance(c.func, ast.Name) and c.func.id in ("max", "min") and len(c.args) >= 2 and not c.keywords and all(
                    isinstance(a, ast.Constant) and type(a.value) is int for a in c.args):
                return ast.Constant(value=(max if c.func.id == "max" else min)(a.value for a in c.args))  # a clamped position: max(<offset>, 0)
            if isinstance(c.func, ast.Attribute) and not c.keywords:
                if c.func.attr in ("rfind", "find", "index", "rindex") and len(c.args) == 1 and isinstance(c.args[0], ast.Constant) and isinstance(c.args[0].value, str):
                    try:
                        return ast.Constant(value=getattr(self.full, c.func.attr)(c.args[0].value))
                    except ValueError:
                        raise KeyNotFound(f"{u(c)}: not found in the probe text")
                if c.func.attr in ("start", "end", "span") and isinstance(c.func.value, ast.Name) and c.func.value.id == mv and len(c.args) <= 1 and all(isinstance(a, ast.Constant) for a in c.args):
                    if self.m is None:
                        raise CannotEval("no match")
                    try:
                        return ast.Constant(value=getattr(self.m, c.func.attr)(*[a.value for a in c.args]))
                    except (IndexError, TypeError) as x:
                        raise CannotEval(f"{u(c)}: {x}")
            return c

    def on_text(expr, full, m, env=None):
        return ev(OnText(full, m).visit(source.inline_node(expr, {k_: v_ for k_, v_ in gdefs.items() if k_ != mv})), dict(env or {}))

    def tail_start(e_, full, negative_ok=False):
        """(where the text `e_` starts within the probe text, the text itself): the decoded response (0) or its tail `text[i:]` from an offset found by a literal text search -
        written in place or bound to a local first. With negative_ok the slice is taken as Python takes it (text[-1:] is the last character)."""
        ei = source.inline_node(e_, {k_: v_ for k_, v_ in gdefs.items() if k_ != mv})
        if not isinstance(ei, ast.Subscript):
            return 0, full
        if not (isinstance(ei.slice, ast.Slice) and ei.slice.upper is None and ei.slice.step is None) or isinstance(ei.value, ast.Subscript):
            raise CannotEval(f"text searched / decoded: {u(e_)}")
        lo = on_text(ei.slice.lower, full, None) if ei.slice.lower is not None else 0
        if not isinstance(lo, int) or isinstance(lo, bool) or (lo < 0 and not negative_ok):
            raise CannotEval(f"start of the text searched / decoded: {lo!r}")
        part = full[lo:]
        return len(full) - len(part), part

    def run_search(full, negative_ok=False):
        """(start of the searched text within the probe, the match of the pattern literal on it) - a compiled pattern's search(text, pos[, endpos]) scans from pos as `re` does
        (a negative pos is 0: the whole text)."""
        start, part = tail_start(texpr, full, negative_ok)
        pv = [on_text(a_, full, None) for a_ in posargs]
        if not all(isinstance(x_, int) and not isinstance(x_, bool) for x_ in pv) or (any(x_ < 0 for x_ in pv) and not negative_ok):
            raise CannotEval(f"start position of the search: {pv!r}")
        return start, getattr(cpat, meth)(part, *pv)

    for ws1, ws2 in (("", ""), ("", " "), (" ", " "), (" ", ""), ("\n      ", "\n      "), ("\t", "\t"), ("\r\n", "\r\n")):
        member = '"sort"' + ws1 + ":" + ws2 + "[2]"
        full = '{"took":1,"timed_out":false,"hits":{"total":{"value":4,"relation":"eq"},"hits":[{"_id":"1","sort":[1]},{"_id":"2",' + member + "}]}}"
        want = full.index(member) + member.index("[")  # where a full parse finds the value: the last hit's `[`
        assert _json.loads(full)["hits"]["hits"][-1]["sort"] == [2] and _json.JSONDecoder().raw_decode(full, want)[0] == [2]
        inst = f"cursor value located when the member is spelled {member!r}"
        key_ = f"{_R}:SearchAfterExtractor._get_last_sort:value-start:{ws1!r}:{ws2!r}"
        try:
            # the text searched: the decoded response, or its tail from an offset found by a literal text search (sliced off, or scanned in place from that position on)
            start, m = run_search(full)
            if m is None:
                chk.ob("O19.2", inst, False, sc, f"pattern {ptxt!r} does not match: the fast path returns no cursor, a full parse of the same response gives [2]", key=key_)
                continue
            if raw:
                # the decoder is handed the decoded response or a tail of it: its offset counts from where that text starts
                got = tail_start(raw[0].args[0], full)[0] + on_text(raw[0].args[1], full, m)
                how_ = f"decoder offset `{u(raw[0].args[1])}`"
            else:
                # no offset-based decoder: the positions read off the match, relative to the text searched
                pos = [c for c in walk_body(gl) if isinstance(c, ast.Call) and isinstance(c.func, ast.Attribute) and c.func.attr in ("start", "end") and isinstance(c.func.value, ast.Name)
                       and c.func.value.id == mv]
                if not pos:
                    raise CannotEval("no offset is read off the match")
                got = start + on_text(pos[0], full, m)
                how_ = f"`{u(pos[0])}`"
            chk.ob("O19.2", inst, got == want, sc, f"pattern {ptxt!r}: {how_} = {got}, the value's opening bracket is at {want}", key=key_)
        except CannotEval as e:
            chk.unknown("O19.2", f"_get_last_sort: the position handed to the decoder cannot be evaluated on a probe text: {e}", sc)
            break
    # a response in which NO hit carries the member (the text search for the key finds nothing: -1), while the pattern - which starts inside the key - does occur in a longer member
    # name: a full parse has no cursor. The fast path has none either iff the search is not reached, scans a text in which the pattern does not occur (text[-1:] is one character),
    # or its match never reaches the decoder. A start position of -1 handed to <compiled pattern>.search(text, pos) scans the WHOLE text.
    none_ = '{"took":1,"timed_out":false,"hits":{"total":{"value":1,"relation":"eq"},"hits":[{"_id":"1","_source":{"resort":[1]}}]}}'
    assert "sort" not in _json.loads(none_)["hits"]["hits"][-1] and '"sort"' not in none_
    key_ = f"{_R}:SearchAfterExtractor._get_last_sort:no-sort-member"
    inst = "no cursor when no hit carries the member (the key search finds nothing) although a longer member name ends like it"
    try:
        def passed(node_, m_):
            return all(bool(on_text(t_, none_, m_, {mv: m_} if mv else None)) == pol_ for t_, pol_ in guards(source.enclosing_stmt(node_), path_sensitive=True))

        try:
            reached_ = passed(sc, None)
            if reached_:
                tail_start(texpr, none_, negative_ok=True), [on_text(a_, none_, None) for a_ in posargs]
        except KeyNotFound:
            reached_ = False  # the key search raises (index / rindex): the pattern search does not run
        if not reached_:
            chk.ob("O19.2", inst, True, sc, "the pattern search is not reached when the key search finds nothing", key=key_)
        else:
            _, m = run_search(none_, negative_ok=True)
            dsite = raw[0] if raw else decs[0]
            if m is None:
                chk.ob("O19.2", inst, True, sc, "the text scanned after an unsuccessful key search does not contain the pattern", key=key_)
            elif mv is None and isinstance(source.enclosing_stmt(dsite), ast.If):
                raise CannotEval("the match is not bound to a name")
            else:
                reached = passed(dsite, m)
                chk.ob("O19.2", inst, not reached, dsite,
                       f"the key search finds nothing, the pattern search then scans the text from {m.string[:12]!r} on and matches {m.group(0)!r} inside another member: the fast path "
                       f"decodes a cursor where a full parse of the same response has none" if reached else "a match found after an unsuccessful key search never reaches the decoder", key=key_)
    except CannotEval as e:
        chk.unknown("O19.2", f"_get_last_sort: what happens when the key search finds nothing cannot be evaluated on a probe text: {e}", sc)

    # ---- O19.5 known finding F9b ----------------------------------------------------------------------------------------------------------------------------
    chk.rule("O19.5", "the cursor key of the last hit is located structurally, not by a nesting-insensitive text search", 1,
             "last hit sort [20] followed by inner_hits with sort [999] -> cursor [999]; matched_queries ['sort'] -> cursor None")
    rf = [n for n in walk_body(gl) if isinstance(n, ast.Call) and last_attr(n.func) in ("rfind", "rindex") and n.args and isinstance(n.args[0], ast.Constant) and "sort" in str(n.args[0].value)]
    chk.ob("O19.5", "last `sort` key located by text search", not rf, rf[0] if rf else gl, "rfind('\"sort\"') on the raw text picks the textually last occurrence at any nesting depth (or inside a string)",
           key=f"{_R}:SearchAfterExtractor._get_last_sort:rfind-sort-key")

    # ---- O19.6 cursor threading ---------------------------------------------------------------------------------------------------------------------------------
    chk.rule("O19.6", "paginated search: the cursor sent with the next page is the extractor's result for the response just received (search_after := last sort; composite after := after_key), "
             "pages == weight == number of requests issued; hit totals are taken from the first page only", 6,
             "a page is fetched twice / skipped because a stale cursor (or the previous page's) is sent")
    Q = rn.cls("Query")
    qcall = rn.methods(Q).get("__call__")
    if qcall is None:
        raise AnchorMissing("Query.__call__")
    inner = {n.name: n for n in ast.walk(qcall) if isinstance(n, (ast.AsyncFunctionDef, ast.FunctionDef))}
    resolve6 = Expander(rn, Q, nested=list(inner.values())).target  # helpers of the page functions: methods of Query, functions nested in __call__, functions of the module

    def extractor_class(attr):
        """class whose instance Query stores under self.<attr>."""
        for n in ast.walk(Q):
            if isinstance(n, ast.Assign) and any(is_self_attr(t, attr) for t in n.targets) and isinstance(n.value, ast.Call) and isinstance(n.value.func, ast.Name):
                return rn.cls(n.value.func.id)
        raise AnchorMissing(f"Query: self.{attr} = <Extractor>()")

    def cursor_projection(attr, cursor_call, cursor_member):
        """how the cursor is read off the extractor's result: ('tuple', i) when __call__ returns a tuple whose i-th element is the value located by `cursor_call`,
        ('key', k) when it returns a dict that carries the cursor under the constant key k."""
        ec = rn.methods(extractor_class(attr)).get("__call__")
        if ec is None:
            raise AnchorMissing(f"{attr}: __call__")
        edefs = local_defs(ec)
        rets = [n.value for n in walk_body(ec) if isinstance(n, ast.Return) and n.value is not None]
        if cursor_call is not None:
            idx = set()
            for r in rets:
                if not isinstance(r, ast.Tuple):
                    raise AnchorMissing(f"{attr}.__call__ does not return a tuple")
                idx |= {i for i, e_ in enumerate(r.elts) if any(isinstance(x, ast.Call) and last_attr(x.func) == cursor_call for x in ast.walk(source.inline_node(e_, edefs)))}
            if len(idx) != 1:
                raise AnchorMissing(f"{attr}.__call__: position of the {cursor_call}() result in the returned tuple")
            return ("tuple", idx.pop())
        if not any(isinstance(n, ast.Assign) and isinstance(n.targets[0], ast.Subscript) and source.is_const(n.targets[0].slice, cursor_member) for n in walk_body(ec)):
            raise AnchorMissing(f"{attr}.__call__: result member {cursor_member!r}")
        return ("key", cursor_member)

    from sa.cfg import conjuncts as _conjuncts

    def removal_sites(fn, key, recv, depth=0):
        """the statements of fn that, whenever they are reached, leave the dict `recv` without `key`: `recv.pop(key[, default])` / `del recv[key]`, lifted over
          - guards that only ask whether there is anything to remove (`if recv:`, `if recv is not None:`, `if key in recv:`, `isinstance(recv, dict)`): the enclosing `if` is the site;
          - `for k in [<literals including key>]: recv.pop(k, default)`: a loop over a non-empty literal runs its body for every element, so the `for` is the site
            (the pop must be a direct statement of a loop body without jumps, and must not raise for an absent key);
          - a call of a helper (method of Query, function nested in __call__, function of the module) that is handed `recv` and removes the key from that parameter on every
            path through it (an extracted clean-up): the statement with the call is the site."""
        found = []  # (node, key expression or None for a helper call, pop with default?)
        for n in walk_body(fn):
            if isinstance(n, ast.Call) and isinstance(n.func, ast.Attribute) and n.func.attr == "pop" and n.args and not n.keywords and u(n.func.value) == recv:
                found.append((n, n.args[0], len(n.args) == 2))
            elif isinstance(n, ast.Delete):
                for t in n.targets:
                    if isinstance(t, ast.Subscript) and u(t.value) == recv:
                        found.append((n, t.slice, False))
            elif isinstance(n, ast.Call) and depth < 3:
                callee = rn.methods(Q).get(n.func.attr) if is_self_attr(n.func) else (
                    (inner.get(n.func.id) or (rn.index().get(n.func.id) if isinstance(rn.index().get(n.func.id), (ast.FunctionDef, ast.AsyncFunctionDef)) else None)) if isinstance(n.func, ast.Name) else None)
                if callee is None or callee is fn:
                    continue
                for p_, a_ in source.bind_args(n, callee).items():
                    if u(a_) != recv:
                        continue
                    as_written = source.flat(callee.body)
                    inner_sites = removal_sites(callee, key, p_, depth + 1)
                    # on every path through the helper: a site that is a statement of the helper's body itself, nothing before it can leave the helper
                    if any(any(x is y for y in as_written) and not any(isinstance(z, (ast.Return, ast.Raise, ast.Yield, ast.YieldFrom)) for w in as_written[:[id(y) for y in as_written].index(id(x))]
                                                                       for z in source.walk_explicit(w)) for x in inner_sites):
                        found.append((n, None, True))
        out = []
        for n, arg, total in found:
            pending = None
            if isinstance(arg, ast.Name):
                pending = arg.id  # the key is a loop variable: resolved when the loop over the literal keys is reached
            elif arg is not None and not source.is_const(arg, key):
                continue
            s_ = source.enclosing_stmt(n)

            def own_guard(c, pending=pending):
                return u(c) == recv or _pat.is_(c, f"{recv} is not None", f"{key!r} in {recv}", f"isinstance({recv}, dict)") or (pending is not None and _pat.is_(c, f"{pending} in {recv}"))

            while True:
                p = source.parent(s_)
                if isinstance(p, ast.If) and any(s_ is x for x in p.body) and all(own_guard(c) for c in _conjuncts(p.test)):
                    s_ = p
                elif pending is not None and total and isinstance(p, ast.For) and isinstance(p.target, ast.Name) and p.target.id == pending and isinstance(p.iter, (ast.List, ast.Tuple)) \
                        and any(source.is_const(e_, key) for e_ in p.iter.elts) and any(s_ is x for x in p.body) and not p.orelse \
                        and not any(isinstance(x, (ast.Break, ast.Continue, ast.Return, ast.Raise)) for x in ast.walk(p)):
                    s_, pending = p, None
                else:
                    break
            if pending is None:
                out.append(s_)
        return out

    def cfg_catching_exception(fn):
        """a private CFG of fn in which `except Exception` ends the outward propagation like `except BaseException` does (not cached, the shared CFGs are untouched)."""
        from sa import cfg as _cfgmod
        saved = _cfgmod.CATCH_ALL
        _cfgmod.CATCH_ALL = set(saved) | {"Exception"}
        try:
            return _cfgmod.CFG(fn)
        finally:
            _cfgmod.CATCH_ALL = saved

    def cannot_raise(s):
        """statements whose conservative exception edge is ignored when asking what runs before an exit: `<name>.pop(<key>, <default>)` (dict.pop with a default never raises
        for a hashable key) and logging calls."""
        if not isinstance(s, ast.Expr):
            return False
        c = s.value
        return is_logging_stmt(s) or (isinstance(c, ast.Call) and isinstance(c.func, ast.Attribute) and c.func.attr == "pop" and isinstance(c.func.value, ast.Name) and len(c.args) == 2
                                      and not c.keywords and isinstance(c.args[0], (ast.Constant, ast.Name)) and isinstance(c.args[1], ast.Constant))

    def extractor_attr(cls_name):
        """the attribute under which Query keeps its instance of the extractor class (self.<attr> = <cls_name>())."""
        attrs = {t.attr for n in ast.walk(Q) if isinstance(n, ast.Assign) and isinstance(n.value, ast.Call) and isinstance(n.value.func, ast.Name) and n.value.func.id == cls_name
                 for t in n.targets if is_self_attr(t)}
        if len(attrs) != 1:
            raise AnchorMissing(f"Query: self.<attribute> = {cls_name}()")
        return attrs.pop()

    for fname, extractor, cursor_key, cursor_call, cursor_member in (("_search_after_query", extractor_attr("SearchAfterExtractor"), "search_after", "_get_last_sort", None),
                                                                    ("_composite_agg", extractor_attr("CompositeAggExtractor"), "after", None, "after_key")):
        f = inner.get(fname)
        if f is None:
            raise AnchorMissing(f"Query.{fname}")
        how = cursor_projection(extractor, cursor_call, cursor_member)
        gq = cfg_of(f)
        lp = [n for n in walk_body(f) if isinstance(n, ast.For) and isinstance(n.iter, ast.Call) and dotted(n.iter.func) == "range" and isinstance(n.target, ast.Name)]
        if not lp:
            raise AnchorMissing(f"page loop in {fname}")
        PL_ = lp[0]
        # the accumulated result: the local the function returns
        rets = {n.value.id for n in walk_body(f) if isinstance(n, ast.Return) and isinstance(n.value, ast.Name)}
        if len(rets) != 1 or any(isinstance(n, ast.Return) and not isinstance(n.value, ast.Name) for n in walk_body(f)):
            raise AnchorMissing(f"{fname}: the result variable (returned local)")
        RES = rets.pop()
        rq = [n for n in ast.walk(PL_) if isinstance(n, ast.Await) and isinstance(n.value, ast.Call) and u(n.value.func) == "self._raw_search"]
        ex_ = [n for n in ast.walk(PL_) if isinstance(n, ast.Call) and u(n.func) == f"self.{extractor}"]
        if not rq and len(ex_) == 1 and ex_[0].args and isinstance(ex_[0].args[0], ast.Name):
            # the request method goes by another name: the page request is the awaited call whose result is the response handed to the extractor (by data flow)
            rq = [n for n in ast.walk(PL_) if isinstance(n, ast.Await) and isinstance(n.value, ast.Call) and isinstance(source.enclosing_stmt(n), ast.Assign) and source.enclosing_stmt(n).value is n
                  and any(isinstance(t, ast.Name) and t.id == ex_[0].args[0].id for t in source.enclosing_stmt(n).targets)]
        ok = len(rq) == 1 and len(ex_) == 1
        rs_ = source.enclosing_stmt(rq[0]) if ok else None
        resp = rs_.targets[0].id if isinstance(rs_, ast.Assign) and rs_.value is rq[0] and len(rs_.targets) == 1 and isinstance(rs_.targets[0], ast.Name) else None
        # the argument of the extractor call that is the response: bound (by position or keyword) to the parameter its __call__ hands to parse() as the text
        ecall_ = rn.methods(extractor_class(extractor)).get("__call__")
        rarg = None
        if ecall_ is not None and ex_:
            eparams_ = [p_ for p_ in params_of(ecall_) if p_ not in ("self", "cls")]
            pf6 = rn.func("parse")
            texts_ = {a_.id for c_ in walk_body(ecall_) if isinstance(c_, ast.Call) and dotted(c_.func) == "parse" for a_ in [source.bind_args(c_, pf6).get(params_of(pf6)[0])]
                      if isinstance(a_, ast.Name) and a_.id in eparams_}
            rparam_ = texts_.pop() if len(texts_) == 1 else (eparams_[0] if eparams_ else None)
            rarg = source.bind_args(ex_[0], ecall_).get(rparam_) if rparam_ else None

        def loop_stores(name, PL_=PL_):
            """statements of the page loop that (re)bind the local `name`."""
            return [n for n in ast.walk(PL_) if isinstance(n, (ast.Assign, ast.AugAssign, ast.AnnAssign, ast.For, ast.NamedExpr, ast.With)) and name in stores_of(
                n.target if isinstance(n, (ast.For, ast.AugAssign, ast.AnnAssign, ast.NamedExpr)) else (ast.Tuple(elts=[i.optional_vars for i in n.items if i.optional_vars is not None]) if isinstance(n, ast.With) else ast.Tuple(elts=list(n.targets))))]

        if not rq or not ex_:
            chk.unknown("O19.6", f"{fname}: the page request (await self._raw_search(..)) or the call of self.{extractor}(..) could not be located in the page loop", PL_)
        elif not ok:
            # several requests / extractor calls in the loop: two requests on ONE path through an iteration are two requests for one counted page (located and wrong); alternatives
            # on different branches (e.g. with / without a point in time) are a shape this rule does not follow
            twice = [(a_, b_) for a_, b_ in itertools.permutations(rq, 2) if a_ is not b_ and gq.node_of(a_) is not gq.node_of(b_)
                     and gq.path_exists(gq.node_of(a_), gq.node_of(b_), avoid=[gq.node_of(PL_)], edge_ok=gq.normal_edge)]
            if twice:
                chk.ob("O19.6", f"{fname}: one request per page, its own response handed to the extractor", False, twice[0][1],
                       f"a second page request (line {twice[0][1].lineno}) follows the one at line {twice[0][0].lineno} within the same iteration: two requests, one page counted")
            else:
                # alternatives: every one binds the same plain local, that local is the extractor's response argument, the extractor call comes after one of them on every path
                stmts_ = [source.enclosing_stmt(r_) for r_ in rq]
                names_ = {s_.targets[0].id if isinstance(s_, ast.Assign) and s_.value is r_ and len(s_.targets) == 1 and isinstance(s_.targets[0], ast.Name) else None for s_, r_ in zip(stmts_, rq)}
                if len(ex_) == 1 and len(names_) == 1 and None not in names_ and isinstance(rarg, ast.Name) and rarg.id in names_ and len(loop_stores(rarg.id)) == len(rq) \
                        and gq.dominated_by_nodes(gq.node_of(ex_[0]), [gq.node_of(r_) for r_ in rq]) \
                        and not any(gq.path_exists(gq.node_of(ex_[0]), gq.node_of(r_), avoid=[gq.node_of(PL_)]) for r_ in rq):
                    chk.ob("O19.6", f"{fname}: one request per page, its own response handed to the extractor", True, ex_[0], f"{len(rq)} alternative requests, each bound to `{rarg.id}`")
                else:
                    chk.unknown("O19.6", f"{fname}: {len(rq)} page requests / {len(ex_)} calls of self.{extractor}(..) in the page loop, on alternative branches: which response reaches "
                                         f"the extractor is not followed", PL_)
        elif ok and rarg is not None and (rarg is rq[0] or rarg is rq[0].value):
            # the awaited request itself is the argument: its own response by construction
            chk.ob("O19.6", f"{fname}: one request per page, its own response handed to the extractor", True, ex_[0], "the page request is the extractor's argument")
        elif ok and (resp is None or rarg is None):
            # located, but how the response travels from the request to the extractor is not a plain local: not recognised (never a verdict)
            chk.unknown("O19.6", f"{fname}: the response of the page request is not bound to a plain local / the extractor's response argument could not be located "
                                 f"(`{short(rs_, 60)}`)", ex_[0])
        else:
            ok = ok and resp is not None and len(loop_stores(resp)) == 1 and isinstance(rarg, ast.Name) and rarg.id == resp \
                and gq.dominated_by_nodes(gq.node_of(ex_[0]), [gq.node_of(rq[0])]) and not gq.path_exists(gq.node_of(ex_[0]), gq.node_of(rq[0]), avoid=[gq.node_of(PL_)])
            chk.ob("O19.6", f"{fname}: one request per page, its own response handed to the extractor", ok, ex_[0], "")
        st = [n for n in ast.walk(PL_) if isinstance(n, ast.Assign) and isinstance(n.targets[0], ast.Subscript) and source.is_const(n.targets[0].slice, cursor_key)]
        ok = len(st) == 1 and len(ex_) == 1
        if not ok:
            chk.unknown("O19.6", f"{fname}: the one statement of the page loop that stores the next cursor (<body>[{cursor_key!r}] = ..) / the one call of self.{extractor}(..) could not be located "
                                 f"({len(st)} store(s), {len(ex_)} call(s))", PL_)
            ok = None
        if ok:
            es_ = source.enclosing_stmt(ex_[0])
            et = es_.targets[0] if isinstance(es_, ast.Assign) and es_.value is ex_[0] and len(es_.targets) == 1 else None

            def from_extractor(e_):
                """(is e_ this page's cursor as produced by the extractor?, the statements that must have run before it is read)."""
                if how[0] == "tuple":
                    # the name at the cursor's position of the tuple unpacked from the extractor call (or <result>[i])
                    if isinstance(et, ast.Tuple) and how[1] < len(et.elts) and not any(isinstance(x, ast.Starred) for x in et.elts) and isinstance(et.elts[how[1]], ast.Name):
                        return isinstance(e_, ast.Name) and e_.id == et.elts[how[1]].id and len(loop_stores(e_.id)) == 1, [es_]
                    if isinstance(et, ast.Name):
                        return _pat.match(e_, f"V_p[{how[1]}]", binds={"p": et.id}) is not None and len(loop_stores(et.id)) == 1, [es_]
                    return None, []  # how the extractor's result is taken apart is not recognised
                if isinstance(et, ast.Name):
                    # <result>[key] with <result> bound once per page, from the extractor call
                    return _pat.match(e_, f"V_p[{how[1]!r}]", binds={"p": et.id}) is not None and len(loop_stores(et.id)) == 1, [es_]
                return None, []

            def same_value(e_):
                """looks through wrappers that hand on the same JSON value: list(x) / tuple(x) / dict(x) / copy.copy(x) / copy.deepcopy(x) / x.copy() / x[:]"""
                while True:
                    if isinstance(e_, ast.Call) and not e_.keywords and len(e_.args) == 1 and dotted(e_.func) in ("list", "tuple", "dict", "copy.copy", "copy.deepcopy", "deepcopy"):
                        e_ = e_.args[0]
                    elif isinstance(e_, ast.Call) and not e_.keywords and not e_.args and isinstance(e_.func, ast.Attribute) and e_.func.attr == "copy":
                        e_ = e_.func.value
                    elif isinstance(e_, ast.Subscript) and isinstance(e_.slice, ast.Slice) and e_.slice.lower is None and e_.slice.upper is None and e_.slice.step is None:
                        e_ = e_.value
                    else:
                        return e_

            own6 = ({et.id} if isinstance(et, ast.Name) else set()) | (
                {et.elts[how[1]].id} if how[0] == "tuple" and isinstance(et, ast.Tuple) and how[1] < len(et.elts) and isinstance(et.elts[how[1]], ast.Name) else set())

            def is_cursor(e_, depth=0):
                """(True: e_ is this page's cursor as the extractor produced it / False: it was located and is something else / None: not recognised, statements that must have run)"""
                e_ = same_value(e_)
                if how[0] == "key" and isinstance(et, ast.Name) and _pat.is_(e_, f"V_p.get({how[1]!r})", f"V_p.get({how[1]!r}, None)", binds={"p": et.id}):
                    e_ = ast.Subscript(value=ast.Name(id=et.id, ctx=ast.Load()), slice=ast.Constant(value=how[1]), ctx=ast.Load())  # a read that is None when the member is absent
                direct, need_ = from_extractor(e_)
                if direct or direct is None:
                    return direct, need_
                if isinstance(e_, ast.Name) and depth < 3:
                    # a local in between: bound once per page, from the extractor's result of this iteration
                    binds = loop_stores(e_.id)
                    if len(binds) == 1 and isinstance(binds[0], ast.Assign) and len(binds[0].targets) == 1 and isinstance(binds[0].targets[0], ast.Name):
                        r_, need_ = is_cursor(binds[0].value, depth + 1)
                        return r_, need_ + [binds[0]]
                    return (False if not binds or e_.id in own6 else None), []  # never bound in the loop: not this page's cursor; bound several times: not followed
                # an expression: computed from anything besides this page's extractor result -> something else; a function of that result alone -> not recognised
                return (False if (loads_of(e_) - own6 - {"self"}) or not loads_of(e_) else None), []

            ok, need = is_cursor(st[0].value)
            if ok is None:
                chk.unknown("O19.6", f"{fname}: how the result of self.{extractor}(..) is taken apart is not recognised (`{short(es_, 60)}`)", es_)
            else:
                ok = ok and all(gq.dominated_by_nodes(gq.node_of(st[0]), [gq.node_of(n_)]) for n_ in need)
        if ok is not None:
            chk.ob("O19.6", f"{fname}: next cursor := the extractor's result for this page", ok, st[0], short(st[0], 70))
        # the body belongs to the parameter source, which hands it out again for the next invocation: a cursor may only be stored into it when another page of THIS invocation will
        # be requested (guard `page < last page` of `for page in range(1, last + 1)`), or it is removed again on every path to the return (also when the page limit ends the loop)
        if st:
            fq_ = source.enclosing_func(st[0])
            iv_ = PL_.target.id if isinstance(PL_.target, ast.Name) else None
            more = False
            if iv_ and isinstance(PL_.iter, ast.Call) and dotted(PL_.iter.func) == "range" and len(PL_.iter.args) == 2:
                hi = PL_.iter.args[1]
                lim = hi.left if isinstance(hi, ast.BinOp) and isinstance(hi.op, ast.Add) and source.is_const(hi.right, 1) else None
                if lim is not None:
                    more = _pat.guarded(st[0], f"{iv_} < {u(lim)}", f"{iv_} + 1 <= {u(lim)}", f"{iv_} != {u(lim)}", stop=PL_) is not None
            removals = [n for n in walk_body(fq_) if isinstance(n, ast.Call) and isinstance(n.func, ast.Attribute) and n.func.attr == "pop" and n.args
                        and (source.is_const(n.args[0], cursor_key) or (isinstance(n.args[0], ast.Name) and any(isinstance(l_, ast.For) and isinstance(l_.target, ast.Name) and l_.target.id == n.args[0].id
                             and isinstance(l_.iter, (ast.List, ast.Tuple)) and any(source.is_const(e_, cursor_key) for e_ in l_.iter.elts) for l_ in source.ancestors(n))))]
            cleaned = bool(removals) and gq.must_pass(gq.node_of(st[0]), [gq.node_of(r_) for r_ in removals], normal_only=True)
            # (emitted below, once the every-exit analysis is available: a removal on every exit - e.g. in a finally - also covers the regular end of the loop)
            # F28: storing the cursor only when another page follows is not enough - that very request (or anything else before the regular end of the loop) may raise, and with
            # on-error=continue the task goes on with the next iteration on the SAME body. So: every path from the store to ANY exit of the function, exception edges included,
            # passes a statement that removes that key from that dict (finally bodies are duplicated per continuation kind, all copies count) - or every invocation removes the
            # key before its first request. Exceptions a handler for `Exception` catches are taken as caught: what on-error=continue swallows (TransportError, ApiError) is below it,
            # anything else ends the benchmark
            recv_ = u(st[0].targets[0].value)

            def private_copy(name, deep, depth=0, fq_=fq_):
                """the dict `name` refers to was copied by this invocation (deep: also its nested dicts) - or is reached from such a copy: the parameter source's body is never touched."""
                binds = [n for fn_ in (fq_, qcall) for n in walk_body(fn_) if isinstance(n, ast.Assign) and any(isinstance(t, ast.Name) and t.id == name for t in n.targets)
                         and not source.is_const(n.value, None)]
                if not binds or depth > 4:
                    return False

                def is_copy(v):
                    v = v.value if isinstance(v, ast.Await) else v
                    if not isinstance(v, (ast.Call, ast.Subscript)):
                        return False
                    if isinstance(v, ast.Call) and dotted(v.func) in ("copy.deepcopy", "deepcopy") and len(v.args) == 1:
                        return True
                    if isinstance(v, ast.Call) and not deep and len(v.args) <= 1 and (dotted(v.func) in ("copy.copy", "dict") or (isinstance(v.func, ast.Attribute) and v.func.attr == "copy" and not v.args)):
                        return True
                    # a part of a copy (e.g. resolve_composite_agg(<copy>, path)): private if every local it is computed from is (computed from) a deep copy made by this invocation
                    srcs = loads_of(v) - {root_name(c_.func) for c_ in ast.walk(v) if isinstance(c_, ast.Call)} - {name, "self"}
                    return bool(srcs) and all(private_copy(x_, True, depth + 1) for x_ in srcs)

                return all(is_copy(b_.value) for b_ in binds)

            private_ = isinstance(st[0].targets[0].value, ast.Name) and private_copy(st[0].targets[0].value.id, deep=False)
            sites_ = removal_sites(fq_, cursor_key, recv_)
            gx = cfg_catching_exception(fq_)
            thr_ = [n_ for s_ in sites_ for n_ in gx.nodes_of(s_)]

            def edge_ok(x_, y_, lab_, gx=gx):
                return gx.normal_edge(x_, y_, lab_) or not cannot_raise(gx.nodes[x_].ast)

            heads_ = gx.nodes_of(PL_)
            done_ = {(h_.id, y_, lab_) for h_ in heads_ for y_, lab_ in gx.succ[h_.id] if lab_ == "exhausted"}
            leak = None
            for src_ in gx.nodes_of(st[0]):
                if more:
                    # the page limit ends the loop only after an iteration that did NOT store (`page < last page` fails there): paths through the loop's `exhausted` edge are
                    # followed from the start of such a last iteration, around the store
                    seen_ = gx.reachable([src_], avoid=thr_, avoid_edges=done_, edge_ok=edge_ok)
                    starts_ = [(h_, gx.nodes[y_]) for h_ in heads_ if h_.id in seen_ for y_, lab_ in gx.succ[h_.id] if lab_ == "iter"]
                    last_ = gx.reachable([n_ for _, n_ in starts_], avoid=thr_ + gx.nodes_of(st[0]), edge_ok=edge_ok) if starts_ else set()
                else:
                    seen_, last_ = gx.reachable([src_], avoid=thr_, edge_ok=edge_ok), set()
                for ex_node in (gx.raise_exit, gx.exit):
                    if leak is None and ex_node.id in seen_ | last_:
                        if ex_node.id in seen_:
                            p_ = gx.find_path(src_, ex_node, avoid=thr_, edge_ok=lambda x_, y_, lab_: edge_ok(x_, y_, lab_) and not (more and (x_, y_, lab_) in done_))
                        else:
                            p_ = gx.find_path(starts_[0][1], ex_node, avoid=thr_ + gx.nodes_of(st[0]), edge_ok=edge_ok)
                        leak = ("an exception propagates" if ex_node is gx.raise_exit else "it returns", gx.describe_path(p_) if p_ else [])
            # alternative: whatever an earlier invocation left behind is removed before the first request of this one
            fresh_ = [n_ for s_ in sites_ if not any(a_ is PL_ for a_ in source.ancestors(s_)) and s_ is not PL_ for n_ in gx.nodes_of(s_)]
            starts_clean = bool(fresh_) and len(rq) == 1 and all(gx.dominated_by_nodes(r_, fresh_) for r_ in gx.nodes_of(rq[0]))
            chk.ob("O19.6", f"{fname}: once stored, the cursor is removed from the operation's body on EVERY exit of the invocation, also when a later page request raises",
                   (bool(thr_) and leak is None) or starts_clean or private_, st[0],
                   "stored into a copy of the body made by this invocation: the body the parameter source hands out again is never touched" if private_ else
                   "removed before the first request of every invocation" if starts_clean else
                   (f"{len(sites_)} removal site(s) of {recv_}[{cursor_key!r}]; every path from the store to the return and to a propagating exception passes one" if thr_ and leak is None else
                    (f"no statement removes {recv_}[{cursor_key!r}]" if not thr_ else
                     f"after the store the function can be left ({leak[0]}) without removing {recv_}[{cursor_key!r}]: with on-error=continue the next iteration of the task starts "
                     f"from this stale cursor instead of the first page")),
                   key=f"{_R}:Query.{fname}:cursor-removed-on-every-exit", path=(leak[1][:40] if leak else None))
            every_exit = (bool(thr_) and leak is None) or starts_clean or private_
            chk.ob("O19.6", f"{fname}: the cursor never survives the invocation in the operation's body", more or cleaned or every_exit, st[0],
                   "stored only when another page follows" if more else ("removed on every path to the return" if cleaned or every_exit else
                   "when the page limit ends the loop the cursor stays in the body the parameter source hands out again: the next iteration of the task starts from a stale cursor"),
                   key=f"{_R}:Query.{fname}:cursor-does-not-survive")
        pg = {n.targets[0].slice.value: n.value for n in ast.walk(PL_) if isinstance(n, ast.Assign) and isinstance(n.targets[0], ast.Subscript) and isinstance(n.targets[0].value, ast.Name)
              and n.targets[0].value.id == RES and isinstance(n.targets[0].slice, ast.Constant)}
        # <result>.update(pages=.., weight=..) / <result>.update({"pages": .., ..}) as a statement of the loop stores those members too
        for n in ast.walk(PL_):
            if isinstance(n, ast.Expr) and isinstance(n.value, ast.Call) and isinstance(n.value.func, ast.Attribute) and n.value.func.attr == "update" and isinstance(n.value.func.value, ast.Name) \
                    and n.value.func.value.id == RES and len(n.value.args) <= 1 and all(isinstance(a_, ast.Dict) and None not in a_.keys for a_ in n.value.args) and all(k_.arg for k_ in n.value.keywords):
                for k_, v_ in [(k_.value, v_) for a_ in n.value.args for k_, v_ in zip(a_.keys, a_.values) if isinstance(k_, ast.Constant)] + [(k_.arg, k_.value) for k_ in n.value.keywords]:
                    pg.setdefault(k_, v_)
        iv = PL_.target.id
        defs6 = {k_: v_ for k_, v_ in local_defs(f).items() if k_ != iv and k_ != RES}
        # the page accounting may sit in a helper the loop calls once per page (an extracted block): its stores into the parameter bound to the result variable count like the
        # loop's own, their values rewritten over the loop's names (parameters replaced by the arguments of the call)
        via6 = [h_ for h_ in helper_stores([n for n in ast.walk(PL_) if source.enclosing_func(n) is f], resolve6, exclude=(f,))
                if isinstance(h_.target, ast.Subscript) and h_.caller_name(h_.target.value) == RES and isinstance(h_.target.slice, ast.Constant)]
        _NOT_EXPRESSIBLE = "<a value computed inside the helper>"
        for h_ in via6:
            if isinstance(h_.node, ast.Assign) and h_.target.slice.value not in pg:
                v6 = h_.value()
                pg[h_.target.slice.value] = v6 if v6 is not None else ast.Name(id=_NOT_EXPRESSIBLE, ctx=ast.Load())
        if "pages" not in pg or "weight" not in pg:
            chk.unknown("O19.6", f"{fname}: where the page loop records `pages` / `weight` in the result could not be located", PL_)
        else:
            try:
                # decided on values: in the k-th iteration of the page loop (k = 1, 2: one request each) both members are k
                ra_ = PL_.iter.args
                first_ = ev(ra_[0], {}) if len(ra_) >= 2 else 0
                if not 1 <= len(ra_) <= 3 or type(first_) is not int or PL_.iter.keywords or (len(ra_) == 3 and ev(ra_[2], {}) != 1):
                    raise CannotEval(f"range of the page loop: {u(PL_.iter)}")
                def nth6(e_, i_):
                    try:
                        return xev(e_, {iv: first_ + i_})
                    except CannotEval:
                        # through locals bound once (`done = page`); a local bound from a call stays what it is: not evaluable
                        return xev(source.inline_node(e_, defs6, no_calls=True), {iv: first_ + i_})

                ok = all(same_json(nth6(pg[k_], i_), i_ + 1) for k_ in ("pages", "weight") for i_ in (0, 1)) and len(loop_stores(iv)) == 1
                chk.ob("O19.6", f"{fname}: pages == weight == requests issued", ok, PL_, f"{ {k: u(v) for k, v in pg.items() if k in ('pages', 'weight')} }")
            except CannotEval as e:
                # not evaluable: a plain local. The loop variable counts the requests; a local the loop never re-binds is the same on every page (wrong from the second request
                # on); a local the loop re-binds (a counter of its own) is not decided here
                if len(PL_.iter.args) == 2 and source.is_const(PL_.iter.args[0], 1) and all(isinstance(pg[k_], ast.Name) and pg[k_].id != _NOT_EXPRESSIBLE
                                                                                                  and (pg[k_].id == iv or not loop_stores(pg[k_].id)) for k_ in ("pages", "weight")):
                    ok = all(pg[k_].id == iv for k_ in ("pages", "weight")) and len(loop_stores(iv)) == 1
                    chk.ob("O19.6", f"{fname}: pages == weight == requests issued", ok, PL_, f"{ {k: u(v) for k, v in pg.items() if k in ('pages', 'weight')} }")
                else:
                    chk.unknown("O19.6", f"{fname}: the values recorded as `pages` / `weight` cannot be evaluated per iteration: {e}", PL_)
        hs = [n for n in ast.walk(PL_) if isinstance(n, ast.Assign) and isinstance(n.targets[0], ast.Subscript) and source.is_const(n.targets[0].slice, "hits")]
        hv = [h_ for h_ in via6 if isinstance(h_.node, ast.Assign) and h_.target.slice.value == "hits"]
        ok = len(hs) + len(hv) == 1
        if not ok:
            chk.unknown("O19.6", f"{fname}: the one statement of the page loop that records the hit total (<result>['hits'] = ..) could not be located ({len(hs) + len(hv)} found)", PL_)
            continue
        # decided on values: the store is reached while no hit total is recorded yet (first page), and not once one is (second page) - the conditions around the store are evaluated on
        # three states of the result, the loop variable being the number of that page. When the store sits in a helper, the conditions around the call (on the loop's names) and those
        # around the store inside the helper (on its parameters: the one bound to the result variable IS the result dict, the one bound to the loop variable the page number) count.
        try:
            first6 = (ev(PL_.iter.args[0], {}) if len(PL_.iter.args) >= 2 else 0) if 1 <= len(PL_.iter.args) <= 3 and not PL_.iter.keywords else None
        except CannotEval:
            first6 = None
        h_ = hv[0] if hv else None
        site6 = hs[0] if hs else h_.node
        # (condition, polarity, binding of the scope it is written in): the explicit branches around the loop's own statement; for a store inside a helper the conditions around
        # every call on the way and around the store, guard clauses of the helpers included
        conds6 = [(t, pol, None) for t, pol in guards(hs[0], stop=PL_)] if hs else [
            (t, pol, b_) for st_, b_ in h_.scopes() for t, pol in (guards(st_, stop=PL_) if b_ is None else guards(st_, path_sensitive=True))]
        reach = []
        for r_, nth in (({"unit": "pages", "took": 0}, 0), ({"unit": "pages", "took": 0, "hits": 10000}, 1), ({"unit": "pages", "took": 0, "hits": 0}, 1)):
            res_ = dict(r_)
            verdict = True  # False: some condition that can be evaluated keeps the store from running; None: that depends on a condition that cannot be evaluated
            for t, pol, b_ in conds6:
                env6 = {n_: res_ for n_ in HelperStore.names_for(b_, RES)}
                if type(first6) is int:
                    env6.update({n_: first6 + nth for n_ in HelperStore.names_for(b_, iv)})
                try:
                    if bool(xev(t, env6)) != pol:
                        verdict = False
                        break
                except CannotEval:
                    verdict = None
            reach.append(verdict)
        if reach[0] is not False and reach[1:] == [False, False]:
            ok = True  # whatever else decides about the first page: once a total is recorded the store does not run
        elif None not in reach or reach[0] is False:
            ok = False  # decided on conditions that can all be evaluated: never recorded / recorded again once a total is there (an unconditional store: [True, True, True])
        else:
            # a condition over something else: recognised only when one of the conditions is the plain test on the result
            ok = any(_pat.guarded(st_, *[f"{n_}.get('hits') is None" for n_ in HelperStore.names_for(b_, RES)], stop=PL_ if b_ is None else None) is not None
                     for st_, b_ in ([(hs[0], None)] if hs else h_.scopes()) if HelperStore.names_for(b_, RES)) or None
        if ok is None:
            chk.unknown("O19.6", f"{fname}: the conditions under which the hit total is recorded ({', '.join(short(t, 40) for t, _, _ in conds6)}) cannot be evaluated on a result "
                                 f"with / without a recorded total", site6)
        else:
            chk.ob("O19.6", f"{fname}: hit total taken from the first page only", ok, site6,
                   "" if h_ is None else f"recorded by the helper {h_.helper.name} the page loop calls: {short(h_.call, 60)}")

    # ---- O19.7 flags accumulated over pages are sticky -------------------------------------------------------------------------------------------------
    chk.rule("O19.7", "multi-page searches (scroll, search_after, composite): `timed_out` is true if ANY page reported it (a later page can only turn it on), `took` is summed", 5,
             "an earlier page timed out, the last one did not: the reported flag says the search did not time out (a full parse of all pages says it did)")
    from sa import pat as _p7
    Q = rn.cls("Query")
    n7 = 0
    resolve7 = Expander(rn, Q, nested=[n for n in ast.walk(Q) if isinstance(n, (ast.FunctionDef, ast.AsyncFunctionDef)) and source.enclosing_func(n) is not None]).target
    for fn in [n for n in ast.walk(Q) if isinstance(n, (ast.FunctionDef, ast.AsyncFunctionDef))]:
        loops7 = [n for n in walk_body(fn) if isinstance(n, (ast.For, ast.While, ast.AsyncFor))]
        if not loops7:
            continue
        names = {}
        for d_ in [n for n in walk_body(fn) if isinstance(n, ast.Dict)]:
            for k_, v_ in zip(d_.keys, d_.values):
                if isinstance(k_, ast.Constant) and k_.value in ("timed_out", "took") and isinstance(v_, ast.Name):
                    names[v_.id] = k_.value
        for lp in loops7:
            lv = lp.target.id if isinstance(lp, ast.For) and isinstance(lp.target, ast.Name) else None
            own7 = [(st_, None) for st_ in ast.walk(lp) if isinstance(st_, (ast.Assign, ast.AugAssign)) and source.enclosing_func(st_) is fn
                    and source.enclosing(st_, (ast.For, ast.While, ast.AsyncFor)) is lp]
            # the accumulation may sit in a helper the loop calls per page (an extracted block): a keyed store into a parameter that IS a container of the looping function which the
            # loop never re-binds (the accumulated result) is an in-loop store like the loop's own; flag / guard / sum are then read in the helper's own terms
            rebound7 = {x.id for n in ast.walk(lp) for x in ast.walk(n) if isinstance(x, ast.Name) and isinstance(x.ctx, (ast.Store, ast.Del)) and source.enclosing_func(x) is fn}
            via7 = [(h_.node, h_) for h_ in helper_stores([n for n in ast.walk(lp) if source.enclosing_func(n) is fn and source.enclosing(n, (ast.For, ast.While, ast.AsyncFor)) is lp],
                                                          resolve7, exclude=(fn,))
                    if isinstance(h_.target, ast.Subscript) and h_.caller_name(h_.target.value) is not None and h_.caller_name(h_.target.value) not in rebound7]
            # locals the loop itself accumulates (x op= .., x = .. x ..): a helper that merely STORES such a local publishes a value accumulated elsewhere
            accum7 = {n.target.id for n in ast.walk(lp) if isinstance(n, ast.AugAssign) and isinstance(n.target, ast.Name)} | \
                {t.id for n in ast.walk(lp) if isinstance(n, ast.Assign) for t in n.targets if isinstance(t, ast.Name) and t.id in loads_of(n.value)}

            def handed_accumulated(h_, accum7=accum7):
                if h_ is None:
                    return False
                v7 = h_.value()
                return v7 is None or bool(loads_of(v7) & accum7)

            for st_, h_ in own7 + via7:
                tg = st_.targets[0] if isinstance(st_, ast.Assign) else st_.target
                role = (names.get(tg.id) if h_ is None else None) if isinstance(tg, ast.Name) else (
                    tg.slice.value if isinstance(tg, ast.Subscript) and isinstance(tg.slice, ast.Constant) and tg.slice.value in ("timed_out", "took") else None)
                if role is None:
                    continue
                if h_ is None and lv and _p7.guarded(st_, f"{lv} == 0", stop=lp) is not None:
                    continue  # first page: plain initialisation
                if h_ is not None and lv and any(_p7.guarded(s7, f"{n_} == 0", stop=lp if b7 is None else None) is not None for s7, b7 in h_.scopes() for n_ in HelperStore.names_for(b7, lv)):
                    continue  # first page, decided at a call on the way or inside the helper on the parameter bound to the loop variable
                n7 += 1
                acc = u(tg)
                # the conditions known to hold when the store runs, as (fact, spelling of the accumulator in the scope the fact is written in): the loop's own guards - for a store
                # inside a helper the guards of every call on the way (over the caller's container) and those inside the helper (over the parameter bound to it)
                if h_ is None:
                    facts7 = [(f_, acc) for f_ in _p7.fact_nodes(st_, stop=lp)]
                else:
                    facts7 = [(f_, f"{n_}[{tg.slice.value!r}]") for s7, b7 in h_.scopes() for n_ in HelperStore.names_for(b7, h_.caller_name(tg.value))
                              for f_ in _p7.fact_nodes(s7, stop=lp if b7 is None else None)]
                if role == "timed_out":
                    v = st_.value

                    def stays_on(e_, acc=acc):
                        """decided on values: with the accumulated flag already true, the assigned value is true whatever this page reports (every other operand tried both ways)."""
                        others = []

                        def collect(x):
                            if isinstance(x, ast.BoolOp):
                                for y in x.values:
                                    collect(y)
                            elif isinstance(x, ast.UnaryOp) and isinstance(x.op, ast.Not):
                                collect(x.operand)
                            elif isinstance(x, ast.IfExp):
                                collect(x.test), collect(x.body), collect(x.orelse)
                            elif isinstance(x, ast.Call) and dotted(x.func) == "bool" and len(x.args) == 1 and not x.keywords:
                                collect(x.args[0])
                            elif not isinstance(x, ast.Constant) and u(x) != acc and u(x) not in others:
                                others.append(u(x))

                        def tv(x, env):
                            if isinstance(x, ast.Constant):
                                return bool(x.value)
                            if isinstance(x, ast.BoolOp):
                                vals = [tv(y, env) for y in x.values]
                                return all(vals) if isinstance(x.op, ast.And) else any(vals)
                            if isinstance(x, ast.UnaryOp) and isinstance(x.op, ast.Not):
                                return not tv(x.operand, env)
                            if isinstance(x, ast.IfExp):
                                return tv(x.body, env) if tv(x.test, env) else tv(x.orelse, env)
                            if isinstance(x, ast.Call) and dotted(x.func) == "bool" and len(x.args) == 1 and not x.keywords:
                                return tv(x.args[0], env)
                            return True if u(x) == acc else env[u(x)]

                        collect(e_)
                        return len(others) <= 6 and all(tv(e_, dict(zip(others, vals))) for vals in itertools.product((False, True), repeat=len(others)))

                    sticky = (isinstance(st_, ast.Assign) and stays_on(v)) or (isinstance(st_, ast.Assign) and isinstance(v, ast.BoolOp) and isinstance(v.op, ast.Or) and any(u(x) == acc for x in v.values)) \
                        or (isinstance(st_, ast.AugAssign) and isinstance(st_.op, ast.BitOr)) \
                        or any(_p7.match(f_, "not E_a") is not None and _p7.match(f_, "not E_a")["a"] == a_ for f_, a_ in facts7) \
                        or (isinstance(v, ast.Call) and dotted(v.func) in ("max", "any") and acc in u(v))
                    if not sticky and handed_accumulated(h_):
                        chk.unknown("O19.7", f"{fn.name}: the helper {h_.helper.name} stores a value the loop accumulates itself (`{short(st_, 60)}`): not followed", st_)
                        continue
                    chk.ob("O19.7", f"{fn.name}: timed_out of a later page can only turn the flag on", sticky, st_, short(st_, 80) + ("" if sticky else " — the last page's value replaces an earlier `true`"),
                           key=f"{_R}:Query.{fn.name}:sticky:timed_out")
                else:
                    summed = (isinstance(st_, ast.AugAssign) and isinstance(st_.op, ast.Add)) or (isinstance(st_, ast.Assign) and isinstance(st_.value, ast.BinOp) and isinstance(st_.value.op, ast.Add) and acc in u(st_.value))
                    if not summed and handed_accumulated(h_):
                        chk.unknown("O19.7", f"{fn.name}: the helper {h_.helper.name} stores a value the loop accumulates itself (`{short(st_, 60)}`): not followed", st_)
                        continue
                    chk.ob("O19.7", f"{fn.name}: took is summed over the pages", summed, st_, short(st_, 80), key=f"{_R}:Query.{fn.name}:sum:took")
    if n7 >= 5:
        chk.ob("O19.7", "page accumulators located (scroll, search_after, composite)", True, Q, f"{n7} in-loop store(s)")
    else:
        chk.unknown("O19.7", f"only {n7} of the page accumulators (timed_out / took of scroll, search_after, composite) could be located", Q)

    # ---- O19.8 what is read from a selective parse was requested from it ------------------------------------------------------------------------------------
    chk.rule("O19.8", "every key a caller reads from the result of parse(text, props, lists, objects) is among the paths it requested in that call (a path that was not requested is "
             "never extracted: the read silently yields its default while a full parse has the value)", 20,
             "a statistic present in the response (e.g. _shards.skipped) is reported as 0 / absent by the lazy path")
    # Roles by data flow: a SOURCE is an expression whose value is the dict a parse() call returned, unchanged - the call itself, the (awaited) call of a helper of this module
    # (function nested in the same / an enclosing function, method of the same class, module-level function) every return of which is such a source, or a local bound only to such
    # sources and never updated in place. What a source REQUESTS is evaluated from the argument lists of the parse() call behind it (parameters of the helper replaced by the
    # arguments of the call that reaches it; several returns / bindings: what all of them request). A READ is <name>.get(<key>[, default]) / <name>[<key>] on a name bound to a
    # source (reached from the binding without re-binding), the same directly on a source expression, or on the parameter of a helper the name is handed to.
    _FUNCS = (ast.FunctionDef, ast.AsyncFunctionDef)
    pf8 = rn.func("parse")
    pp8 = params_of(pf8)
    n8 = [0]

    def methods_of(cls, depth=0):
        """own methods of a class of this module, then those of its bases defined in this module."""
        out = {}
        for b in cls.bases if depth < 4 else []:
            bc = rn.index().get(dotted(b) or "")
            if isinstance(bc, ast.ClassDef) and bc is not cls:
                out.update(methods_of(bc, depth + 1))
        out.update(rn.methods(cls))
        return out

    def callee_of(call, fn):
        """the function of this module a call made inside fn resolves to (None: not resolved)."""
        f = call.func
        if isinstance(f, ast.Name):
            for scope in [fn] + [a for a in source.ancestors(fn) if isinstance(a, _FUNCS)]:
                if f.id in params_of(scope) or any(isinstance(n, ast.Name) and isinstance(n.ctx, ast.Store) and n.id == f.id for n in own_nodes(scope)):
                    return None  # a local / parameter of that name
                for n in own_nodes(scope):
                    if isinstance(n, _FUNCS) and n.name == f.id:
                        return n
            t = rn.index().get(f.id)
            return t if isinstance(t, _FUNCS) else None
        if isinstance(f, ast.Attribute) and isinstance(f.value, ast.Name):
            cls = source.enclosing_class(fn)
            if cls is not None and f.value.id in ("self", "cls", cls.name):
                return methods_of(cls).get(f.attr)
        return None

    def module_paths(name):
        """the literal list / tuple / set of texts bound ONCE to `name` at module level and never updated (no other binding, no in-place update, no `global`) - else None."""
        v_ = rn.module_constant(name)
        if not isinstance(v_, (ast.List, ast.Tuple, ast.Set)) or not all(isinstance(x, ast.Constant) and isinstance(x.value, str) for x in v_.elts):
            return None
        n_bind = 0
        for n in ast.walk(rn.tree):
            if isinstance(n, ast.Name) and n.id == name and isinstance(n.ctx, (ast.Store, ast.Del)):
                n_bind += 1
            elif isinstance(n, ast.Global) and name in n.names:
                return None
            elif isinstance(n, ast.Name) and n.id == name:
                p_ = source.parent(n)
                if (isinstance(p_, ast.Attribute) and p_.attr in _MUTATORS) or (isinstance(p_, ast.Subscript) and p_.value is n and isinstance(p_.ctx, (ast.Store, ast.Del))):
                    return None
            elif isinstance(n, ast.arg) and n.arg == name:
                return None  # shadowed somewhere: keep it simple, not resolved
        return v_ if n_bind == 1 else None

    def requested_by(pc, fn, actuals):
        """(the paths the parse() call pc inside fn requests, are ALL of them known?) - props, lists and objects alike; a list built up step by step: everything that MAY have been
        appended / extended counts as requested."""
        fdefs_ = local_defs(fn)
        req, complete = set(), not any(isinstance(a, ast.Starred) for a in pc.args) and all(k.arg is not None for k in pc.keywords) and len(pc.args) <= len(pp8)

        def value(x):
            x = source.inline_node(x, fdefs_, no_calls=True)
            use = {p_: v_ for p_, v_ in (actuals or {}).items() if p_ in loads_of(x)}
            x = _subst(x, use) if use else x
            # a module-level list / tuple of paths that nothing in the module updates (N9 propagates immutable literals only)
            glob = {nm: module_paths(nm) for nm in loads_of(x) if nm not in fdefs_ and nm not in params_of(fn)}
            glob = {nm: v_ for nm, v_ in glob.items() if v_ is not None}
            return may_hold(_subst(x, glob) if glob else x)

        def may_hold(x):
            """the texts the expression MAY hold (a path that may have been requested counts as requested): literals, a + b, conditional expressions and `a or b` taken both ways,
            [*a, ..], list / tuple / set / sorted / frozenset (a); a single text for an appended element."""
            if isinstance(x, ast.Constant) and (x.value is None or isinstance(x.value, str)):
                return x.value
            if isinstance(x, (ast.List, ast.Tuple, ast.Set)):
                out = set()
                for e_ in x.elts:
                    v_ = may_hold(e_.value if isinstance(e_, ast.Starred) else e_)
                    out |= ({v_} if isinstance(v_, str) and not isinstance(e_, ast.Starred) else set(v_ or ()))
                return out
            if isinstance(x, ast.BinOp) and isinstance(x.op, ast.Add) and not isinstance(ev_or_none(x), str):
                return set(may_hold(x.left) or ()) | set(may_hold(x.right) or ())
            if isinstance(x, ast.IfExp):
                a_, b_ = may_hold(x.body), may_hold(x.orelse)
                return set([a_] if isinstance(a_, str) else a_ or ()) | set([b_] if isinstance(b_, str) else b_ or ())
            if isinstance(x, ast.BoolOp) and isinstance(x.op, ast.Or):
                out = set()
                for v_ in x.values:
                    m_ = may_hold(v_)
                    out |= set([m_] if isinstance(m_, str) else m_ or ())
                return out
            if isinstance(x, ast.Call) and dotted(x.func) in ("list", "tuple", "set", "frozenset", "sorted") and len(x.args) == 1 and not x.keywords:
                return set(may_hold(x.args[0]) or ())
            return xev(x, {})

        def ev_or_none(x):
            try:
                return xev(x, {})
            except (CannotEval, TypeError):
                return None

        for pname, a_ in source.bind_args(pc, pf8).items():
            if pname == pp8[0]:
                continue
            try:
                v_ = value(a_)
                if v_ is not None:
                    req |= set(v_)
                if isinstance(a_, ast.Name):
                    for m_ in own_nodes(fn):
                        if isinstance(m_, ast.Call) and isinstance(m_.func, ast.Attribute) and isinstance(m_.func.value, ast.Name) and m_.func.value.id == a_.id and m_.args:
                            if m_.func.attr == "append":
                                req.add(value(m_.args[0]))
                            elif m_.func.attr == "extend":
                                req |= set(value(m_.args[0]))
            except (CannotEval, TypeError):
                complete = False
        return req, complete

    def updated_in_place(name, fn):
        """some statement of fn adds / removes members of the dict `name` refers to."""
        return any((isinstance(n, ast.Subscript) and isinstance(n.ctx, (ast.Store, ast.Del)) and isinstance(n.value, ast.Name) and n.value.id == name)
                   or (isinstance(n, ast.Call) and isinstance(n.func, ast.Attribute) and n.func.attr in ("pop", "update", "setdefault", "clear", "popitem") and isinstance(n.func.value, ast.Name)
                       and n.func.value.id == name) for n in own_nodes(fn))

    def meet(results):
        if not results or any(r is NotImplemented for r in results):
            return NotImplemented
        req = set(results[0][0])
        for r in results[1:]:
            req &= r[0]
        return req, all(r[1] for r in results)

    def parse_result(expr, fn, actuals=None, depth=0):
        """(requested paths, all known?) when expr - evaluated inside fn - is the unchanged result of a selective parse; NotImplemented when it is not recognisably one."""
        e = expr.value if isinstance(expr, ast.Await) else expr
        if depth > 5:
            return NotImplemented
        if isinstance(e, ast.Name):
            binds = [n for n in own_nodes(fn) if isinstance(n, ast.Assign) and any(e.id in stores_of(t) for t in n.targets)]
            n_stores = sum(1 for n in own_nodes(fn) if isinstance(n, ast.Name) and isinstance(n.ctx, (ast.Store, ast.Del)) and n.id == e.id)
            if not binds or n_stores != len(binds) or any(len(b.targets) != 1 or not isinstance(b.targets[0], ast.Name) for b in binds) \
                    or e.id in params_of(fn) + [a.arg for a in fn.args.kwonlyargs] or updated_in_place(e.id, fn):
                return NotImplemented
            return meet([parse_result(b.value, fn, actuals, depth + 1) for b in binds])
        if not isinstance(e, ast.Call):
            return NotImplemented
        callee = callee_of(e, fn)
        if callee is pf8:
            return requested_by(e, fn, actuals)
        if callee is None or callee is fn or any(isinstance(x, (ast.Yield, ast.YieldFrom)) for x in own_nodes(callee)):
            return NotImplemented
        if isinstance(callee, ast.AsyncFunctionDef) != isinstance(expr, ast.Await):
            return NotImplemented  # a coroutine object / an awaited plain value
        rets = [n for n in own_nodes(callee) if isinstance(n, ast.Return)]
        if not rets or any(r.value is None for r in rets):
            return NotImplemented
        fdefs_, inner = local_defs(fn), {}
        for p_, a_ in source.bind_args(e, callee).items():
            try:
                x = source.inline_node(a_, fdefs_, no_calls=True)
                use = {k_: v_ for k_, v_ in (actuals or {}).items() if k_ in loads_of(x)}
                inner[p_] = _subst(x, use) if use else x
            except CannotEval:
                pass
        return meet([parse_result(r.value, callee, inner, depth + 1) for r in rets])

    def keyed_reads(recv_is, fn):
        """(node, key) of the reads <recv>.get(<text key>[, default]) / <recv>[<text key>] in fn's own body whose receiver satisfies recv_is (keys through single-assignment locals)."""
        fdefs_ = local_defs(fn)
        for rd_ in own_nodes(fn):
            kx = None
            if isinstance(rd_, ast.Call) and isinstance(rd_.func, ast.Attribute) and rd_.func.attr == "get" and 1 <= len(rd_.args) <= 2 and not rd_.keywords and recv_is(rd_.func.value):
                kx = rd_.args[0]
            elif isinstance(rd_, ast.Subscript) and isinstance(rd_.ctx, ast.Load) and not isinstance(rd_.slice, ast.Slice) and recv_is(rd_.value):
                kx = rd_.slice
            if kx is None:
                continue
            try:
                key = kx.value if isinstance(kx, ast.Constant) else ev(source.inline_node(kx, fdefs_, no_calls=True), {})
            except (CannotEval, TypeError):
                continue
            if isinstance(key, str):
                yield rd_, key

    def own_stores(name, fn):
        """{key: [statements of fn that store it into the dict `name`]} (reading such a key back says nothing about the parser)."""
        out = {}
        for n in own_nodes(fn):
            if isinstance(n, ast.Subscript) and isinstance(n.ctx, ast.Store) and isinstance(n.value, ast.Name) and n.value.id == name and isinstance(n.slice, ast.Constant):
                out.setdefault(n.slice.value, []).append(source.enclosing_stmt(n))
        return out

    def decide_read(fn, rd_, shown, key, req, complete, via=""):
        if key not in req and not complete:
            chk.adv("O19.8", f"{fn.name}: not all paths requested from parse() are literal lists (the read of `{shown}[{key!r}]` is not cross-checked)", rd_)
            return
        n8[0] += 1
        chk.ob("O19.8", f"{fn.name}: `{shown}[{key!r}]` was requested from the parser" + via, key in req, rd_, "" if key in req else f"requested: {sorted(req)}",
               key=f"{_R}:{source.qualname(fn)}:requested:{key}")

    for fn in [n for n in ast.walk(rn.tree) if isinstance(n, _FUNCS)]:
        gfn = None
        # bindings of a local to a call: by assignment or by assignment expression
        bindings = [(n, n.targets[0].id, n.value) for n in own_nodes(fn) if isinstance(n, ast.Assign) and len(n.targets) == 1 and isinstance(n.targets[0], ast.Name)] + \
                   [(n, n.target.id, n.value) for n in own_nodes(fn) if isinstance(n, ast.NamedExpr) and isinstance(n.target, ast.Name)]
        for asg, var, bval in bindings:
            if not isinstance(bval.value if isinstance(bval, ast.Await) else bval, ast.Call):
                continue
            r8 = parse_result(bval, fn)
            if r8 is NotImplemented:
                continue
            req, complete = r8
            bstmt = source.enclosing_stmt(asg)
            # reads of var that this binding reaches: same function, until the name is re-bound by ANY other statement
            others = [st_ for st_ in own_nodes(fn) if isinstance(st_, ast.stmt) and st_ is not bstmt and not isinstance(st_, (ast.If, ast.For, ast.AsyncFor, ast.While, ast.Try, ast.With, ast.AsyncWith))
                      and any(isinstance(x, ast.Name) and isinstance(x.ctx, (ast.Store, ast.Del)) and x.id == var for x in source.walk_local(st_))]
            others += [st_ for st_ in own_nodes(fn) if isinstance(st_, (ast.If, ast.While)) and st_ is not bstmt and var in stores_of(st_.test)] + \
                      [st_ for st_ in own_nodes(fn) if isinstance(st_, (ast.For, ast.AsyncFor)) and (var in stores_of(st_.target) or (st_ is not bstmt and var in stores_of(st_.iter)))] + \
                      [st_ for st_ in own_nodes(fn) if isinstance(st_, (ast.With, ast.AsyncWith)) and any(i_.optional_vars is not None and var in stores_of(i_.optional_vars) for i_ in st_.items)]
            gfn = gfn or cfg_of(fn)

            def reached(node, asg=asg, bstmt=bstmt, others=others, gfn=gfn):
                try:
                    if source.enclosing_stmt(node) is bstmt and gfn.node_of(node) is gfn.node_of(asg):
                        # the same statement: only a read written after an assignment expression sees its value (`(p := parse(..)).get(..)` is handled as a read on the source itself)
                        return isinstance(asg, ast.NamedExpr) and (node.lineno, node.col_offset) > (asg.end_lineno, asg.end_col_offset)
                    return gfn.path_exists(gfn.node_of(asg), gfn.node_of(node), avoid=[gfn.node_of(o_) for o_ in others if gfn.node_of(o_) is not gfn.node_of(node)])
                except KeyError:
                    return False

            mine = own_stores(var, fn)

            def stored_before(rd_, key, mine=mine, gfn=gfn):
                """a store of that key by the function itself may reach the read (the right-hand side of the storing statement itself is evaluated before the store)."""
                try:
                    return any(st_ is not source.enclosing_stmt(rd_) and gfn.path_exists(gfn.node_of(st_), gfn.node_of(rd_)) for st_ in mine.get(key, []))
                except KeyError:
                    return True

            for rd_, key in keyed_reads(lambda x, var=var: isinstance(x, ast.Name) and x.id == var, fn):
                if reached(rd_) and not stored_before(rd_, key):
                    decide_read(fn, rd_, var, key, req, complete)
            # the result handed on to a helper: the reads of the parameter it arrives in
            for c_ in [n for n in own_nodes(fn) if isinstance(n, ast.Call)]:
                callee = callee_of(c_, fn)
                if callee is None or callee is pf8 or callee is fn:
                    continue
                for p_, a_ in source.bind_args(c_, callee).items():
                    if not (isinstance(a_, ast.Name) and a_.id == var) or not reached(c_):
                        continue
                    if any(isinstance(n, ast.Name) and isinstance(n.ctx, (ast.Store, ast.Del)) and n.id == p_ for n in own_nodes(callee)):
                        continue  # the parameter is re-bound in the helper
                    theirs = own_stores(p_, callee)
                    for rd_, key in keyed_reads(lambda x, p_=p_: isinstance(x, ast.Name) and x.id == p_, callee):
                        if all(st_ is source.enclosing_stmt(rd_) for st_ in theirs.get(key, [])):
                            decide_read(callee, rd_, p_, key, req, complete, via=f" (the result parsed in {fn.name})")
        # a read directly on a source expression: parse(r, ["cursor"]).get("cursor")
        def unwrapped(x):
            x = x.value if isinstance(x, ast.NamedExpr) else x
            return x

        for rd_, key in keyed_reads(lambda x: isinstance(unwrapped(x).value if isinstance(unwrapped(x), ast.Await) else unwrapped(x), ast.Call), fn):
            recv = unwrapped(rd_.func.value if isinstance(rd_, ast.Call) else rd_.value)
            r8 = parse_result(recv, fn)
            if r8 is not NotImplemented:
                decide_read(fn, rd_, short(recv, 30), key, r8[0], r8[1])
    n8 = n8[0]
    if n8 >= 20:
        chk.ob("O19.8", "selective-parse consumers located", True, rn.tree, f"{n8} keyed read(s)")
    else:
        chk.unknown("O19.8", f"only {n8} keyed reads of selective-parse results could be located", rn.tree)

    # ---- O19.3 selective parser ------------------------------------------------------------------------------------------------------------------------------
    # Decided on VALUES: the statements of parse() are interpreted (Machine, strict) on the ijson event streams of small representative documents - the event loop is fed the stream
    # (json_events: the reference model of ijson's (prefix, event, value) triples), everything else (locals computed before the loop, membership containers, hoisted lengths,
    # the dispatch, the exit test, the merge at the end) is whatever the source says. The dict parse() returns must equal what a FULL parse of the same document has for the
    # requested paths (full_parse_view). No local name, container type, branch order or spelling of a test is looked at.
    chk.rule("O19.3", "the selective parser matches requested properties / lists / objects on the full ijson prefix; member keys of a collected object are the prefix with the object's own path "
             "stripped; early exit only when all requested properties, lists and objects were seen; an incomplete document ends the scan silently", 7,
             "a property with the same leaf name at another depth is returned; dotted member keys are mangled; extraction stops before a later requested value")
    pf = rn.func("parse")
    pp = params_of(pf)
    if len(pp) < 4:
        raise AnchorMissing("parse(text, props, lists, objects)")
    loops = [n for n in walk_body(pf) if isinstance(n, ast.For) and isinstance(n.target, ast.Tuple) and len(n.target.elts) == 3 and all(isinstance(t, ast.Name) for t in n.target.elts)]
    if not loops:
        raise AnchorMissing("event loop `for prefix, event, value in parser` in parse()")
    PL = loops[0]
    expand3 = Expander(rn, None, [n for n in ast.walk(pf) if isinstance(n, ast.FunctionDef) and n is not pf])

    def has_opaque(v):
        return isinstance(v, _Opaque) or (isinstance(v, dict) and any(has_opaque(x) for x in list(v.keys()) + list(v.values()))) or (isinstance(v, (list, tuple, set)) and any(has_opaque(x) for x in v))

    def scan(events, props, lists=None, objects=None):
        """parse() interpreted on an event stream: (the dict it returns, the trace of its event loop)."""
        m = Machine(expand3, strict=True, loop_feed={id(PL): list(events)})
        sig = m.run(pf.body, {pp[1]: list(props), pp[2]: None if lists is None else list(lists), pp[3]: None if objects is None else list(objects)})
        if sig is None or sig[0] != "return" or not isinstance(sig[1], dict) or has_opaque(sig[1]):
            raise CannotEval("parse() does not return a plain dict for the probe document")
        if not m.trace and events:
            raise CannotEval("the event loop of parse() is not reached")
        return sig[1], m.trace

    gave_up3 = []

    def unknown3(e):
        if not gave_up3:
            chk.unknown("O19.3", f"parse() cannot be interpreted on a probe event stream: {e}", PL)
        gave_up3.append(str(e))

    def agrees(inst, runs, key=None, accept=None):
        """obligation: for every (events, props, lists, objects) the interpreted parse() returns what a full parse of the same document has for the requested paths."""
        bad = None
        try:
            for events, props, lists, objects in runs:
                events = list(events)
                got, _ = scan(events, props, lists, objects)
                want, _ = full_parse_view(events, props, lists, objects)
                if not same_json(got, want) and not (accept is not None and any(same_json(got, a_) for a_ in accept)):
                    bad = f"requested props={props} lists={lists} objects={objects}: parse() returns {got!r}, a full parse of the same document has {want!r}"
                    break
        except (CannotEval, TypeError) as e:
            unknown3(e)
            return
        chk.ob("O19.3", inst, bad is None, PL, bad or f"{len(runs)} probe request(s) agree with the full parse", key=key)

    def nest(path, leaf):
        for k_ in reversed(path):
            leaf = {k_: leaf}
        return leaf

    # the same leaf name at several depths, before and after the requested one; falsy scalar values
    D_PROP = {"x": {"took": 9, "a": {"took": 8}}, "took": 3, "a": {"took": 5, "b": False, "n": None}, "b": "s", "z": 0, "e": "", "tail": [1]}
    agrees("property matched on the full prefix and stored under it",
           [(json_events(D_PROP), ["took"], None, None), (json_events(D_PROP), ["a.took", "b"], None, None), (json_events(D_PROP), ["a.b", "a.n", "z", "e", "zz.absent"], None, None),
            (json_events(D_PROP), ["x.a.took", "x.took"], None, None)])
    # lists: empty / non-empty / nested, the same leaf elsewhere, requested paths that are no arrays (string, object)
    D_LIST = {"x": {"l": [1]}, "l": {"l": [], "m": "str"}, "a": {"l": [], "m": [1, 2], "n": [[]], "s": "str", "o": {}}, "t": 1}
    agrees("list matched on full prefix and event",
           [(json_events(D_LIST), ["t"], ["a.l", "a.m"], None), (json_events(D_LIST), ["zz.absent"], ["a.n"], None), (json_events(D_LIST), ["t"], ["a.s", "a.o", "l.l"], None),
            (json_events(D_LIST), ["zz.absent"], ["x.l", "l.l", "l"], None)])
    # flat objects: the same leaf before (x.a), after (b.a) and as a member (a.a) of the requested one
    D_OBJ = {"x": {"a": {"k": 0}}, "a": {"k": 1, "n": None, "s": "v", "a": 2}, "a2": {"k": 2}, "b": {"a": {"k": 3}}, "z": 7}
    agrees("object start matched on full prefix and event",
           [(json_events(D_OBJ), ["z"], None, ["a"]), (json_events(D_OBJ), ["zz.absent"], None, ["b.a", "x.a"]), (json_events(D_OBJ), ["z"], None, ["a2", "z"])])
    agrees("object end matched on full prefix and event",
           [(json_events(D_OBJ), ["zz.absent"], None, ["a"]), (json_events(D_OBJ), ["zz.absent"], None, ["x.a", "a2"]), (json_events(D_OBJ), ["a.k", "z"], None, ["b.a"])])
    # member keys: with the object at path o and a member m (dots inside m kept), the key is m
    agrees("member key == prefix with the object's own path stripped",
           [(json_events({**nest(o_.split("."), {m_: i_ for i_, m_ in enumerate(ms_)}), "t": 1}), ["zz.absent"], None, [o_]) for o_, ms_ in
            (("aggregations.x.after_key", ["k", "b.c.d", "after_key.k", "aggregations"]), ("a", ["b.c.d", "a.k", "a"]), ("a.b", ["b", "a.b"]), ("o.k", ["k.o.k"]), ("ab", ["x"]))])
    # member values of a collected object: inside object `a`, a scalar event stores its value whatever that value is (null, false, 0, 0.0 and "" included); keys and container events store nothing
    EVENTS = [("null", None, True), ("boolean", False, True), ("boolean", True, True), ("integer", 0, True), ("integer", 7, True), ("double", 0.0, True), ("number", 0, True), ("string", "", True),
              ("string", "x", True), ("map_key", "k", False), ("start_array", None, False), ("end_array", None, False)]
    for ev_name, v_, stored in EVENTS:
        if stored:
            inner_ = [("a.k", ev_name, v_)]
        elif ev_name == "map_key":
            inner_ = []
        else:
            inner_ = [("a.k", "start_array", None), ("a.k", "end_array", None)]
        stream = [("", "start_map", None), ("", "map_key", "a"), ("a", "start_map", None), ("a", "map_key", "k")] + inner_ + [("a", "end_map", None), ("", "map_key", "t"), ("t", "integer", 1), ("", "end_map", None)]
        try:
            got, _ = scan(stream, ["t"], None, ["a"])
        except (CannotEval, TypeError) as e:
            unknown3(e)
            continue
        obj = got.get("a")
        if stored:
            ok = same_json(obj, {"k": v_})
        else:
            ok = same_json(obj, {}) or (ev_name != "map_key" and same_json(obj, {"k": []}))
        chk.ob("O19.3", f"object member: event {ev_name} value {v_!r} -> {'stored' if stored else 'nothing stored'}", ok and same_json(got.get("t"), 1), PL,
               f"extracted object: {obj!r}" + ("" if ok else " — a falsy member value is dropped / a value is altered, so the extracted object differs from the fully parsed one (e.g. a composite after_key with false / 0 / '')"),
               key=f"{_R}:parse:member:{ev_name}|{v_!r}")
    # the END of the collected object: it is stored under its own path and the parser LEAVES the object (otherwise every later scalar of the response is added to it while the
    # scan continues for a property that is absent)
    try:
        got, _ = scan(json_events({"a": {"k": 1}, "b": 5, "c": "x", "d": {"k": 2}}), ["zz.absent"], None, ["a"])
        chk.ob("O19.3", "end of the collected object: stored under its own path", set(got) == {"a"} and isinstance(got["a"], dict), PL, f"parse() returns the keys {sorted(map(str, got))}",
               key=f"{_R}:parse:object-end:stored")
        left = same_json(got.get("a"), {"k": 1})
        chk.ob("O19.3", "end of the collected object: the parser leaves the object (path variable reset)", left, PL,
               "" if left else f"after the end of object `a` later members of the response still end up in it: {got.get('a')!r} instead of {{'k': 1}}", key=f"{_R}:parse:object-end:left")
    except (CannotEval, TypeError) as e:
        unknown3(e)
    # early exit, on values: over requested combinations and member orders the scan stops exactly after the event with which the last requested property, list and object is known
    brk = [n for n in ast.walk(PL) if isinstance(n, ast.Break)]
    PARTS = {"p1": 1, "p2": 2, "l1": [], "l2": [1], "o1": {"k": 1}, "o2": {"k": 2}, "tail": 0}
    ORDERS = (("p1", "l1", "o1", "p2", "l2", "o2", "tail"), ("o1", "o2", "l1", "l2", "p1", "p2", "tail"), ("l1", "p1", "p2", "o1", "o2", "l2", "tail"), ("p1", "p2", "l1", "l2", "o2", "o1", "tail"))
    detail, ok, n_runs, late = "", True, 0, []
    try:
        for order in ORDERS:
            events = list(json_events({k_: PARTS[k_] for k_ in order}))
            for props in (["p1"], ["p1", "p2"], ["p1", "zz.absent"]):
                for lists in (None, ["l1"], ["l1", "l2"]):
                    for objects in (None, ["o1"], ["o1", "o2"]):
                        got, trace = scan(events, props, lists, objects)
                        want, at = full_parse_view(events, props, lists, objects)
                        n_runs += 1
                        wanted = list(props) + list(lists or []) + list(objects or [])
                        complete_at = max(at[w_] for w_ in wanted) if all(w_ in at for w_ in wanted) else None
                        stopped_at = len(trace) - 1 if trace and trace[-1]["broke"] else None
                        where = lambda i_: "never" if i_ is None else f"after event #{i_} {events[i_][:2]}"  # noqa: E731
                        if stopped_at is not None and (complete_at is None or stopped_at < complete_at) and ok:
                            ok = False
                            detail = f"requested props={props} lists={lists} objects={objects}, members in the order {list(order)}: the scan stops {where(stopped_at)}, everything requested is known {where(complete_at)}"
                        elif complete_at is not None and (stopped_at is None or stopped_at > complete_at) and not late:
                            # not a disagreement with the full parse (the result is compared below): the fast path merely reads further than it has to
                            late.append(f"requested props={props} lists={lists} objects={objects}: everything requested is known {where(complete_at)}, the scan stops {where(stopped_at)}")
                        if not same_json(got, want) and ok:
                            ok = False
                            detail = f"requested props={props} lists={lists} objects={objects}: parse() returns {got!r}, a full parse has {want!r}"
        chk.ob("O19.3", "early exit only when all requested properties, lists and objects were seen", ok, brk[0] if brk else PL, detail or f"{n_runs} request / document combinations")
        if late:
            chk.adv("O19.3", f"parse() reads further than necessary (no disagreement, only slower): {late[0]}", brk[0] if brk else PL)
    except (CannotEval, TypeError) as e:
        unknown3(e)
    tr = source.enclosing(PL, ast.Try)
    if tr is None:
        chk.unknown("O19.3", "no try statement around the event loop of parse(): where an incomplete document is handled could not be located", PL)
    else:
        caught = [last_attr(t_) for h_ in tr.handlers for t_ in (h_.type.elts if isinstance(h_.type, ast.Tuple) else [h_.type])]
        chk.ob("O19.3", "only an incomplete document is tolerated", bool(caught) and all(c_ == "IncompleteJSONError" for c_ in caught), tr, f"handlers: {caught}")
    # the text handed in is rewound: <text>.seek(0), the receiver being the parameter itself or a single-assignment alias of it
    pdefs = local_defs(pf)

    def is_text(e_):
        return isinstance(e_, (ast.Name, ast.Attribute)) and u(source.inline_node(e_, pdefs)) == pp[0]

    # uses that read from the stream's current position: the stream handed to a call (ijson.parse(text)) or read through read*() - getvalue() / getbuffer() do not depend on it
    positional = [n for n in walk_body(pf) if isinstance(n, ast.Call) and (any(is_text(a_) for a_ in list(n.args) + [k.value for k in n.keywords])
                                                                          or (isinstance(n.func, ast.Attribute) and n.func.attr.startswith("read") and is_text(n.func.value)))]
    rewinds = [n for n in walk_body(pf) if isinstance(n, ast.Call) and isinstance(n.func, ast.Attribute) and n.func.attr == "seek" and n.args and source.is_const(n.args[0], 0)
               and (len(n.args) == 1 or source.is_const(n.args[1], 0)) and is_text(n.func.value)]
    ok = not positional or any(r_.lineno < min(x_.lineno for x_ in positional) and not guards(source.enclosing_stmt(r_)) for r_ in rewinds)
    chk.ob("O19.3", "the response is scanned from its start", ok, positional[0] if positional else pf,
           "" if positional else "the text is never read through its stream position")
    # composite agg: after_key path is the full path — the (single) object path handed to parse(), evaluated on a representative aggregation path
    CA = rn.cls("CompositeAggExtractor")
    cc = rn.methods(CA).get("__call__")
    if cc is None:
        raise AnchorMissing("CompositeAggExtractor.__call__")
    cdefs = local_defs(cc)
    pcalls = [n for n in walk_body(cc) if isinstance(n, ast.Call) and dotted(n.func) == "parse"]
    oarg = source.bind_args(pcalls[0], pf).get(pp[3]) if len(pcalls) == 1 else None
    if oarg is None:
        chk.unknown("O19.3", "CompositeAggExtractor.__call__: the one parse() call with an `objects` argument could not be located", cc)
    else:
        oarg = source.inline_node(oarg, cdefs)
        # the parameter holding the path of the aggregation: the one the requested object path is computed from
        pathps = [p_ for p_ in params_of(cc) if p_ in loads_of(oarg)]
        ok = False
        if len(pathps) == 1:
            try:
                ok = all(xev(oarg, {pathps[0]: path_}) == ["aggregations." + ".".join(path_) + ".after_key"] for path_ in (["by_day"], ["outer", "inner"], ["a", "b", "c"]))
            except CannotEval as e:
                if any(isinstance(x, ast.Call) and not isinstance(x.func, ast.Attribute) and dotted(x.func) not in ("str", "list", "tuple") for x in ast.walk(oarg)):
                    chk.unknown("O19.3", f"the object path CompositeAggExtractor requests cannot be evaluated: {e}", pcalls[0])
                    ok = None
        # (no parameter / state of the extractor instead of the path handed in: the requested path does not follow the aggregation path of THIS call)
        if ok is not None:
            chk.ob("O19.3", "composite cursor requested by its full path", ok, pcalls[0], u(oarg))

    # ---- O19.10 the paginated extractors: what they REPORT of the response equals the full parse ------------------------------------------------------------------------------
    # Decided on VALUES: the statements of <Extractor>.__call__ are interpreted (PopMachine, tolerant) on representative responses; the selective parse inside is the interpreted
    # parse() of O19.3 on the ijson event stream of the probe response. The dict the extractor returns (standardised keys) is compared with the fully parsed response: hit total
    # (object-shaped ES 7+ total incl. the boundary value 0 and a lower bound `gte`, members in either order; integer ES 6 total incl. 0; later pages: the total handed in),
    # relation, the composite cursor (absent / members with falsy values), timed_out, took. No spelling of the standardisation is looked at.
    chk.rule("O19.10", "paginated extractors (search_after, composite): the hit total, its relation, the cursor object, timed_out and took they return equal the values of the fully parsed "
             "response - for the object-shaped and the integer total, the boundary total 0, a lower-bound total, any member order, and on later pages the total handed in by the caller", 5,
             "a total of 0 / a falsy value is taken for 'absent' and replaced by residue of the selective parse or a default; relation of a lower-bound total reported as eq; cursor dropped")
    AGG_PATH = ["outer", "inner"]

    def probe_response(total, after, order, timed_out=False, pit=True):
        inner_ = {"buckets": [{"key": {"vendor": "a"}, "doc_count": 0}]}
        if after is not None:
            inner_ = {"after_key": after, **inner_}
        parts = {"took": 7, "timed_out": timed_out, "_shards": {"total": 3, "successful": 3, "skipped": 0, "failed": 0}, "hits": {"total": total, "max_score": None, "hits": []},
                 "aggregations": nest(AGG_PATH, inner_)}
        if pit:
            parts["pit_id"] = "cGl0"
        return {k_: parts[k_] for k_ in order if k_ in parts}

    ORDER_A = ("pit_id", "took", "timed_out", "_shards", "hits", "aggregations")
    ORDER_B = ("aggregations", "hits", "_shards", "timed_out", "took", "pit_id")
    TOTALS = [({"value": 0, "relation": "eq"}, 0, "eq"), ({"value": 3, "relation": "eq"}, 3, "eq"), ({"value": 10000, "relation": "gte"}, 10000, "gte"),
              ({"relation": "gte", "value": 10000}, 10000, "gte"), ({"relation": "eq", "value": 0}, 0, "eq"), (0, 0, "eq"), (7, 7, "eq")]
    AFTERS = [None, {"vendor": "z"}, {"vendor": "", "n": 0, "f": False, "x": None}]

    def extractor_check(cls_name, with_path):
        C_ = rn.index().get(cls_name)
        fn_ = rn.methods(C_).get("__call__") if isinstance(C_, ast.ClassDef) else None
        if fn_ is None:
            chk.unknown("O19.10", f"{cls_name}.__call__ could not be located", rn.tree)
            return
        fps = params_of(fn_)
        if "get_point_in_time" not in fps or "hits_total" not in fps:
            chk.unknown("O19.10", f"{cls_name}.__call__: the parameters get_point_in_time / hits_total could not be located", fn_)
            return
        pathp = None
        if with_path:
            cands = [p_ for p_ in fps if p_ not in ("self", "get_point_in_time", "hits_total") and any(isinstance(n, ast.Call) and isinstance(n.func, ast.Attribute) and n.func.attr == "join"
                                                                                                      and p_ in loads_of(n) for n in walk_body(fn_))]
            if len(cands) != 1:
                chk.unknown("O19.10", f"{cls_name}.__call__: the parameter holding the path of the aggregation could not be located", fn_)
                return
            pathp = cands[0]
        expand10 = Expander(rn, C_)

        def extract(doc, get_pit, hits_total):
            events = list(json_events(doc))

            def on_call(c, env, m):
                if isinstance(c.func, ast.Name) and rn.index().get(c.func.id) is pf:
                    a_ = source.bind_args(c, pf)
                    if pp[1] not in a_:
                        raise CannotEval("parse() called without a list of properties")
                    vals = [m.val(a_[q_], env) if q_ in a_ else None for q_ in pp[1:4]]
                    if not isinstance(vals[0], (list, tuple)) or any(v_ is not None and not isinstance(v_, (list, tuple)) for v_ in vals[1:]):
                        raise CannotEval("the paths handed to parse() are not lists")
                    return scan(events, *vals)[0]
                return NotImplemented

            m = PopMachine(expand10, strict=False, on_call=on_call)
            env = {"get_point_in_time": get_pit, "hits_total": hits_total}
            if pathp:
                env[pathp] = list(AGG_PATH)
            sig = m.run(fn_.body, env)
            if sig is None or sig[0] != "return":
                raise CannotEval(f"{cls_name}.__call__ does not return for the probe response" + (f" (it raises at line {sig[1].lineno})" if sig is not None and sig[0] == "raise" else ""))
            r = sig[1]
            dicts = [r] if isinstance(r, dict) else [x for x in r if isinstance(x, dict)] if isinstance(r, tuple) else []
            if len(dicts) != 1:
                raise CannotEval(f"{cls_name}.__call__ does not return (a tuple with) one dict of extracted properties")
            return dicts[0]

        bad, seen, n_runs = {}, set(), 0
        ASPECTS = ("hit total", "relation of the hit total", "timed_out and took") + (("composite cursor",) if with_path else ())

        def compare(aspect, key_, got, want, what):
            if key_ not in got:
                return
            seen.add(aspect)
            v_ = got[key_]
            if isinstance(v_, _Opaque):
                raise CannotEval(f"the value returned under {key_!r} is not interpreted ({v_.what})")
            if not same_json(v_, want) and aspect not in bad:
                bad[aspect] = f"{what}: the extractor returns {key_!r} = {v_!r}, the fully parsed response has {want!r}"

        try:
            for i_, (total, value, relation) in enumerate(TOTALS):
                for order in (ORDER_A, ORDER_B):
                    for later in (False, True):
                        after = AFTERS[(i_ + later + (order is ORDER_B)) % len(AFTERS)] if with_path else None
                        get_pit = (i_ + later) % 2 == 0
                        t_out = i_ % 3 == 1
                        doc = probe_response(total, after, order, timed_out=t_out)
                        got = extract(doc, get_pit, value if later else None)
                        n_runs += 1
                        what = (f"response with hits.total = {total!r}" + (f", after_key = {after!r}" if with_path else "") + f", members in the order {list(k_ for k_ in order if k_ in doc)}, "
                                + ("a later page (hits_total = %r handed in)" % value if later else "first page (hits_total = None)") + f", get_point_in_time = {get_pit}")
                        compare("hit total", "hits.total.value", got, value, what)
                        if not later:
                            compare("relation of the hit total", "hits.total.relation", got, relation, what)
                        compare("timed_out and took", "timed_out", got, t_out, what)
                        compare("timed_out and took", "took", got, 7, what)
                        if with_path:
                            compare("composite cursor", "after_key", got, after, what)
        except (CannotEval, TypeError) as e:
            chk.unknown("O19.10", f"{cls_name}.__call__ cannot be interpreted on a probe response: {e}", fn_)
            return
        for aspect in ASPECTS:
            if aspect not in seen:
                chk.unknown("O19.10", f"{cls_name}.__call__: the key under which the {aspect} is returned could not be located in its result", fn_)
                continue
            chk.ob("O19.10", f"{cls_name}: {aspect} == the value of the full parse", aspect not in bad, fn_, bad.get(aspect) or f"{n_runs} probe responses / calls agree with the full parse",
                   key=f"{_R}:{cls_name}:extract:{aspect}")

    if not gave_up3:
        extractor_check("SearchAfterExtractor", False)
        extractor_check("CompositeAggExtractor", True)
    else:
        chk.unknown("O19.10", "parse() cannot be interpreted (see O19.3): the extractors built on it are not evaluated", PL)

from sa.selftest import V  # noqa: E402

_NEW = "            # sort values may contain brackets themselves so only the JSON decoder can tell where the array ends\n            last_sort, _ = self.decoder.raw_decode(response_str, index_of_last_sort + last_sort_str.start(1))\n            return last_sort"
_PRED_IF = "if data[\"status\"] > 299 or (\"_shards\" in data and data[\"_shards\"][\"failed\"] > 0):"
_SIMPLE_LOOP = ("            for item in parsed_response[\"items\"]:\n                data = next(iter(item.values()))\n                " + _PRED_IF + "\n"
                "                    bulk_error_count += 1\n                    self.extract_error_details(error_details, data)\n                else:\n                    bulk_success_count += 1\n")
_COUNT_HELPER = ("    def _count_items(self, items, error_details):\n        successes = 0\n        errors = 0\n        for item in items:\n            data = next(iter(item.values()))\n"
                 "            " + _PRED_IF + "\n                errors += 1\n                self.extract_error_details(error_details, data)\n            else:\n                successes += 1\n"
                 "        return successes, errors\n\n")
_LAST_SORT_OLD = ("        index_of_last_sort = response_str.rfind('\"sort\"')\n        last_sort_str = re.search(self.sort_pattern, response_str[index_of_last_sort::])\n"
                  "        if last_sort_str is not None:\n" + _NEW + "\n        else:\n            return None\n")
_F28_FINALLY = ("                # also when a page request fails: the same body is handed out again for the next iteration\n                for item in [\"pit\", \"search_after\"]:\n"
                "                    body.pop(item, None)\n")


def _B2_SHAPE(name, kind, rule=None, swap=None, swap2=None):
    """benign/C19-b2: membership tests on frozensets built once, the cheap event test first, lengths of the wish lists hoisted out of the loop."""
    prelude = ("    wanted_props = frozenset(props)\n    wanted_lists = frozenset(lists) if lists is not None else frozenset()\n    wanted_objects = frozenset(objects) if objects is not None else frozenset()\n"
               "    expected_props = len(props)\n    expected_lists = len(lists) if lists is not None else None\n    expected_objects = len(objects) if objects is not None else None\n\n")
    body = ("            if prefix in wanted_props:\n                parsed[prefix] = value\n            elif event == \"start_array\" and prefix in wanted_lists:\n")
    for sw in (swap, swap2):
        if sw:
            assert (prelude + body).count(sw[0]) == 1
            prelude, body = prelude.replace(sw[0], sw[1]), body.replace(sw[0], sw[1])
    return [V(name, kind, _R, "    text.seek(0)\n    parser = ijson.parse(text)\n", prelude + "    text.seek(0)\n    parser = ijson.parse(text)\n", rule),
            V("", kind, _R, "            if prefix in props:\n                parsed[prefix] = value\n            elif lists is not None and prefix in lists and event == \"start_array\":\n", body),
            V("", kind, _R, "            elif objects is not None and event == \"end_map\" and prefix in objects:\n", "            elif event == \"end_map\" and prefix in wanted_objects:\n"),
            V("", kind, _R, "            elif objects is not None and event == \"start_map\" and prefix in objects:\n", "            elif event == \"start_map\" and prefix in wanted_objects:\n"),
            V("", kind, _R, "            elif in_object and event in [\"null\", \"boolean\", \"integer\", \"double\", \"number\", \"string\"]:\n",
              "            elif in_object and event in _JSON_SCALAR_EVENTS:\n"),
            V("", kind, _R, "\ndef parse(text: BytesIO,", "\n_JSON_SCALAR_EVENTS = frozenset([\"null\", \"boolean\", \"integer\", \"double\", \"number\", \"string\"])\n\n\ndef parse(text: BytesIO,"),
            V("", kind, _R, "                len(parsed) == len(props)\n                and (lists is None or len(parsed_lists) == len(lists))\n                and (objects is None or len(parsed_objects) == len(objects))\n",
              "                len(parsed) == expected_props\n                and (expected_lists is None or len(parsed_lists) == expected_lists)\n                and (expected_objects is None or len(parsed_objects) == expected_objects)\n")]


_SCROLL_DEF = "        async def _scroll_query(es, params):\n"
_NEXT_PARSE = "                        props = parse(r, [\"timed_out\", \"took\"], [\"hits.hits\"])\n"
_RAW_SEARCH_DEF = "    async def _raw_search(self, es, doc_type, index, body, params, headers=None):\n"
_TOOK_SUM = "                        took += props.get(\"took\", 0)\n"


def _b7(name, kind, helper, call, where=_SCROLL_DEF, rule=None, extra=()):
    return [V(name, kind, _R, where, helper + where, rule), V("", kind, _R, _NEXT_PARSE, call)] + list(extra)


_B7_SHAPES = [
    V("later scroll pages no longer request timed_out (plain shape)", "break", _R, _NEXT_PARSE, "                        props = parse(r, [\"took\"], [\"hits.hits\"])\n", "O19.8"),
    _b7("b7 shape: the selective parse of a scroll page moved into a nested helper that returns its result", "keep",
        "        def _page_props(raw):\n            # later pages: only the flags and whether there are hits\n            return parse(raw, [\"timed_out\", \"took\"], [\"hits.hits\"])\n\n",
        "                        props = _page_props(r)\n"),
    _b7("b7 shape broken: the extracted helper no longer requests timed_out", "break",
        "        def _page_props(raw):\n            return parse(raw, [\"took\"], [\"hits.hits\"])\n\n",
        "                        props = _page_props(r)\n", rule="O19.8"),
    _b7("b7 shape: helper method with the wanted properties as a parameter, result through a local", "keep",
        "    @staticmethod\n    def _scroll_page_props(raw, wanted):\n        page_props = parse(raw, wanted, [\"hits.hits\"])\n        logging.getLogger(__name__).debug(\"page parsed\")\n        return page_props\n\n",
        "                        props = self._scroll_page_props(r, [\"timed_out\", \"took\"])\n", where=_RAW_SEARCH_DEF),
    _b7("b7 shape broken: the caller of the helper method asks for took only", "break",
        "    @staticmethod\n    def _scroll_page_props(raw, wanted):\n        page_props = parse(raw, wanted, [\"hits.hits\"])\n        return page_props\n\n",
        "                        props = self._scroll_page_props(r, [\"took\"])\n", where=_RAW_SEARCH_DEF, rule="O19.8"),
    _b7("b7 shape: async helper that requests AND parses the next page", "keep",
        "        async def _next_scroll_page(es, scroll_id):\n            raw = await es.perform_request(method=\"GET\", path=\"/_search/scroll\", body={\"scroll_id\": scroll_id, \"scroll\": \"10s\"}, params=None, headers=headers)\n"
        "            return parse(raw, [\"timed_out\", \"took\"], [\"hits.hits\"])\n\n",
        "                        props = await _next_scroll_page(es, scroll_id)\n"),
    _b7("the parse result handed on to a helper that reads it", "keep",
        "        def _took_of(page_props):\n            return page_props.get(\"took\", 0)\n\n", _NEXT_PARSE,
        extra=[V("", "keep", _R, _TOOK_SUM, "                        took += _took_of(props)\n")]),
    _b7("the parse result handed on to a helper that reads a path which was not requested", "break",
        "        def _took_of(page_props):\n            return page_props.get(\"took\", 0)\n\n", "                        props = parse(r, [\"timed_out\"], [\"hits.hits\"])\n", rule="O19.8",
        extra=[V("", "break", _R, _TOOK_SUM, "                        took += _took_of(props)\n")]),
]

_BULK_CLS = "class BulkIndex(Runner):\n"
_ADD_REASON = "            error_details.add((data[\"status\"], error_reason))\n"
_ADD_NONE = "            error_details.add((data[\"status\"], None))\n"
_F29_KEY = "key=lambda d: (d[0], d[1] is not None, d[1] or \"\")"
_SUMMARY_LOOPS = ("        status_counts = {}\n        for status, _ in error_details:\n            status_counts[status] = status_counts.get(status, 0) + 1\n        status_summaries = []\n"
                  "        for status in sorted(status_counts.keys()):\n            status_summaries.append(f\"{status_counts[status]}x{status}\")\n        return \", \".join(status_summaries)\n")


def _b8(name, kind, decl, ctor, key, rule=None, extra=()):
    return [V(name, kind, _R, _BULK_CLS, decl + _BULK_CLS, rule),
            V("", kind, _R, _ADD_REASON, "            error_details.add(" + ctor + "(data[\"status\"], error_reason))\n"),
            V("", kind, _R, _ADD_NONE, "            error_details.add(" + ctor + "(status=data[\"status\"], reason=None))\n"),
            V("", kind, _R, "sorted(error_details, " + _F29_KEY + ")", key)] + list(extra)


_XD_METHOD = ("    def extract_error_details(self, error_details, data):\n        error_data = data.get(\"error\", {})\n"
              "        error_reason = error_data.get(\"reason\") if isinstance(error_data, dict) else str(error_data)\n        if error_data:\n" + _ADD_REASON + "        else:\n" + _ADD_NONE + "\n")
_XD_FUNCTION = ("def extract_error_details(error_details, data):\n    error_data = data.get(\"error\", {})\n    error_reason = error_data.get(\"reason\") if isinstance(error_data, dict) else str(error_data)\n"
                "    if error_data:\n        error_details.add((data[\"status\"], error_reason))\n    else:\n        error_details.add((data[\"status\"], None))\n\n\n")
_XD_PURE = ("    def extract_error_details(self, data):\n        error_data = data.get(\"error\", {})\n        if not error_data:\n            return data[\"status\"], None\n"
            "        return data[\"status\"], (error_data.get(\"reason\") if isinstance(error_data, dict) else str(error_data))\n\n")
_NT_DECL = "class BulkItemError(NamedTuple):\n    \"\"\"status and reason of a failed bulk item\"\"\"\n\n    status: int\n    reason: Optional[str] = None\n\n\n"
_DC_EDITS = [("            status, reason = error_detail\n", "            status, reason = error_detail.status, error_detail.reason\n"),
             ("        for status, _ in error_details:\n            status_counts[status] = status_counts.get(status, 0) + 1\n",
              "        for detail in error_details:\n            status_counts[detail.status] = status_counts.get(detail.status, 0) + 1\n")]
_B8_SHAPES = [
    _b8("b8 shape: details as a NamedTuple, ordered by a key over the field names", "keep", _NT_DECL, "BulkItemError",
        "sorted(error_details, key=lambda d: (d.status, d.reason is not None, d.reason or \"\"))",
        extra=[V("", "keep", _R, "from typing import Optional\n", "from typing import NamedTuple, Optional\n")]),
    _b8("b8 shape broken: the key over the NamedTuple fields compares the raw reason", "break", _NT_DECL, "BulkItemError",
        "sorted(error_details, key=lambda d: (d.status, d.reason))", rule="O19.9"),
    _b8("b8 shape broken: NamedTuple details sorted without a key", "break", _NT_DECL, "BulkItemError", "sorted(error_details)", rule="O19.9"),
    _b8("details as collections.namedtuple, key by position", "keep", "BulkItemError = collections.namedtuple(\"BulkItemError\", \"status reason\")\n\n\n", "BulkItemError",
        "sorted(error_details, " + _F29_KEY + ")"),
    _b8("details as a frozen dataclass, ordered by an explicit key", "keep", "@dataclasses.dataclass(frozen=True)\nclass BulkItemError:\n    status: int\n    reason: Optional[str] = None\n\n\n", "BulkItemError",
        "sorted(error_details, key=lambda d: (d.status, d.reason is not None, d.reason or \"\"))", extra=[V("", "keep", _R, a_, b_) for a_, b_ in _DC_EDITS]),
    _b8("details as an ordered dataclass sorted without a key: the generated __lt__ compares None with str", "break",
        "@dataclasses.dataclass(frozen=True, order=True)\nclass BulkItemError:\n    status: int\n    reason: Optional[str] = None\n\n\n", "BulkItemError",
        "sorted(error_details)", rule="O19.9", extra=[V("", "break", _R, a_, b_) for a_, b_ in _DC_EDITS]),
    # the extraction of one item's details in other places / shapes: located by role (adds to a collection parameter, reachable from both counting paths - or returns the detail,
    # both paths add the result), not by being a method called through self
    [V("extraction of the details moved to a module-level function", "keep", _R, _XD_METHOD, ""), V("", "keep", _R, _BULK_CLS, _XD_FUNCTION + _BULK_CLS),
     V("", "keep", _R, "self.extract_error_details(error_details, data)", "extract_error_details(error_details, data)", count=2)],
    [V("module-level extraction, details sorted without a key", "break", _R, _XD_METHOD, "", "O19.9"), V("", "break", _R, _BULK_CLS, _XD_FUNCTION + _BULK_CLS),
     V("", "break", _R, "self.extract_error_details(error_details, data)", "extract_error_details(error_details, data)", count=2),
     V("", "break", _R, "sorted(error_details, " + _F29_KEY + ")", "sorted(error_details)")],
    [V("pure extraction: the method returns the detail, both counting paths add it", "keep", _R, _XD_METHOD, _XD_PURE),
     V("", "keep", _R, "self.extract_error_details(error_details, data)", "error_details.add(self.extract_error_details(data))", count=2)],
    [V("pure extraction, details ordered by the raw reason", "break", _R, _XD_METHOD, _XD_PURE, "O19.9"),
     V("", "break", _R, "self.extract_error_details(error_details, data)", "error_details.add(self.extract_error_details(data))", count=2),
     V("", "break", _R, _F29_KEY, "key=lambda d: (d[0], d[1])")],
    [V("pure extraction, the predicate of the fast path forgets the status", "break", _R, _XD_METHOD, _XD_PURE, "O19.1"),
     V("", "break", _R, "self.extract_error_details(error_details, data)", "error_details.add(self.extract_error_details(data))", count=2),
     V("", "break", _R, "                " + _PRED_IF, "                if \"_shards\" in data and data[\"_shards\"][\"failed\"] > 0:")],
    V("b8 shape: status summary counted with collections.Counter and ordered by its items", "keep", _R, _SUMMARY_LOOPS,
      "        status_counts = Counter(status for status, _ in error_details)\n        return \", \".join(f\"{count}x{status}\" for status, count in sorted(status_counts.items()))\n"),
    V("b8 shape broken: the Counter counts whole details, ordering its items compares None with str", "break", _R, _SUMMARY_LOOPS,
      "        detail_counts = Counter(error_details)\n        return \", \".join(f\"{count}x{detail[0]}\" for detail, count in sorted(detail_counts.items()))\n", "O19.9"),
]

# ---- refactored shapes (benign round 4) ----
# b10: _get_last_sort scans in place - <compiled pattern>.search(text, pos) instead of slicing the tail off, the decoder gets the ABSOLUTE position of the match, guard clauses
def _b10(decode="last_sort_match.start(1)", guard="        if index_of_last_sort < 0:\n            # no hit carries a sort value, e.g. because the page is empty\n            return None\n"):
    return ("        index_of_last_sort = response_str.rfind('\"sort\"')\n" + guard +
            "        last_sort_match = self.sort_pattern.search(response_str, index_of_last_sort)\n        if last_sort_match is None:\n            return None\n"
            "        last_sort, _ = self.decoder.raw_decode(response_str, " + decode + ")\n        return last_sort\n")


# b9: the per-page accounting of the two paginated flavours lives in static helpers of Query
_PAGE_BLOCK = ("                    results[\"pages\"] = page\n                    results[\"weight\"] = page\n                    if results.get(\"hits\") is None:\n"
               "                        results[\"hits\"] = parsed.get(\"hits.total.value\")\n                        results[\"hits_relation\"] = parsed.get(\"hits.total.relation\")\n"
               "                    results[\"took\"] += parsed.get(\"took\")\n                    # when this evaluates to True, keep it for the final result\n"
               "                    if not results[\"timed_out\"]:\n                        results[\"timed_out\"] = parsed.get(\"timed_out\")\n                    if pit_op:\n"
               "                        # per the documentation the response pit id is most up-to-date\n                        CompositeContext.put(pit_op, parsed.get(\"pit_id\"))\n")
_RESULTS_INIT = ("            results = {\n                \"unit\": \"pages\",\n                \"success\": True,\n                \"timed_out\": False,\n                \"took\": 0,\n            }\n"
                 "            if pit_op:\n                # these are disallowed as they are encoded in the pit_id\n")
_RECORD_PAGE = ("    @staticmethod\n    def _new_paginated_results():\n        return {\n            \"unit\": \"pages\",\n            \"success\": True,\n            \"timed_out\": False,\n"
                "            \"took\": 0,\n        }\n\n"
                "    @staticmethod\n    def _record_page(results, parsed, page, pit_op):\n        \"\"\"Folds the properties extracted from one page into the meta-data.\"\"\"\n"
                "        results[\"pages\"] = page\n        results[\"weight\"] = page\n        # the total hit count is taken from the first page only\n        if results.get(\"hits\") is None:\n"
                "            results[\"hits\"] = parsed.get(\"hits.total.value\")\n            results[\"hits_relation\"] = parsed.get(\"hits.total.relation\")\n"
                "        results[\"took\"] += parsed.get(\"took\")\n        if not results[\"timed_out\"]:\n            results[\"timed_out\"] = parsed.get(\"timed_out\")\n"
                "        if pit_op:\n            CompositeContext.put(pit_op, parsed.get(\"pit_id\"))\n\n")


_HITS_IN_HELPER = ("        if results.get(\"hits\") is None:\n            results[\"hits\"] = parsed.get(\"hits.total.value\")\n            results[\"hits_relation\"] = parsed.get(\"hits.total.relation\")\n")
_RECORD_TOTALS = ("    @staticmethod\n    def _record_totals(meta, props):\n        if meta.get(\"hits\") is not None:\n            return\n        meta[\"hits\"] = props.get(\"hits.total.value\")\n"
                  "        meta[\"hits_relation\"] = props.get(\"hits.total.relation\")\n\n")


def _b9(name, kind, rule=None, swap=None, more="", call="                    self._record_page(results, parsed, page, pit_op)\n", init=True):
    helper = _RECORD_PAGE
    if swap:
        assert helper.count(swap[0]) == 1
        helper = helper.replace(swap[0], swap[1])
    return [V(name, kind, _R, _RAW_SEARCH_DEF, helper + more + _RAW_SEARCH_DEF, rule), V("", kind, _R, _PAGE_BLOCK, call, count=2)] + (
        [V("", kind, _R, _RESULTS_INIT, "            results = self._new_paginated_results()\n            if pit_op:\n                # these are disallowed as they are encoded in the pit_id\n", count=2)] if init else [])


_B9_B10_SHAPES = [
    V("b10 shape: the compiled pattern scans in place from the key on, absolute decoder offset, guard clauses", "keep", _R, _LAST_SORT_OLD, _b10()),
    V("b10 shape broken: the start of the scan is added to the (already absolute) position of the match", "break", _R, _LAST_SORT_OLD, _b10(decode="index_of_last_sort + last_sort_match.start(1)"), "O19.2"),
    V("b10 shape broken: without the guard a key search that finds nothing (-1) makes the pattern scan the whole response", "break", _R, _LAST_SORT_OLD, _b10(guard=""), "O19.2"),
    V("b10 shape broken: in-place scan of the decoded text from a position found in the raw bytes", "break", _R,
      "        response_str = response.getvalue().decode(\"UTF-8\")\n" + _LAST_SORT_OLD,
      "        raw = response.getvalue()\n        response_str = raw.decode(\"UTF-8\")\n" + _b10().replace("response_str.rfind('\"sort\"')", "raw.rfind(b'\"sort\"')"), "O19.2"),
    V("the tail of the response bound to a local, searched and decoded (offsets relative to the tail)", "keep", _R, _LAST_SORT_OLD,
      "        tail = response_str[response_str.rfind('\"sort\"'):]\n        found = self.sort_pattern.search(tail)\n        if found is None:\n            return None\n"
      "        return self.decoder.raw_decode(tail, found.start(1))[0]\n"),
    V("tail shape broken: a position inside the tail handed to the decoder together with the whole text", "break", _R, _LAST_SORT_OLD,
      "        tail = response_str[response_str.rfind('\"sort\"'):]\n        found = self.sort_pattern.search(tail)\n        if found is None:\n            return None\n"
      "        return self.decoder.raw_decode(response_str, found.start(1))[0]\n", "O19.2"),
    _b9("b9 shape: per-page accounting and the initial result in static helpers of Query", "keep"),
    _b9("b9 shape, helper called by keyword through the class, result dict built inline", "keep", init=False,
        call="                    Query._record_page(page=page, results=results, parsed=parsed, pit_op=pit_op)\n"),
    _b9("b9 shape broken: the helper overwrites the hit total with every page", "break", "O19.6",
        swap=("        if results.get(\"hits\") is None:\n            results[\"hits\"]", "        if results.get(\"hits\") is None or page > 1:\n            results[\"hits\"]")),
    V("hit total recorded on the first page, decided on the page number", "keep", _R, "                    if results.get(\"hits\") is None:\n", "                    if page == 1:\n", count=2),
    V("hit total recorded on every page (condition on the page number that always holds)", "break", _R, "                    if results.get(\"hits\") is None:\n", "                    if page >= 1:\n", "O19.6",
      count=2),
    _b9("b9 shape, the helper decides on the page number whether to record the hit total", "keep",
        swap=("        if results.get(\"hits\") is None:\n            results[\"hits\"]", "        if page == 1:\n            results[\"hits\"]")),
    _b9("b9 shape in two levels: the hit total recorded by a second helper behind a guard clause", "keep", swap=(_HITS_IN_HELPER, "        Query._record_totals(results, parsed)\n"), more=_RECORD_TOTALS),
    _b9("b9 shape in two levels broken: the second helper records the hit total unconditionally", "break", "O19.6", swap=(_HITS_IN_HELPER, "        Query._record_totals(results, parsed)\n"),
        more=_RECORD_TOTALS.replace("        if meta.get(\"hits\") is not None:\n            return\n", "")),
    [V("sticky flag set by a helper, the test on the accumulated flag stays at the call", "keep", _R, _RAW_SEARCH_DEF,
       "    @staticmethod\n    def _note_timeout(meta, props):\n        meta[\"timed_out\"] = props.get(\"timed_out\")\n\n" + _RAW_SEARCH_DEF),
     V("", "keep", _R, "                    if not results[\"timed_out\"]:\n                        results[\"timed_out\"] = parsed.get(\"timed_out\")\n",
       "                    if not results[\"timed_out\"]:\n                        self._note_timeout(results, parsed)\n", count=2)],
    [V("flag set by a helper on every page: the last page decides", "break", _R, _RAW_SEARCH_DEF,
       "    @staticmethod\n    def _note_timeout(meta, props):\n        meta[\"timed_out\"] = props.get(\"timed_out\")\n\n" + _RAW_SEARCH_DEF, "O19.7"),
     V("", "break", _R, "                    if not results[\"timed_out\"]:\n                        results[\"timed_out\"] = parsed.get(\"timed_out\")\n",
       "                    self._note_timeout(results, parsed)\n", count=2)],
    V("pages / weight recorded with dict.update through a local bound once per page", "keep", _R, "                    results[\"pages\"] = page\n                    results[\"weight\"] = page\n",
      "                    pages_done = page\n                    results.update(pages=pages_done, weight=pages_done)\n", count=2),
    V("pages / weight recorded with dict.update: weight is the page limit", "break", _R, "                    results[\"pages\"] = page\n                    results[\"weight\"] = page\n",
      "                    results.update({\"pages\": page, \"weight\": total_pages})\n", "O19.6", count=2),
    V("b10 shape with pos= by keyword and the position read off span()", "keep", _R, _LAST_SORT_OLD,
      _b10(decode="last_sort_match.span(1)[0]").replace("search(response_str, index_of_last_sort)", "search(response_str, pos=index_of_last_sort)")),
    V("b10 shape broken: the start position clamped to 0 instead of the guard - still a scan of the whole response", "break", _R, _LAST_SORT_OLD,
      _b10(guard="").replace("search(response_str, index_of_last_sort)", "search(response_str, max(index_of_last_sort, 0))"), "O19.2"),
    _b9("b9 shape broken: the helper counts pages from zero", "break", "O19.6", swap=("        results[\"pages\"] = page\n", "        results[\"pages\"] = page - 1\n")),
    _b9("b9 shape broken: the caller hands the helper the number of the NEXT page", "break", "O19.6", call="                    self._record_page(results, parsed, page + 1, pit_op)\n"),
    _b9("b9 shape broken: the helper lets the last page decide timed_out", "break", "O19.7",
        swap=("        if not results[\"timed_out\"]:\n            results[\"timed_out\"] = parsed.get(\"timed_out\")\n", "        results[\"timed_out\"] = parsed.get(\"timed_out\")\n")),
    _b9("b9 shape broken: the helper keeps the last page's took instead of the sum", "break", "O19.7",
        swap=("        results[\"took\"] += parsed.get(\"took\")\n", "        results[\"took\"] = parsed.get(\"took\")\n")),
]

_TOTAL_LINE = "        parsed[\"hits.total.value\"] = parsed.pop(\"hits.total.value\", parsed.pop(\"hits.total\", hits_total))\n"
_REL_LINE = "        parsed[\"hits.total.relation\"] = parsed.get(\"hits.total.relation\", \"eq\")\n"
_CA_REL = _REL_LINE + "        parsed[\"after_key\"]"
_SA_REL = _REL_LINE + "\n        return parsed, self._get_last_sort(response)\n"
_CA_TOTAL = _TOTAL_LINE + _CA_REL
_SA_TOTAL = _TOTAL_LINE + _SA_REL

VARIANTS = [
    V("F17 guard dropped (harmless since F28: the finally removes the cursor on every exit) (search_after)", "keep", _R, "                if results.get(\"hits\") / size > page and page < total_pages:", "                if results.get(\"hits\") / size > page:", "O19.6"),
    V("F17 guard dropped (harmless since F28: the finally removes the cursor on every exit) (composite)", "keep", _R, "                if isinstance(after_key, dict) and page < total_pages:", "                if isinstance(after_key, dict):", "O19.6"),
    V("page limit test written the other way round", "keep", _R, "                if results.get(\"hits\") / size > page and page < total_pages:", "                if total_pages > page and results.get(\"hits\") / size > page:"),
    V("F9a: value cut out by a bracket character class", "break", _R, _NEW, "            return json.loads(re.search(r\"sort\\\":([^\\]]*])\", response_str[index_of_last_sort::]).group(1))", None),
    V("different failure predicate in the fast path", "break", _R, "                if data[\"status\"] > 299 or (\"_shards\" in data and data[\"_shards\"][\"failed\"] > 0):\n                    bulk_error_count += 1\n                    self.extract_error_details(error_details, data)\n                else:\n                    bulk_success_count += 1\n        stats = {\n            \"took\": props.get(\"took\"),",
      "                if data[\"status\"] > 299:\n                    bulk_error_count += 1\n                    self.extract_error_details(error_details, data)\n                else:\n                    bulk_success_count += 1\n        stats = {\n            \"took\": props.get(\"took\"),", "O19.1"),
    V("seed m1: shards test overwrites the status test", "break", _R,
      "            if data[\"status\"] > 299 or (\"_shards\" in data and data[\"_shards\"][\"failed\"] > 0):\n                bulk_error_count += 1\n                self.extract_error_details(error_details, data)\n            else:\n                bulk_success_count += 1\n        stats = {\n            \"took\": response.get(\"took\"),",
      "            failed = data[\"status\"] > 299\n            if \"_shards\" in data:\n                failed = data[\"_shards\"][\"failed\"] > 0\n            if failed:\n                bulk_error_count += 1\n                self.extract_error_details(error_details, data)\n            else:\n                bulk_success_count += 1\n        stats = {\n            \"took\": response.get(\"took\"),", "O19.1"),
    V("status >= 299", "break", _R, "            if data[\"status\"] > 299 or (\"_shards\" in data and data[\"_shards\"][\"failed\"] > 0):\n                bulk_error_count += 1", "            if data[\"status\"] >= 299 or (\"_shards\" in data and data[\"_shards\"][\"failed\"] > 0):\n                bulk_error_count += 1", "O19.1"),
    V("success from took", "break", _R, "            \"took\": props.get(\"took\"),\n            \"success\": bulk_error_count == 0,", "            \"took\": props.get(\"took\"),\n            \"success\": props.get(\"took\") is not None,", "O19.1"),
    V("seed m2: byte offset on the decoded string", "break", _R, "        response_str = response.getvalue().decode(\"UTF-8\")\n        index_of_last_sort = response_str.rfind('\"sort\"')", "        raw = response.getvalue()\n        index_of_last_sort = raw.rfind(b'\"sort\"')\n        response_str = raw.decode(\"UTF-8\")", "O19.2"),
    V("seed m3: member key by last dot", "break", _R, "                current_object[prefix[len(in_object) + 1 :]] = value", "                current_object[prefix.split(\".\")[-1]] = value", "O19.3"),
    V("match on value instead of prefix", "break", _R, "            if prefix in props:\n                parsed[prefix] = value", "            if event == \"map_key\" and value in props:\n                parsed[value] = value", "O19.3"),
    V("early exit on properties only", "break", _R, "                len(parsed) == len(props)\n                and (lists is None or len(parsed_lists) == len(lists))\n                and (objects is None or len(parsed_objects) == len(objects))", "                len(parsed) == len(props)", "O19.3"),
    V("cursor from the request body instead of the response", "break", _R, "                    body[\"search_after\"] = last_sort", "                    body[\"search_after\"] = body.get(\"search_after\", last_sort)", "O19.6"),
    V("composite after key from the previous page", "break", _R, "                    after_key = parsed[\"after_key\"]\n                    if isinstance(after_key, dict) and", "                    after_key = composite_agg_body.get(\"after\") or parsed[\"after_key\"]\n                    if isinstance(after_key, dict) and", "O19.6"),
    # F28: un-mutation of the shared body on every exit
    V("F28: finally no longer removes the search_after cursor", "break", _R,
      "                # also when a page request fails: the same body is handed out again for the next iteration\n                for item in [\"pit\", \"search_after\"]:\n                    body.pop(item, None)\n",
      "                # also when a page request fails: the same body is handed out again for the next iteration\n                for item in [\"pit\"]:\n                    body.pop(item, None)\n", "O19.6"),
    V("F28: finally no longer removes the composite after key", "break", _R,
      "            finally:\n                body.pop(\"pit\", None)\n                if composite_agg_body:\n                    composite_agg_body.pop(\"after\", None)\n",
      "            finally:\n                body.pop(\"pit\", None)\n", "O19.6"),
    V("F28: cursor removed only when the failure is a Rally error", "break", _R,
      "            finally:\n                body.pop(\"pit\", None)\n                if composite_agg_body:\n                    composite_agg_body.pop(\"after\", None)\n",
      "            except exceptions.RallyError:\n                body.pop(\"pit\", None)\n                if composite_agg_body:\n                    composite_agg_body.pop(\"after\", None)\n                raise\n", "O19.6"),
    V("F28 respelled: explicit pops instead of the loop over the keys", "keep", _R,
      "                # also when a page request fails: the same body is handed out again for the next iteration\n                for item in [\"pit\", \"search_after\"]:\n                    body.pop(item, None)\n",
      "                body.pop(\"search_after\", None)\n                body.pop(\"pit\", None)\n"),
    V("F28 respelled: composite clean-up guarded by `is not None` and a membership test", "keep", _R,
      "            finally:\n                body.pop(\"pit\", None)\n                if composite_agg_body:\n                    composite_agg_body.pop(\"after\", None)\n",
      "            finally:\n                if composite_agg_body is not None and \"after\" in composite_agg_body:\n                    del composite_agg_body[\"after\"]\n                body.pop(\"pit\", None)\n"),
    # F29: ordering of the (status, reason) details
    V("F29: details sorted without a key", "break", _R, "enumerate(sorted(error_details, key=lambda d: (d[0], d[1] is not None, d[1] or \"\"))):", "enumerate(sorted(error_details)):", "O19.9"),
    V("F29: key still compares the raw reason", "break", _R, "key=lambda d: (d[0], d[1] is not None, d[1] or \"\")", "key=lambda d: (d[0], d[1])", "O19.9"),
    V("F29 respelled: key as a nested function, other parameter name", "keep", _R,
      "        for count, error_detail in enumerate(sorted(error_details, key=lambda d: (d[0], d[1] is not None, d[1] or \"\"))):",
      "        def by_status_then_reason(detail):\n            return detail[0], detail[1] is not None, detail[1] or \"\"\n\n        ordered = sorted(error_details, key=by_status_then_reason)\n        for count, error_detail in enumerate(ordered):"),
    [V("F29 repaired the other way: the reason is normalised to text when the detail is recorded, plain sorted()", "keep", _R,
       "            error_details.add((data[\"status\"], None))\n", "            error_details.add((data[\"status\"], \"\"))\n"),
     V("", "keep", _R, "error_reason = error_data.get(\"reason\") if isinstance(error_data, dict) else str(error_data)",
       "error_reason = (error_data.get(\"reason\") or \"\") if isinstance(error_data, dict) else str(error_data)"),
     V("", "keep", _R, "enumerate(sorted(error_details, key=lambda d: (d[0], d[1] is not None, d[1] or \"\"))):", "enumerate(sorted(error_details)):")],
    [V("F29 half repaired the other way: a missing error object is normalised, `reason: null` is not", "break", _R,
       "            error_details.add((data[\"status\"], None))\n", "            error_details.add((data[\"status\"], \"\"))\n", "O19.9"),
     V("", "break", _R, "enumerate(sorted(error_details, key=lambda d: (d[0], d[1] is not None, d[1] or \"\"))):", "enumerate(sorted(error_details)):")],
    # F30: white space around the colon of the sort member
    V("F30: white space before the colon not accepted", "break", _R, "re.compile(r\"sort\\\"\\s*:\\s*(\\[)\")", "re.compile(r\"sort\\\":\\s*(\\[)\")", "O19.2"),
    V("F30: group 1 opens before the white space", "break", _R, "re.compile(r\"sort\\\"\\s*:\\s*(\\[)\")", "re.compile(r\"sort\\\"\\s*:(\\s*\\[)\")", "O19.2"),
    V("F30 respelled: the pattern is searched through the compiled object", "keep", _R, "re.search(self.sort_pattern, response_str[index_of_last_sort::])",
      "self.sort_pattern.search(response_str[index_of_last_sort::])"),
    V("F30 respelled: explicit JSON white space class", "keep", _R,
      "re.compile(r\"sort\\\"\\s*:\\s*(\\[)\")", "re.compile(r'sort\"[ \\t\\r\\n]*:[ \\t\\r\\n]*(\\[)')"),
    [V("F30 respelled: the decoder offset is the end of the match (lookahead instead of a group)", "keep", _R, "re.compile(r\"sort\\\"\\s*:\\s*(\\[)\")", "re.compile(r\"sort\\\"\\s*:\\s*(?=\\[)\")"),
     V("", "keep", _R, "last_sort_str.start(1)", "last_sort_str.end()")],
    # ---- refactored shapes (benign round 2): each accepted shape comes with the property broken INSIDE that shape ----
    # b1: the item predicate is a static method used by both paths
    [V("b1 shape: item predicate extracted into a static method used by both paths", "keep", _R, "    def detailed_stats(self, params, response):\n",
       "    @staticmethod\n    def _item_failed(data):\n        \"\"\"True iff the item has failed.\"\"\"\n        return data[\"status\"] > 299 or (\"_shards\" in data and data[\"_shards\"][\"failed\"] > 0)\n\n    def detailed_stats(self, params, response):\n"),
     V("", "keep", _R, _PRED_IF, "if self._item_failed(data):", count=2)],
    [V("b1 shape, predicate written with guard clauses and a local", "keep", _R, "    def detailed_stats(self, params, response):\n",
       "    @staticmethod\n    def _item_failed(data):\n        if data[\"status\"] > 299:\n            return True\n        shards = data.get(\"_shards\")\n        if shards is None:\n            return False\n        return shards[\"failed\"] > 0\n\n    def detailed_stats(self, params, response):\n"),
     V("", "keep", _R, _PRED_IF, "if self._item_failed(data):", count=2)],
    [V("b1 shape broken: the extracted predicate tolerates one failed shard", "break", _R, "    def detailed_stats(self, params, response):\n",
       "    @staticmethod\n    def _item_failed(data):\n        return data[\"status\"] > 299 or (\"_shards\" in data and data[\"_shards\"][\"failed\"] > 1)\n\n    def detailed_stats(self, params, response):\n", "O19.1"),
     V("", "break", _R, _PRED_IF, "if self._item_failed(data):", count=2)],
    [V("b1 shape broken: only the fast path uses the extracted predicate, which forgets the status", "break", _R, "    def detailed_stats(self, params, response):\n",
       "    @staticmethod\n    def _item_failed(data):\n        return \"_shards\" in data and data[\"_shards\"][\"failed\"] > 0\n\n    def detailed_stats(self, params, response):\n", "O19.1"),
     V("", "break", _R, "                " + _PRED_IF, "                if self._item_failed(data):")],
    # the whole recount of the fast path moved into a helper that returns both counters
    [V("recount of the fast path extracted into a helper returning (successes, errors)", "keep", _R, "    def extract_error_details(self, error_details, data):\n", _COUNT_HELPER + "    def extract_error_details(self, error_details, data):\n"),
     V("", "keep", _R, _SIMPLE_LOOP, "            bulk_success_count, bulk_error_count = self._count_items(parsed_response[\"items\"], error_details)\n")],
    [V("recount helper broken: every inspected item is also counted as succeeded", "break", _R, "    def extract_error_details(self, error_details, data):\n",
       _COUNT_HELPER.replace("            else:\n                successes += 1\n", "            successes += 1\n") + "    def extract_error_details(self, error_details, data):\n", "O19.1"),
     V("", "break", _R, _SIMPLE_LOOP, "            bulk_success_count, bulk_error_count = self._count_items(parsed_response[\"items\"], error_details)\n")],
    # b2: hash lookups and hoisted invariants in parse()
    _B2_SHAPE("b2 shape: parse() with frozenset lookups, event test first, hoisted lengths", "keep"),
    _B2_SHAPE("b2 shape broken: the hoisted object count is never set, the scan stops before a requested object is complete", "break", rule="O19.3",
              swap=("    expected_objects = len(objects) if objects is not None else None\n", "    expected_objects = None\n")),
    _B2_SHAPE("b2 shape broken: the lookup set holds the leaf names of the requested properties", "break", rule="O19.3",
              swap=("    wanted_props = frozenset(props)\n", "    wanted_props = frozenset(p.rsplit(\".\", 1)[-1] for p in props)\n"), swap2=("            if prefix in wanted_props:\n", "            if prefix.rsplit(\".\", 1)[-1] in wanted_props:\n")),
    # b3: assignment expression, early return, compiled pattern's own search
    V("b3 shape: walrus + early return + pattern.search in _get_last_sort", "keep", _R, _LAST_SORT_OLD,
      "        last_sort_key = response_str.rfind('\"sort\"')\n        if (sort_match := self.sort_pattern.search(response_str[last_sort_key::])) is None:\n            return None\n"
      "        last_sort, _ = self.decoder.raw_decode(response_str, last_sort_key + sort_match.start(1))\n        return last_sort\n"),
    V("b3 shape broken: decoder offset is the start of the whole match", "break", _R, _LAST_SORT_OLD,
      "        last_sort_key = response_str.rfind('\"sort\"')\n        if (sort_match := self.sort_pattern.search(response_str[last_sort_key::])) is None:\n            return None\n"
      "        last_sort, _ = self.decoder.raw_decode(response_str, last_sort_key + sort_match.start())\n        return last_sort\n", "O19.2"),
    # F28 clean-up extracted into a helper method
    [V("F28 clean-up extracted into a helper method of Query", "keep", _R, "    async def _raw_search(self, es, doc_type, index, body, params, headers=None):\n",
       "    @staticmethod\n    def _forget_page_state(body):\n        for item in [\"pit\", \"search_after\"]:\n            body.pop(item, None)\n\n    async def _raw_search(self, es, doc_type, index, body, params, headers=None):\n"),
     V("", "keep", _R, _F28_FINALLY, "                self._forget_page_state(body)\n")],
    [V("F28 clean-up helper broken: it forgets only the point in time", "break", _R, "    async def _raw_search(self, es, doc_type, index, body, params, headers=None):\n",
       "    @staticmethod\n    def _forget_page_state(body):\n        for item in [\"pit\"]:\n            body.pop(item, None)\n\n    async def _raw_search(self, es, doc_type, index, body, params, headers=None):\n", "O19.6"),
     V("", "break", _R, _F28_FINALLY, "                self._forget_page_state(body)\n")],
    # extractor called with keyword arguments; UTF-8 spelled differently / left to the default
    V("response handed to the extractor by keyword", "keep", _R, "self._search_after_extractor(\n                        response,\n                        bool(pit_op),\n",
      "self._search_after_extractor(\n                        get_point_in_time=bool(pit_op),\n                        response=response,\n                        hits_total="),
    V("the previous page's response handed to the extractor", "break", _R, "self._search_after_extractor(\n                        response,\n                        bool(pit_op),\n",
      "self._search_after_extractor(\n                        previous_response if page > 1 else response,\n                        bool(pit_op),\n", "O19.6"),
    V("codec spelled utf8", "keep", _R, "response.getvalue().decode(\"UTF-8\")", "response.getvalue().decode(\"utf8\")"),
    V("codec latin-1", "break", _R, "response.getvalue().decode(\"UTF-8\")", "response.getvalue().decode(\"latin-1\")", "O19.2"),
    # the body is deep-copied per invocation instead of being un-mutated: nothing has to be removed from the copy
    [V("private deep copy of the body per invocation, clean-up in the finally dropped", "keep", _R, "        index = mandatory(params, \"index\", self)\n        body = mandatory(params, \"body\", self)\n        operation_type = params.get(\"operation-type\")\n",
       "        index = mandatory(params, \"index\", self)\n        body = copy.deepcopy(mandatory(params, \"body\", self))\n        operation_type = params.get(\"operation-type\")\n"),
     V("", "keep", _R, _F28_FINALLY, "                pass\n"),
     V("", "keep", _R, "            finally:\n                body.pop(\"pit\", None)\n                if composite_agg_body:\n                    composite_agg_body.pop(\"after\", None)\n", "            finally:\n                pass\n")],
    [V("shallow copy of the body: the nested composite aggregation is still the shared one", "break", _R, "        index = mandatory(params, \"index\", self)\n        body = mandatory(params, \"body\", self)\n        operation_type = params.get(\"operation-type\")\n",
       "        index = mandatory(params, \"index\", self)\n        body = dict(mandatory(params, \"body\", self))\n        operation_type = params.get(\"operation-type\")\n", "O19.6"),
     V("", "break", _R, "            finally:\n                body.pop(\"pit\", None)\n                if composite_agg_body:\n                    composite_agg_body.pop(\"after\", None)\n", "            finally:\n                pass\n")],
    # the rewind of the response
    V("rewind of the response removed", "break", _R, "    text.seek(0)\n    parser = ijson.parse(text)\n", "    parser = ijson.parse(text)\n", "O19.3"),
    V("position-independent read instead of the rewind", "keep", _R, "    text.seek(0)\n    parser = ijson.parse(text)\n", "    parser = ijson.parse(BytesIO(text.getvalue()))\n"),
    V("rewind through an alias of the parameter", "keep", _R, "    text.seek(0)\n    parser = ijson.parse(text)\n", "    stream = text\n    stream.seek(0)\n    parser = ijson.parse(stream)\n"),
    # O19.7 on values: with the accumulated flag true the assigned value is true whatever the page reports
    V("sticky flag as a guarded assignment of True", "keep", _R, "                        timed_out = timed_out or props.get(\"timed_out\", False)\n",
      "                        if props.get(\"timed_out\", False):\n                            timed_out = True\n"),
    V("sticky flag as a conditional expression", "keep", _R, "                        timed_out = timed_out or props.get(\"timed_out\", False)\n",
      "                        timed_out = True if timed_out else bool(props.get(\"timed_out\", False))\n"),
    V("flag accumulated with `and`: a later page turns it off", "break", _R, "                        timed_out = timed_out or props.get(\"timed_out\", False)\n",
      "                        timed_out = timed_out and props.get(\"timed_out\", False)\n", "O19.7"),
    # ---- refactored shapes (benign round 3) ----
    # b7: the selective parse sits in a helper that returns its result; the reads stay in the page loop (O19.8 follows the value, not the spelling `x = parse(..)`)
    *_B7_SHAPES,
    # b8: the error details are a small record type; counting with collections.Counter (O19.9 evaluates the construction and the Counter on values)
    *_B8_SHAPES,
    # b9 / b10 (benign round 4): page accounting in helpers (O19.6 / O19.7 follow the stores into the helper the loop calls); in-place scan of _get_last_sort (O19.2 on values)
    *_B9_B10_SHAPES,
    # O19.10: the standardisation of the hit total in the paginated extractors, on values (seed m16: a total of 0 taken for "no total found")
    V("seed m16: composite hit total chosen by truthiness (`or`) instead of presence", "break", _R, _CA_TOTAL,
      "        total = parsed.pop(\"hits.total\", hits_total)\n        parsed[\"hits.total.value\"] = parsed.pop(\"hits.total.value\", None) or total\n" + _CA_REL, "O19.10"),
    V("search_after hit total chosen by truthiness", "break", _R, _SA_TOTAL,
      "        parsed[\"hits.total.value\"] = parsed.pop(\"hits.total.value\", None) or parsed.pop(\"hits.total\", hits_total)\n" + _SA_REL, "O19.10"),
    V("composite hit total: the object-shaped total's own key wins over its value", "break", _R, _CA_TOTAL,
      "        parsed[\"hits.total.value\"] = parsed.pop(\"hits.total\", parsed.pop(\"hits.total.value\", hits_total))\n" + _CA_REL, "O19.10"),
    V("composite hit total: conditional on the value's truthiness", "break", _R, _CA_TOTAL,
      "        value = parsed.pop(\"hits.total.value\", None)\n        fallback = parsed.pop(\"hits.total\", hits_total)\n        parsed[\"hits.total.value\"] = value if value else fallback\n" + _CA_REL, "O19.10"),
    V("composite relation: a lower bound reported as exact", "break", _R, _CA_TOTAL, _CA_TOTAL.replace("parsed.get(\"hits.total.relation\", \"eq\")", "\"eq\""), "O19.10"),
    V("composite cursor dropped when a member is falsy", "break", _R, "        parsed[\"after_key\"] = parsed.pop(after_key, None)\n",
      "        cursor = parsed.pop(after_key, None)\n        parsed[\"after_key\"] = cursor if cursor and all(cursor.values()) else None\n", "O19.10"),
    V("composite hit total unrolled, still by presence", "keep", _R, _CA_TOTAL,
      "        total = parsed.pop(\"hits.total\", hits_total)\n        parsed[\"hits.total.value\"] = parsed.pop(\"hits.total.value\", total)\n" + _CA_REL),
    V("composite hit total: fallback unless a value was found (is None)", "keep", _R, _CA_TOTAL,
      "        fallback = parsed.pop(\"hits.total\", hits_total)\n        value = parsed.pop(\"hits.total.value\", None)\n        parsed[\"hits.total.value\"] = fallback if value is None else value\n" + _CA_REL),
    V("search_after hit total by membership test", "keep", _R, _SA_TOTAL,
      "        legacy_total = parsed.pop(\"hits.total\", hits_total)\n        if \"hits.total.value\" not in parsed:\n            parsed[\"hits.total.value\"] = legacy_total\n"
      "        if \"hits.total.relation\" not in parsed:\n            parsed[\"hits.total.relation\"] = \"eq\"\n\n        return parsed, self._get_last_sort(response)\n"),
    [V("standardisation of the totals in a helper shared by both extractors", "keep", _R, "class SearchAfterExtractor:\n",
       "def _standardize_totals(props, known_total):\n    legacy = props.pop(\"hits.total\", known_total)\n    props[\"hits.total.value\"] = props.pop(\"hits.total.value\", legacy)\n"
       "    props.setdefault(\"hits.total.relation\", \"eq\")\n    return props\n\n\nclass SearchAfterExtractor:\n"),
     V("", "keep", _R, _SA_TOTAL, "        parsed = _standardize_totals(parsed, hits_total)\n\n        return parsed, self._get_last_sort(response)\n"),
     V("", "keep", _R, _CA_TOTAL, "        _standardize_totals(parsed, hits_total)\n        parsed[\"after_key\"]")],
    [V("shared helper that tests truthiness", "break", _R, "class SearchAfterExtractor:\n",
       "def _standardize_totals(props, known_total):\n    legacy = props.pop(\"hits.total\", known_total)\n    props[\"hits.total.value\"] = props.pop(\"hits.total.value\", None) or legacy\n"
       "    props.setdefault(\"hits.total.relation\", \"eq\")\n    return props\n\n\nclass SearchAfterExtractor:\n", "O19.10"),
     V("", "break", _R, _SA_TOTAL, "        parsed = _standardize_totals(parsed, hits_total)\n\n        return parsed, self._get_last_sort(response)\n"),
     V("", "break", _R, _CA_TOTAL, "        _standardize_totals(parsed, hits_total)\n        parsed[\"after_key\"]")],
    # preserving
    V("predicate extracted into a local", "keep", _R, "                if data[\"status\"] > 299 or (\"_shards\" in data and data[\"_shards\"][\"failed\"] > 0):\n                    bulk_error_count += 1\n                    self.extract_error_details(error_details, data)\n                else:\n                    bulk_success_count += 1\n        stats = {\n            \"took\": props.get(\"took\"),",
      "                failed = data[\"status\"] > 299 or (\"_shards\" in data and data[\"_shards\"][\"failed\"] > 0)\n                if failed:\n                    bulk_error_count += 1\n                    self.extract_error_details(error_details, data)\n                else:\n                    bulk_success_count += 1\n        stats = {\n            \"took\": props.get(\"took\"),"),
    V("shards test first", "keep", _R, "            if data[\"status\"] > 299 or (\"_shards\" in data and data[\"_shards\"][\"failed\"] > 0):\n                bulk_error_count += 1", "            if (\"_shards\" in data and data[\"_shards\"][\"failed\"] > 0) or data[\"status\"] > 299:\n                bulk_error_count += 1"),
]
