"""C19 — fast-path response parsing agrees with full JSON parsing (DESIGN.md section 4, C19)."""
from __future__ import annotations

import ast
import copy
import itertools
import re._parser as sre_parse  # regex ASTs (stdlib)

from sa import source
from sa.cfg import cfg_of, guards
from sa.minieval import CannotEval, ev
from sa.source import AnchorMissing, dotted, is_self_attr, last_attr, local_defs, params_of, short, u, walk_body
from sa.sym import UnknownAtom, atoms_of
from sa.tables import Outcome, Unsupported, decide

_R = "esrally/driver/runner.py"

# representative bulk items: status x _shards
ITEMS = []
for status in (200, 201, 299, 300, 404, 409, 429):
    for shards in ("absent", 0, 1):
        d = {"_index": "i", "_id": "1", "status": status}
        if shards != "absent":
            d["_shards"] = {"total": 2, "successful": 2 - shards, "failed": shards}
        if status > 299:
            d["error"] = {"type": "x", "reason": "r"}
        ITEMS.append(d)
# failing items WITHOUT an error object (delete of a missing document: 404 / result not_found) and a successful item that carries one anyway
ITEMS.append({"_index": "i", "_id": "1", "status": 404, "result": "not_found", "_shards": {"total": 2, "successful": 2, "failed": 0}})
ITEMS.append({"_index": "i", "_id": "1", "status": 404, "result": "not_found"})
ITEMS.append({"_index": "i", "_id": "1", "status": 200, "result": "noop", "error": None, "_shards": {"total": 2, "successful": 2, "failed": 0}})


def structural_class_groups(pattern: str):
    """capture groups whose content is delimited by a negated character class over JSON-structural characters."""
    out = []
    try:
        tree = sre_parse.parse(pattern)
    except Exception:
        return None

    def walk(items, in_group=None):
        for op, av in items:
            name = str(op)
            if name == "SUBPATTERN":
                gid, _, _, sub = av
                walk(sub, gid if gid is not None else in_group)
            elif name in ("MAX_REPEAT", "MIN_REPEAT", "POSSESSIVE_REPEAT"):
                walk(av[2], in_group)
            elif name == "BRANCH":
                for b in av[1]:
                    walk(b, in_group)
            elif name == "IN" and in_group is not None:
                neg = any(str(o) == "NEGATE" for o, _ in av)
                lits = {chr(v) for o, v in av if str(o) == "LITERAL"}
                if neg and lits & set(']}",'):
                    out.append((in_group, sorted(lits)))
            elif name == "NOT_LITERAL" and in_group is not None and chr(av) in ']}",':
                out.append((in_group, [chr(av)]))

    walk(tree)
    return out


def has_const(node, value) -> bool:
    """the literal `value` (a dict key / message text: a stable anchor) occurs in the expression — local variable names do not count."""
    return node is not None and any(isinstance(x, ast.Constant) and type(x.value) is type(value) and x.value == value for x in ast.walk(node))


def loads_of(node) -> set:
    return {x.id for x in ast.walk(node) if isinstance(x, ast.Name) and isinstance(x.ctx, ast.Load)} if node is not None else set()


def stores_of(node) -> set:
    return {x.id for x in ast.walk(node) if isinstance(x, ast.Name) and isinstance(x.ctx, ast.Store)} if node is not None else set()


def root_name(node):
    while isinstance(node, (ast.Subscript, ast.Attribute)):
        node = node.value
    return node.id if isinstance(node, ast.Name) else None


def xev(e: ast.AST, env: dict):
    """minieval.ev plus the string operations the parsers use to build paths / keys: str + str, sep.join(list), s.removeprefix(p), s[a:b], str(x) / repr(x) of a scalar or None.
    Sub-expressions of these kinds are evaluated bottom-up on a fresh copy and replaced by their value; everything else is left to ev()."""

    class T(ast.NodeTransformer):
        def visit(self, n):
            n = self.generic_visit(n)
            try:
                if isinstance(n, ast.BinOp) and isinstance(n.op, ast.Add):
                    a, b = ev(n.left, env), ev(n.right, env)
                    if (isinstance(a, str) and isinstance(b, str)) or (isinstance(a, list) and isinstance(b, list)):
                        return ast.Constant(value=a + b)
                elif isinstance(n, ast.Call) and isinstance(n.func, ast.Attribute) and n.func.attr == "join" and len(n.args) == 1 and not n.keywords:
                    sep, parts = ev(n.func.value, env), ev(n.args[0], env)
                    if isinstance(sep, str) and isinstance(parts, (list, tuple)) and all(isinstance(x, str) for x in parts):
                        return ast.Constant(value=sep.join(parts))
                elif isinstance(n, ast.Call) and isinstance(n.func, ast.Attribute) and n.func.attr == "removeprefix" and len(n.args) == 1 and not n.keywords:
                    s_, p_ = ev(n.func.value, env), ev(n.args[0], env)
                    if isinstance(s_, str) and isinstance(p_, str):
                        return ast.Constant(value=s_.removeprefix(p_))
                elif isinstance(n, ast.Call) and isinstance(n.func, ast.Name) and n.func.id in ("str", "repr") and len(n.args) == 1 and not n.keywords:
                    v_ = ev(n.args[0], env)
                    if v_ is None or isinstance(v_, (bool, int, float, str)):
                        return ast.Constant(value=str(v_) if n.func.id == "str" else repr(v_))
                elif isinstance(n, ast.Subscript) and isinstance(n.slice, ast.Slice):
                    base = ev(n.value, env)
                    lo, hi, st = [ev(x, env) if x is not None else None for x in (n.slice.lower, n.slice.upper, n.slice.step)]
                    if isinstance(base, (str, list)) and all(x is None or (isinstance(x, int) and not isinstance(x, bool)) for x in (lo, hi, st)) and st != 0:
                        return ast.Constant(value=base[lo:hi:st])
            except (CannotEval, TypeError):
                pass
            return n

    try:
        return ev(T().visit(source.clone(e)), env)
    except TypeError as x:  # e.g. len(None): the extracted expression would raise on this value
        raise CannotEval(f"{u(e)[:60]}: {x}")


def run(chk):
    repo = chk.repo
    rn = repo.module(_R)
    chk.use(rn)
    chk.explanation = (
        "Decides agreement of sibling fast/slow paths and the shape of textual extraction: the bulk item loop of the detailed and of the fast path abstractly interpreted over 21 "
        "representative items (status x _shards) must classify each item as failed iff status > 299 or _shards.failed > 0, identically in both; success == (error count == 0) in both; "
        "no JSON value's end is delimited by a regex character class / find on a structural character (regex AST query) and offsets found in one text are only applied to that same text; "
        "the selective parser matches on full ijson prefixes, derives member keys by stripping the object's own path, and exits early only when everything requested was seen. "
        "Orderings over the collected (status, reason) error details are evaluated over the details the extraction produces for representative failed items and must be total (F29); "
        "the pattern, locator literal and decoder offset of the cursor search are evaluated on seven spellings of the member (white space around the colon) and must point at the "
        "value's opening bracket (F30); once a cursor is stored in the shared body, every path to ANY exit of the page function (exception edges included) removes it again (F28). "
        "Known findings: fast-path gate does not summarise the _shards.failed disjunct (F10; also hides a 404 not_found delete item); the cursor key is located by a "
        "nesting-insensitive text search (F9b)."
    )
    chk.not_decided = "equivalence on all JSON texts, hit/page accounting arithmetic, ijson's own behaviour."
    BI = rn.cls("BulkIndex")
    bm = rn.methods(BI)
    det, simp = bm.get("detailed_stats"), bm.get("simple_stats")
    if det is None or simp is None:
        raise AnchorMissing("BulkIndex.detailed_stats / simple_stats")

    # ---- O19.1 sibling agreement on the item predicate -----------------------------------------------------------------------------------------
    chk.rule("O19.1", "in both the detailed and the fast path every bulk item is counted as failed iff status > 299 or _shards.failed > 0 (21 representative items), as succeeded otherwise; "
             "success == (error count == 0); error details extracted for failed items", 44,
             "a bulk response with that item: success/error counts differ between the two paths and from a full parse")

    def item_loop(f):
        for n in walk_body(f):
            if isinstance(n, ast.For) and isinstance(n.iter, ast.Subscript) and source.is_const(n.iter.slice, "items"):
                return n
        raise AnchorMissing(f"loop over response['items'] in {f.name}")

    def counter_names(f):
        """(error counter, success counter): the locals reported under 'error-count' / 'success-count'."""
        for n in walk_body(f):
            if isinstance(n, ast.Dict):
                d = {k.value: v for k, v in zip(n.keys, n.values) if isinstance(k, ast.Constant)}
                if isinstance(d.get("error-count"), ast.Name) and isinstance(d.get("success-count"), ast.Name):
                    return d["error-count"].id, d["success-count"].id
        raise AnchorMissing(f"result dict with error-count / success-count in {f.name}")

    from sa import pat as _pat
    from sa.classes import is_logging_stmt

    def bound_by(s):
        """names a statement (re)binds or updates in place: plain / tuple targets, and the root of a subscript / attribute target."""
        tg = s.targets if isinstance(s, ast.Assign) else ([s.target] if isinstance(s, (ast.AugAssign, ast.AnnAssign)) else [])
        out = set()
        for t in tg:
            out |= stores_of(t)
            if isinstance(t, (ast.Subscript, ast.Attribute)) and root_name(t):
                out.add(root_name(t))
        return out

    tables = {}
    for f in (det, simp):
        L = item_loop(f)
        if not isinstance(L.target, ast.Name):
            raise AnchorMissing(f"loop variable of the item loop in {f.name}")
        itemv = L.target.id
        ERRC, OKC = counter_names(f)

        def counter_hit(s, ERRC=ERRC, OKC=OKC):
            """('err' | 'ok', k) when the statement adds the constant k to the error / success counter (the locals reported under error-count / success-count)."""
            c = k = None
            if isinstance(s, ast.AugAssign) and isinstance(s.target, ast.Name) and isinstance(s.op, ast.Add):
                c, k = s.target.id, s.value
            elif isinstance(s, ast.Assign) and len(s.targets) == 1 and isinstance(s.targets[0], ast.Name):
                b_ = _pat.match(s.value, "V_c + E_k", binds={"c": s.targets[0].id}) or _pat.match(s.value, "E_k + V_c", binds={"c": s.targets[0].id})
                if b_ is not None:
                    c, k = s.targets[0].id, (s.value.right if isinstance(s.value.left, ast.Name) and s.value.left.id == s.targets[0].id else s.value.left)
            if c not in (ERRC, OKC) or not isinstance(k, ast.Constant) or type(k.value) is not int:
                return None
            return ("err" if c == ERRC else "ok", k.value)

        def is_details(s):
            return isinstance(s, ast.Expr) and isinstance(s.value, ast.Call) and last_attr(s.value.func) == "extract_error_details"

        # backward slice of the classification: the names the counting decision depends on (by data flow and control dependence), instead of guessing relevance from variable names
        body_stmts = [n for st_ in L.body for n in source.walk_local(st_) if isinstance(n, ast.stmt)]
        rel: set = set()

        def touches(s, rel=rel, counter_hit=counter_hit, is_details=is_details):
            return any(isinstance(x, ast.stmt) and (counter_hit(x) or is_details(x) or bound_by(x) & rel) for x in source.walk_local(s))

        changed = True
        while changed:
            changed = False
            for s_ in body_stmts:
                if isinstance(s_, ast.If) and touches(s_):
                    need = loads_of(s_.test)
                elif isinstance(s_, (ast.Assign, ast.AugAssign, ast.AnnAssign)) and not counter_hit(s_) and bound_by(s_) & rel:
                    need = loads_of(s_)
                else:
                    continue
                if not need <= rel:
                    rel |= need
                    changed = True

        def classify(item, L=L, itemv=itemv, ERRC=ERRC, OKC=OKC, rel=rel, counter_hit=counter_hit, is_details=is_details, touches=touches):
            env = {itemv: {"index": copy.deepcopy(item)}}
            counters = {"err": 0, "ok": 0, "details": 0}

            def run_block(stmts):
                for s in stmts:
                    hit = counter_hit(s)
                    if hit:
                        counters[hit[0]] += hit[1]
                    elif is_details(s):
                        counters["details"] += 1
                    elif isinstance(s, ast.Pass) or is_logging_stmt(s):
                        continue
                    elif isinstance(s, (ast.Assign, ast.AugAssign, ast.AnnAssign)):
                        b_ = bound_by(s)
                        if b_ & {ERRC, OKC}:
                            raise CannotEval(f"counter updated by something other than +1 at line {s.lineno}")
                        if not b_ & rel:
                            for x in b_:
                                env.pop(x, None)  # the classification does not depend on it
                            continue
                        if not isinstance(s, ast.Assign) or len(s.targets) != 1 or not isinstance(s.targets[0], (ast.Name, ast.Tuple, ast.Subscript)) or (
                                isinstance(s.targets[0], ast.Tuple) and not all(isinstance(x, ast.Name) for x in s.targets[0].elts)):
                            raise CannotEval(f"update of a value the item classification depends on: {short(s, 60)} at line {s.lineno}")
                        t = s.targets[0]
                        val = ev(s.value, env)
                        if isinstance(t, ast.Name):
                            env[t.id] = val
                        elif isinstance(t, ast.Subscript):
                            # in-place update of (a part of) the item: applied to this run's private copy
                            box, key_ = ev(t.value, env), ev(t.slice, env)
                            if not isinstance(box, dict) or isinstance(key_, (dict, list, set)):
                                raise CannotEval(f"in-place update {short(s, 60)} at line {s.lineno}")
                            box[key_] = val
                        else:
                            if not isinstance(val, (list, tuple)) or len(val) != len(t.elts):
                                raise CannotEval(f"unpacking {short(s, 60)} at line {s.lineno}")
                            for x, v in zip(t.elts, val):
                                env[x.id] = v
                    elif isinstance(s, ast.If):
                        if not touches(s):
                            continue
                        run_block(s.body if ev(s.test, env) else s.orelse)
                    elif isinstance(s, ast.Expr):
                        continue
                    else:
                        raise CannotEval(f"statement {type(s).__name__} at line {s.lineno}")

            run_block(L.body)
            return counters

        rows = []
        for item in ITEMS:
            inst = f"{f.name}: item status={item['status']} _shards={'absent' if '_shards' not in item else 'failed=' + str(item['_shards']['failed'])}" + \
                ("" if ("error" in item) == (item["status"] > 299) else (" without error object" if "error" not in item else " with error: null"))
            want_fail = item["status"] > 299 or ("_shards" in item and item["_shards"]["failed"] > 0)
            try:
                c = classify(item)
            except (CannotEval, TypeError) as e:
                msg_ = f"item loop of {f.name} cannot be interpreted over the item domain: {e}"
                if not any(msg_ in m_ for m_ in chk.inconclusive):
                    chk.unknown("O19.1", msg_, L)
                rows.append(None)
                continue
            got = "failed" if (c["err"], c["ok"]) == (1, 0) else ("succeeded" if (c["err"], c["ok"]) == (0, 1) else f"err+={c['err']} ok+={c['ok']}")
            rows.append(got)
            ok = got == ("failed" if want_fail else "succeeded") and (not want_fail or c["details"] == 1)
            chk.ob("O19.1", inst, ok, L, f"counted as {got}" + (f", error details extracted {c['details']}x" if want_fail else "") + f"; full parse: {'failed' if want_fail else 'succeeded'}",
                   key=f"{_R}:BulkIndex.{f.name}:item:{item['status']}|{'absent' if '_shards' not in item else item['_shards']['failed']}" + ("" if ("error" in item) == (item["status"] > 299) else "|odd-error"))
        tables[f.name] = rows
    chk.ob("O19.1", "detailed and fast path agree on every representative item", tables.get("detailed_stats") == tables.get("simple_stats"), det, "")
    for f in (det, simp):
        dicts = [n for n in walk_body(f) if isinstance(n, ast.Dict) and any(source.is_const(k, "success") for k in n.keys)]
        ok = False
        if dicts:
            d = {k.value: v for k, v in zip(dicts[0].keys, dicts[0].values) if isinstance(k, ast.Constant)}
            ec_, oc_ = counter_names(f)
            from sa import pat as _pat
            ok = _pat.is_(d.get("success"), f"{ec_} == 0", f"not {ec_}", f"{ec_} < 1") and ec_ != oc_
        chk.ob("O19.1", f"{f.name}: success == (error count == 0); counts reported under their names", ok, dicts[0] if dicts else f, "")
        inits = [n for n in walk_body(f) if isinstance(n, ast.Assign) and u(n.targets[0]) == counter_names(f)[0] and source.is_const(n.value, 0)]
        chk.ob("O19.1", f"{f.name}: error count starts at 0", len(inits) == 1 and not guards(inits[0]), inits[0] if inits else f, "")
    # fast path: success count when no errors are flagged == bulk size (docs), reset to 0 before counting items
    sp = params_of(simp)
    if len(sp) < 4:
        raise AnchorMissing("simple_stats(self, bulk_size, unit, response)")
    sdefs = [n for n in walk_body(simp) if isinstance(n, ast.Assign) and u(n.targets[0]) == counter_names(simp)[1]]
    Ls = item_loop(simp)
    first = [n for n in sdefs if not guards(n)]  # the unconditional initial value
    reset = [n for n in sdefs if guards(n)]      # the recount, under the gate of the item loop
    ok = len(sdefs) == 2 and len(first) == 1 and len(reset) == 1
    if ok:
        try:
            # decided on values: for unit 'docs' the initial success count IS the bulk size, for any other unit it is not
            ok = xev(first[0].value, {sp[1]: 7919, sp[2]: "docs"}) == 7919 and xev(first[0].value, {sp[1]: 7919, sp[2]: "ops"}) != 7919
        except CannotEval:
            ok = isinstance(first[0].value, ast.IfExp) and u(first[0].value.body) == sp[1]
        # the recount starts from 0 under exactly the guards of the item loop, before the loop
        ok = ok and source.is_const(reset[0].value, 0) and {(u(t), pol) for t, pol in guards(reset[0])} == {(u(t), pol) for t, pol in guards(Ls)} and reset[0].lineno < Ls.lineno
    chk.ob("O19.1", "fast path: success count == bulk size unless items are inspected (then recounted from 0)", ok, first[0] if first else (sdefs[0] if sdefs else simp), "")
    full = [n for n in walk_body(simp) if isinstance(n, ast.Call) and dotted(n.func) == "json.loads"]
    # the variable holding the selectively parsed flags: assigned from parse(response, [... 'errors' ...])
    flagv = [n.targets[0].id for n in walk_body(simp) if isinstance(n, ast.Assign) and len(n.targets) == 1 and isinstance(n.targets[0], ast.Name) and isinstance(n.value, ast.Call)
             and dotted(n.value.func) == "parse" and has_const(n.value, "errors")]

    def gate_open(node, errors):
        """are all guards of node satisfied for a response whose top-level `errors` is true / false / absent? (None: cannot be evaluated)"""
        if len(set(flagv)) != 1:
            return None
        env = {flagv[0]: ({"took": 3} if errors is None else {"took": 3, "errors": errors})}
        sdefs_ = {k_: v_ for k_, v_ in local_defs(simp).items() if k_ != flagv[0]}
        try:
            return all(bool(xev(source.inline_node(t, sdefs_), dict(env))) == pol for t, pol in guards(node))
        except CannotEval:
            return None

    ok = bool(full)
    if ok:
        g_ = [gate_open(full[0], e_) for e_ in (True, False, None)]
        ok = g_ == [True, False, False] if None not in g_ else any(has_const(t, "errors") and pol for t, pol in guards(full[0]))
    chk.ob("O19.1", "fast path re-parses fully when errors are flagged", ok, full[0] if full else simp, "")

    # ---- O19.4 known finding F10 ---------------------------------------------------------------------------------------------------------------------
    chk.rule("O19.4", "the fast-path gate (top-level `errors` flag) summarises every disjunct of the item failure predicate", 1,
             "item with status 201 and _shards.failed=1 while errors=false: fast path reports success 1/0, detailed path failure 0/1; the same gate hides the other disjunct for a bulk "
             "delete of an absent document (404 / result not_found, no error object, errors=false): fast path success 4/0, detailed path failure 3/1 (hunt C19-f3, another face of F10)")
    L = item_loop(simp)
    g_ = [gate_open(L, e_) for e_ in (True, False, None)]
    # the loop runs with errors=true but not with errors=false / absent (evaluated); fallback: a guard mentions the `errors` key
    gated_by_errors = (g_[0] is True and g_[1] is False) if None not in g_ else any(has_const(t, "errors") for t, _ in guards(L))
    # the item predicate has the `_shards.failed > 0` disjunct: read off the interpreted table (an item that fails ONLY because of its shards is counted as failed)
    rows_s = tables.get("simple_stats") or []
    shard_only = [i for i, it in enumerate(ITEMS) if it["status"] <= 299 and "_shards" in it and it["_shards"]["failed"] > 0]
    if len(rows_s) == len(ITEMS) and all(rows_s[i] is not None for i in shard_only):
        pred_has_shards = any(rows_s[i] == "failed" for i in shard_only)
    else:
        pred_has_shards = any(has_const(n.test, "_shards") for n in ast.walk(L) if isinstance(n, ast.If))
    chk.ob("O19.4", "fast-path gate vs `_shards.failed > 0`", not (gated_by_errors and pred_has_shards), L,
           "items are only inspected when the response's `errors` flag is set, but the item predicate also fails items with _shards.failed > 0, which Elasticsearch does not reflect in `errors`",
           key=f"{_R}:BulkIndex.simple_stats:gate-vs-item-predicate:_shards.failed")

    # ---- O19.9 orderings over the collected error details are total (F29) ------------------------------------------------------------------------------------------
    chk.rule("O19.9", "every ordering (sorted / sort / min / max) applied to the error details collected from the failed bulk items is total over the details the extraction can produce: "
             "a failed item may carry no reason (detail (status, None)) next to an item of the same status that carries one (detail (status, str))", 1,
             "two failed items share a status and only one has an error reason (delete of an absent document + update of an absent document; `reason: null`): TypeError from comparing "
             "None with str in BOTH the detailed and the fast path - neither reports success / error counts at all")
    xd = bm.get("extract_error_details")
    if xd is None:
        raise AnchorMissing("BulkIndex.extract_error_details")
    # roles of its parameters by use: the collection is the one details are added to, the item is the other one
    xparams = [p_ for p_ in params_of(xd) if p_ not in ("self", "cls")]
    coll = [p_ for p_ in xparams if any(isinstance(n, ast.Call) and isinstance(n.func, ast.Attribute) and n.func.attr in ("add", "append") and isinstance(n.func.value, ast.Name)
                                         and n.func.value.id == p_ for n in walk_body(xd))]
    if len(coll) != 1 or len(xparams) != 2:
        raise AnchorMissing("extract_error_details(<collection the details are added to>, <item>)")
    DCOLL = coll[0]
    DITEM = [p_ for p_ in xparams if p_ != DCOLL][0]

    def details_of(item):
        """the details the extraction adds for one failed item: its straight-line body interpreted on the item (assignments, if/else, <collection>.add(<expr>))."""
        env = {DITEM: copy.deepcopy(item)}
        added = []

        def block(stmts):
            for s in stmts:
                if isinstance(s, ast.Pass) or is_logging_stmt(s) or (isinstance(s, ast.Expr) and isinstance(s.value, ast.Constant)):
                    continue
                if isinstance(s, ast.Assign) and len(s.targets) == 1 and isinstance(s.targets[0], ast.Name):
                    env[s.targets[0].id] = ev(s.value, env)
                elif isinstance(s, ast.If):
                    block(s.body if ev(s.test, env) else s.orelse)
                elif isinstance(s, ast.Expr) and isinstance(s.value, ast.Call) and isinstance(s.value.func, ast.Attribute) and s.value.func.attr in ("add", "append") \
                        and isinstance(s.value.func.value, ast.Name) and s.value.func.value.id == DCOLL and len(s.value.args) == 1 and not s.value.keywords:
                    v_ = ev(s.value.args[0], env)
                    hash(v_)
                    added.append(v_)
                else:
                    raise CannotEval(f"statement `{short(s, 60)}`")

        block(xd.body)
        return added

    # representative FAILED items: with a reason, without an error object (delete of an absent document; item failed because of its shards), error without reason, `reason: null`,
    # error given as plain text - two statuses, so that details tie on the status
    FAILED = [{"status": st_, **extra} for st_ in (404, 500) for extra in ({"error": {"type": "x", "reason": "r"}}, {"error": {"type": "x", "reason": "another reason"}}, {"result": "not_found"},
                                                                           {"error": {"type": "x"}}, {"error": {"type": "x", "reason": None}}, {"error": "plain text"})]
    FAILED.append({"status": 201, "_shards": {"total": 2, "successful": 1, "failed": 1}})
    DETAILS = None
    try:
        DETAILS = set()
        for it_ in FAILED:
            DETAILS |= set(details_of(it_))
    except (CannotEval, TypeError) as e:
        chk.unknown("O19.9", f"extract_error_details cannot be interpreted over the representative failed items: {e}", xd)
        DETAILS = None
    if DETAILS is not None and not DETAILS:
        raise AnchorMissing("extract_error_details adds no detail for any representative failed item")

    def key_function(kx, fn):
        """python callable for the key= expression of an ordering: a lambda, a local / nested / own-class function with a single returned expression, operator.itemgetter, str / repr."""
        kx = source.inline_node(kx, local_defs(fn)) if isinstance(kx, ast.Name) and kx.id in local_defs(fn) else kx
        if isinstance(kx, ast.Lambda) and len(kx.args.args) == 1 and not (kx.args.vararg or kx.args.kwarg or kx.args.kwonlyargs or kx.args.posonlyargs):
            return lambda v, kx=kx: xev(kx.body, {kx.args.args[0].arg: v})
        if isinstance(kx, ast.Name) and kx.id in ("str", "repr"):
            return {"str": str, "repr": repr}[kx.id]
        if isinstance(kx, ast.Call) and dotted(kx.func) in ("operator.itemgetter", "itemgetter") and kx.args and all(isinstance(a, ast.Constant) and type(a.value) is int for a in kx.args):
            idx = [a.value for a in kx.args]
            return (lambda v: v[idx[0]]) if len(idx) == 1 else (lambda v: tuple(v[i] for i in idx))
        target = None
        if isinstance(kx, ast.Name):
            target = next((n for n in walk_body(fn) if isinstance(n, (ast.FunctionDef,)) and n.name == kx.id), None) or (rn.index().get(kx.id) if isinstance(rn.index().get(kx.id), ast.FunctionDef) else None)
        elif is_self_attr(kx):
            target = bm.get(kx.attr)
        if target is not None:
            ps = [p_ for p_ in params_of(target) if p_ not in ("self", "cls")]
            body = [s for s in target.body if not (is_logging_stmt(s) or (isinstance(s, ast.Expr) and isinstance(s.value, ast.Constant)))]
            if len(ps) == 1 and len(body) == 1 and isinstance(body[0], ast.Return) and body[0].value is not None:
                return lambda v, e_=body[0].value, p_=ps[0]: xev(e_, {p_: v})
        raise CannotEval(f"key function `{short(kx, 60)}`")

    if DETAILS is not None:
        # the counting paths themselves and the methods of the class they hand the SAME collection to (and whatever those pass it on to)
        todo = []
        for f in (det, simp):
            xcalls = [n for n in walk_body(f) if isinstance(n, ast.Call) and is_self_attr(n.func, xd.name)]
            names = {a.id for c_ in xcalls for a in [source.bind_args(c_, xd).get(DCOLL)] if isinstance(a, ast.Name)}
            if len(names) != 1:
                raise AnchorMissing(f"{f.name}: the collection handed to extract_error_details")
            todo.append((f, names.pop()))
        seen9 = set()
        while todo:
            fn, P = todo.pop()
            if (fn.name, P) in seen9:
                continue
            seen9.add((fn.name, P))
            for n in walk_body(fn):
                if not isinstance(n, ast.Call):
                    continue
                if is_self_attr(n.func) and n.func.attr in bm and n.func.attr != xd.name:
                    for p_, a in source.bind_args(n, bm[n.func.attr]).items():
                        if isinstance(a, ast.Name) and a.id == P:
                            todo.append((bm[n.func.attr], p_))
                if dotted(n.func) in ("sorted", "min", "max") and len(n.args) == 1:
                    subject, what = n.args[0], dotted(n.func)
                elif isinstance(n.func, ast.Attribute) and n.func.attr == "sort" and not n.args:
                    subject, what = n.func.value, "sort"
                else:
                    continue
                subj = source.inline_node(subject, {k_: v_ for k_, v_ in local_defs(fn).items() if k_ != P})
                if P not in loads_of(subj):
                    continue  # an ordering of something else (e.g. of the status codes only)
                kx = next((k.value for k in n.keywords if k.arg == "key"), None)
                try:
                    elems = xev(subj, {P: set(DETAILS)})
                    if not isinstance(elems, (set, list, tuple, frozenset)):
                        raise CannotEval(f"`{short(subject, 60)}` is not a collection of details")
                    elems = sorted(elems, key=repr)
                    keyf = key_function(kx, fn) if kx is not None and not (isinstance(kx, ast.Constant) and kx.value is None) else (lambda v: v)
                    keys = [keyf(e_) for e_ in elems]
                except (CannotEval, TypeError, IndexError) as e:
                    chk.unknown("O19.9", f"{fn.name}: `{short(n, 70)}` cannot be evaluated over the representative details: {e}", n)
                    continue
                clash = None
                for (e1, k1), (e2, k2) in itertools.combinations(zip(elems, keys), 2):
                    try:
                        k1 < k2, k2 < k1
                    except TypeError:
                        clash = (e1, e2)
                        break
                chk.ob("O19.9", f"{fn.name}: {what}() over the error details never compares a missing reason (None) with a reason (str)", clash is None, n,
                       short(n, 90) + (f" — total over {len(elems)} representative details, {sum(1 for e_ in elems if isinstance(e_, tuple) and None in e_)} of them without a reason"
                                       if clash is None else f" — ordering the details {clash[0]!r} and {clash[1]!r} raises TypeError: no statistics at all for this bulk in either path"),
                       key=f"{_R}:BulkIndex.{fn.name}:ordering-of-details:{what}")
    # ---- O19.2 value boundaries ----------------------------------------------------------------------------------------------------------------------------
    chk.rule("O19.2", "no JSON value handed to a JSON decoder has its END delimited by a regex character class or a text search on a structural character; offsets found in one text are "
             "applied only to that same text (not bytes offsets on the decoded string); the START of the value is found for every JSON spelling of the member (white space - space, tab, "
             "LF, CR - on either side of the colon, as in pretty-printed responses) and is the value's opening bracket", 10,
             "sort value containing ']' or a nested array; non-ASCII text before the last hit; a pretty-printed response (`\"sort\" : [2]`): no cursor where a full parse gives [2]")
    SA = rn.cls("SearchAfterExtractor")
    sm = rn.methods(SA)
    gl = sm.get("_get_last_sort")
    if gl is None:
        raise AnchorMissing("SearchAfterExtractor._get_last_sort")
    pats = {}
    for n in ast.walk(SA):
        if isinstance(n, ast.Assign) and isinstance(n.value, ast.Call) and dotted(n.value.func) == "re.compile" and isinstance(n.value.args[0], ast.Constant):
            pats[u(n.targets[0])] = (n.value.args[0].value, n)
    for n in ast.walk(SA):
        if isinstance(n, ast.Call) and dotted(n.func) in ("re.search", "re.match", "re.findall", "re.finditer", "re.fullmatch") and n.args and isinstance(n.args[0], ast.Constant) and isinstance(n.args[0].value, str):
            pats[f"<inline pattern @ line {n.lineno}>"] = (n.args[0].value, n)
    gdefs = local_defs(gl)
    decs = [n for n in walk_body(gl) if isinstance(n, ast.Call) and (dotted(n.func) == "json.loads" or last_attr(n.func) == "raw_decode")]
    if not decs:
        raise AnchorMissing("JSON decoding call in _get_last_sort")
    for d in decs:
        if dotted(d.func) == "json.loads":
            a = d.args[0]
            # value from a regex group?
            ai = source.inline_node(a, gdefs)
            if any(isinstance(x, ast.Call) and last_attr(x.func) in ("group", "groups") for x in ast.walk(ai)):
                bad = []
                for pname, (ptxt, pn) in pats.items():
                    g_ = structural_class_groups(ptxt)
                    if g_:
                        bad.append((pname, ptxt, g_))
                chk.ob("O19.2", "json.loads(<regex group>)", not bad, d, f"the decoded text is cut out by {[(p, t) for p, t, _ in bad]}: the group ends at the first structural character, wherever it occurs" if bad else "group not delimited by a structural character class",
                       key=f"{_R}:SearchAfterExtractor._get_last_sort:value-end-by-char-class")
            else:
                chk.ob("O19.2", "json.loads on a complete text", True, d, "")
        else:
            chk.ob("O19.2", "value end found by JSONDecoder.raw_decode", True, d, short(d, 80))
    for pname, (ptxt, pn) in pats.items():
        g_ = structural_class_groups(ptxt)
        if g_ is None:
            chk.unknown("O19.2", f"pattern {ptxt!r} does not parse", pn)
        else:
            used_for_value = any(isinstance(n, ast.Call) and last_attr(n.func) == "group" for n in walk_body(gl))
            chk.ob("O19.2", f"pattern {pname} does not delimit a value by a structural character class", not (g_ and used_for_value), pn, f"{ptxt!r}: {g_}")
    # offset/text agreement
    texts = {}
    for n in walk_body(gl):
        if isinstance(n, ast.Assign) and isinstance(n.targets[0], ast.Name) and isinstance(n.value, ast.Call) and last_attr(n.value.func) in ("rfind", "find", "index", "rindex"):
            texts[n.targets[0].id] = u(n.value.func.value)
    n_off = 0
    for n in walk_body(gl):
        tgt = None
        used = set()
        if isinstance(n, ast.Subscript) and isinstance(n.slice, ast.Slice):
            tgt = u(n.value)
            used = {x.id for x in ast.walk(n.slice) if isinstance(x, ast.Name)}
        elif isinstance(n, ast.Call) and last_attr(n.func) == "raw_decode" and len(n.args) == 2:
            tgt = u(n.args[0])
            used = {x.id for x in ast.walk(n.args[1]) if isinstance(x, ast.Name)}
        elif isinstance(n, ast.Call) and last_attr(n.func) in ("search", "match") and len(n.args) >= 3:
            tgt = u(n.args[1])
            used = {x.id for x in ast.walk(n.args[2]) if isinstance(x, ast.Name)}
        for v in used & set(texts):
            n_off += 1
            ok = texts[v] == tgt
            chk.ob("O19.2", f"offset `{v}` (found in `{texts[v]}`) applied to `{tgt}`", ok, n, "" if ok else "an offset found in one text (e.g. the raw bytes) indexes another (the decoded string): they differ by the number of multi-byte characters before it")
    chk.ob("O19.2", "offset uses located", n_off >= 1, gl, f"{n_off} use(s)")
    # decoded once: the text searched is the decoded response
    dec = [n for n in walk_body(gl) if isinstance(n, ast.Call) and last_attr(n.func) == "decode"]
    chk.ob("O19.2", "response decoded as UTF-8 before searching", bool(dec) and any(source.is_const(a, "UTF-8") or source.is_const(a, "utf-8") for a in dec[0].args), dec[0] if dec else gl, "")
    # F30: the START of the value, decided on values. The extracted locator literal (rfind / find argument), the extracted pattern literal and the extracted decoder offset expression
    # are evaluated on a response whose last hit spells the member with white space on either side of the colon: the offset handed to the decoder must be the position of the value's
    # opening bracket (what a full parse of the same text uses). Nothing of the repository runs: `re` is applied to the pattern LITERAL, str.rfind to the locator LITERAL.
    import json as _json
    import re as _re

    def compiled_literal(pexpr):
        """the pattern text behind the expression handed to search / match: a string literal, an attribute bound to re.compile(<literal>) in the class, or a local of either kind."""
        pi = source.inline_node(pexpr, gdefs)
        if isinstance(pi, ast.Constant) and isinstance(pi.value, str):
            return pi.value
        # bound in the class (self.x = re.compile(..) in a method, x = re.compile(..) in the class body) or at module level
        bound = [pn for pname, (_, pn) in pats.items() if isinstance(pn, ast.Assign) and last_attr(pn.targets[0]) == last_attr(pi) and isinstance(pi, (ast.Name, ast.Attribute))]
        call_ = bound[0].value if len(bound) == 1 else (rn.module_constant(pi.id) if isinstance(pi, ast.Name) and rn.module_constant(pi.id) is not None else pi)
        if isinstance(call_, ast.Call) and dotted(call_.func) == "re.compile" and len(call_.args) == 1 and not call_.keywords and isinstance(call_.args[0], ast.Constant) \
                and isinstance(call_.args[0].value, str):
            return call_.args[0].value
        return None

    probes = []  # (search call, method, pattern text, text expression, name bound to the match)
    for n in walk_body(gl):
        if not isinstance(n, ast.Call):
            continue
        if dotted(n.func) in ("re.search", "re.match", "re.fullmatch") and len(n.args) == 2 and not n.keywords:
            pexpr, texpr, meth = n.args[0], n.args[1], n.func.attr
        elif isinstance(n.func, ast.Attribute) and n.func.attr in ("search", "match", "fullmatch") and len(n.args) == 1 and not n.keywords and dotted(n.func.value) != "re":
            pexpr, texpr, meth = n.func.value, n.args[0], n.func.attr
        else:
            continue
        ptxt = compiled_literal(pexpr)
        if ptxt is None:
            continue
        as_ = source.enclosing_stmt(n)
        mv = as_.targets[0].id if isinstance(as_, ast.Assign) and as_.value is n and len(as_.targets) == 1 and isinstance(as_.targets[0], ast.Name) else None
        probes.append((n, meth, ptxt, texpr, mv))
    if len(probes) != 1:
        raise AnchorMissing(f"_get_last_sort: the one pattern search that locates the cursor value ({len(probes)} found)")
    sc, meth, ptxt, texpr, mv = probes[0]
    try:
        cpat = _re.compile(ptxt)
    except _re.error as e:
        raise AnchorMissing(f"_get_last_sort: pattern {ptxt!r} does not compile: {e}")
    raw = [d for d in decs if last_attr(d.func) == "raw_decode" and len(d.args) == 2]

    class OnText(ast.NodeTransformer):
        """replaces `<text>.rfind(<literal>)` (find / index / rindex) by its value on the probe text and `<match>.start(k)` / `.end(k)` by the value for the probe match."""

        def __init__(self, full, m):
            self.full, self.m = full, m

        def visit_Call(self, c):
            self.generic_visit(c)
            if isinstance(c.func, ast.Attribute) and not c.keywords:
                if c.func.attr in ("rfind", "find", "index", "rindex") and len(c.args) == 1 and isinstance(c.args[0], ast.Constant) and isinstance(c.args[0].value, str):
                    try:
                        return ast.Constant(value=getattr(self.full, c.func.attr)(c.args[0].value))
                    except ValueError:
                        raise CannotEval(f"{u(c)}: not found in the probe text")
                if c.func.attr in ("start", "end") and isinstance(c.func.value, ast.Name) and c.func.value.id == mv and len(c.args) <= 1 and all(isinstance(a, ast.Constant) for a in c.args):
                    if self.m is None:
                        raise CannotEval("no match")
                    try:
                        return ast.Constant(value=getattr(self.m, c.func.attr)(*[a.value for a in c.args]))
                    except (IndexError, TypeError) as x:
                        raise CannotEval(f"{u(c)}: {x}")
            return c

    def on_text(expr, full, m):
        return ev(OnText(full, m).visit(source.inline_node(expr, {k_: v_ for k_, v_ in gdefs.items() if k_ != mv})), {})

    for ws1, ws2 in (("", ""), ("", " "), (" ", " "), (" ", ""), ("\n      ", "\n      "), ("\t", "\t"), ("\r\n", "\r\n")):
        member = '"sort"' + ws1 + ":" + ws2 + "[2]"
        full = '{"took":1,"timed_out":false,"hits":{"total":{"value":4,"relation":"eq"},"hits":[{"_id":"1","sort":[1]},{"_id":"2",' + member + "}]}}"
        want = full.index(member) + member.index("[")  # where a full parse finds the value: the last hit's `[`
        assert _json.loads(full)["hits"]["hits"][-1]["sort"] == [2] and _json.JSONDecoder().raw_decode(full, want)[0] == [2]
        inst = f"cursor value located when the member is spelled {member!r}"
        key_ = f"{_R}:SearchAfterExtractor._get_last_sort:value-start:{ws1!r}:{ws2!r}"
        try:
            # the text searched: the decoded response, or its tail from an offset found by a literal text search
            if isinstance(texpr, ast.Subscript) and isinstance(texpr.slice, ast.Slice) and texpr.slice.upper is None and texpr.slice.step is None:
                start = on_text(texpr.slice.lower, full, None) if texpr.slice.lower is not None else 0
            elif isinstance(source.inline_node(texpr, gdefs), ast.Subscript):
                raise CannotEval(f"text searched: {u(texpr)}")
            else:
                start = 0
            if not isinstance(start, int) or isinstance(start, bool) or start < 0:
                raise CannotEval(f"start of the text searched: {start!r}")
            m = getattr(cpat, meth)(full[start:])
            if m is None:
                chk.ob("O19.2", inst, False, sc, f"pattern {ptxt!r} does not match: the fast path returns no cursor, a full parse of the same response gives [2]", key=key_)
                continue
            if raw:
                got = on_text(raw[0].args[1], full, m)
                how_ = f"decoder offset `{u(raw[0].args[1])}`"
            else:
                # no offset-based decoder: the positions read off the match, relative to the text searched
                pos = [c for c in walk_body(gl) if isinstance(c, ast.Call) and isinstance(c.func, ast.Attribute) and c.func.attr in ("start", "end") and isinstance(c.func.value, ast.Name)
                       and c.func.value.id == mv]
                if not pos:
                    raise CannotEval("no offset is read off the match")
                got = start + on_text(pos[0], full, m)
                how_ = f"`{u(pos[0])}`"
            chk.ob("O19.2", inst, got == want, sc, f"pattern {ptxt!r}: {how_} = {got}, the value's opening bracket is at {want}", key=key_)
        except CannotEval as e:
            chk.unknown("O19.2", f"_get_last_sort: the position handed to the decoder cannot be evaluated on a probe text: {e}", sc)
            break

    # ---- O19.5 known finding F9b ----------------------------------------------------------------------------------------------------------------------------
    chk.rule("O19.5", "the cursor key of the last hit is located structurally, not by a nesting-insensitive text search", 1,
             "last hit sort [20] followed by inner_hits with sort [999] -> cursor [999]; matched_queries ['sort'] -> cursor None")
    rf = [n for n in walk_body(gl) if isinstance(n, ast.Call) and last_attr(n.func) in ("rfind", "rindex") and n.args and isinstance(n.args[0], ast.Constant) and "sort" in str(n.args[0].value)]
    chk.ob("O19.5", "last `sort` key located by text search", not rf, rf[0] if rf else gl, "rfind('\"sort\"') on the raw text picks the textually last occurrence at any nesting depth (or inside a string)",
           key=f"{_R}:SearchAfterExtractor._get_last_sort:rfind-sort-key")

    # ---- O19.6 cursor threading ---------------------------------------------------------------------------------------------------------------------------------
    chk.rule("O19.6", "paginated search: the cursor sent with the next page is the extractor's result for the response just received (search_after := last sort; composite after := after_key), "
             "pages == weight == number of requests issued; hit totals are taken from the first page only", 6,
             "a page is fetched twice / skipped because a stale cursor (or the previous page's) is sent")
    Q = rn.cls("Query")
    qcall = rn.methods(Q).get("__call__")
    if qcall is None:
        raise AnchorMissing("Query.__call__")
    inner = {n.name: n for n in ast.walk(qcall) if isinstance(n, (ast.AsyncFunctionDef, ast.FunctionDef))}

    def extractor_class(attr):
        """class whose instance Query stores under self.<attr>."""
        for n in ast.walk(Q):
            if isinstance(n, ast.Assign) and any(is_self_attr(t, attr) for t in n.targets) and isinstance(n.value, ast.Call) and isinstance(n.value.func, ast.Name):
                return rn.cls(n.value.func.id)
        raise AnchorMissing(f"Query: self.{attr} = <Extractor>()")

    def cursor_projection(attr, cursor_call, cursor_member):
        """how the cursor is read off the extractor's result: ('tuple', i) when __call__ returns a tuple whose i-th element is the value located by `cursor_call`,
        ('key', k) when it returns a dict that carries the cursor under the constant key k."""
        ec = rn.methods(extractor_class(attr)).get("__call__")
        if ec is None:
            raise AnchorMissing(f"{attr}: __call__")
        edefs = local_defs(ec)
        rets = [n.value for n in walk_body(ec) if isinstance(n, ast.Return) and n.value is not None]
        if cursor_call is not None:
            idx = set()
            for r in rets:
                if not isinstance(r, ast.Tuple):
                    raise AnchorMissing(f"{attr}.__call__ does not return a tuple")
                idx |= {i for i, e_ in enumerate(r.elts) if any(isinstance(x, ast.Call) and last_attr(x.func) == cursor_call for x in ast.walk(source.inline_node(e_, edefs)))}
            if len(idx) != 1:
                raise AnchorMissing(f"{attr}.__call__: position of the {cursor_call}() result in the returned tuple")
            return ("tuple", idx.pop())
        if not any(isinstance(n, ast.Assign) and isinstance(n.targets[0], ast.Subscript) and source.is_const(n.targets[0].slice, cursor_member) for n in walk_body(ec)):
            raise AnchorMissing(f"{attr}.__call__: result member {cursor_member!r}")
        return ("key", cursor_member)

    from sa.cfg import conjuncts as _conjuncts

    def removal_sites(fn, key, recv):
        """the statements of fn that, whenever they are reached, leave the dict `recv` without `key`: `recv.pop(key[, default])` / `del recv[key]`, lifted over
          - guards that only ask whether there is anything to remove (`if recv:`, `if recv is not None:`, `if key in recv:`, `isinstance(recv, dict)`): the enclosing `if` is the site;
          - `for k in [<literals including key>]: recv.pop(k, default)`: a loop over a non-empty literal runs its body for every element, so the `for` is the site
            (the pop must be a direct statement of a loop body without jumps, and must not raise for an absent key)."""
        out = []
        for n in walk_body(fn):
            arg, total = None, False
            if isinstance(n, ast.Call) and isinstance(n.func, ast.Attribute) and n.func.attr == "pop" and n.args and not n.keywords and u(n.func.value) == recv:
                arg, total = n.args[0], len(n.args) == 2
            elif isinstance(n, ast.Delete):
                for t in n.targets:
                    if isinstance(t, ast.Subscript) and u(t.value) == recv:
                        arg = t.slice
            if arg is None:
                continue
            pending = None
            if isinstance(arg, ast.Name):
                pending = arg.id  # the key is a loop variable: resolved when the loop over the literal keys is reached
            elif not source.is_const(arg, key):
                continue
            s_ = source.enclosing_stmt(n)

            def own_guard(c, pending=pending):
                return u(c) == recv or _pat.is_(c, f"{recv} is not None", f"{key!r} in {recv}", f"isinstance({recv}, dict)") or (pending is not None and _pat.is_(c, f"{pending} in {recv}"))

            while True:
                p = source.parent(s_)
                if isinstance(p, ast.If) and any(s_ is x for x in p.body) and all(own_guard(c) for c in _conjuncts(p.test)):
                    s_ = p
                elif pending is not None and total and isinstance(p, ast.For) and isinstance(p.target, ast.Name) and p.target.id == pending and isinstance(p.iter, (ast.List, ast.Tuple)) \
                        and any(source.is_const(e_, key) for e_ in p.iter.elts) and any(s_ is x for x in p.body) and not p.orelse \
                        and not any(isinstance(x, (ast.Break, ast.Continue, ast.Return, ast.Raise)) for x in ast.walk(p)):
                    s_, pending = p, None
                else:
                    break
            if pending is None:
                out.append(s_)
        return out

    def cfg_catching_exception(fn):
        """a private CFG of fn in which `except Exception` ends the outward propagation like `except BaseException` does (not cached, the shared CFGs are untouched)."""
        from sa import cfg as _cfgmod
        saved = _cfgmod.CATCH_ALL
        _cfgmod.CATCH_ALL = set(saved) | {"Exception"}
        try:
            return _cfgmod.CFG(fn)
        finally:
            _cfgmod.CATCH_ALL = saved

    def cannot_raise(s):
        """statements whose conservative exception edge is ignored when asking what runs before an exit: `<name>.pop(<key>, <default>)` (dict.pop with a default never raises
        for a hashable key) and logging calls."""
        if not isinstance(s, ast.Expr):
            return False
        c = s.value
        return is_logging_stmt(s) or (isinstance(c, ast.Call) and isinstance(c.func, ast.Attribute) and c.func.attr == "pop" and isinstance(c.func.value, ast.Name) and len(c.args) == 2
                                      and not c.keywords and isinstance(c.args[0], (ast.Constant, ast.Name)) and isinstance(c.args[1], ast.Constant))

    for fname, extractor, cursor_key, cursor_call, cursor_member in (("_search_after_query", "_search_after_extractor", "search_after", "_get_last_sort", None),
                                                                    ("_composite_agg", "_composite_agg_extractor", "after", None, "after_key")):
        f = inner.get(fname)
        if f is None:
            raise AnchorMissing(f"Query.{fname}")
        how = cursor_projection(extractor, cursor_call, cursor_member)
        gq = cfg_of(f)
        lp = [n for n in walk_body(f) if isinstance(n, ast.For) and isinstance(n.iter, ast.Call) and dotted(n.iter.func) == "range" and isinstance(n.target, ast.Name)]
        if not lp:
            raise AnchorMissing(f"page loop in {fname}")
        PL_ = lp[0]
        # the accumulated result: the local the function returns
        rets = {n.value.id for n in walk_body(f) if isinstance(n, ast.Return) and isinstance(n.value, ast.Name)}
        if len(rets) != 1 or any(isinstance(n, ast.Return) and not isinstance(n.value, ast.Name) for n in walk_body(f)):
            raise AnchorMissing(f"{fname}: the result variable (returned local)")
        RES = rets.pop()
        rq = [n for n in ast.walk(PL_) if isinstance(n, ast.Await) and isinstance(n.value, ast.Call) and u(n.value.func) == "self._raw_search"]
        ex_ = [n for n in ast.walk(PL_) if isinstance(n, ast.Call) and u(n.func) == f"self.{extractor}"]
        ok = len(rq) == 1 and len(ex_) == 1
        rs_ = source.enclosing_stmt(rq[0]) if ok else None
        resp = rs_.targets[0].id if isinstance(rs_, ast.Assign) and rs_.value is rq[0] and len(rs_.targets) == 1 and isinstance(rs_.targets[0], ast.Name) else None

        def loop_stores(name, PL_=PL_):
            """statements of the page loop that (re)bind the local `name`."""
            return [n for n in ast.walk(PL_) if isinstance(n, (ast.Assign, ast.AugAssign, ast.AnnAssign, ast.For, ast.NamedExpr, ast.With)) and name in stores_of(
                n.target if isinstance(n, (ast.For, ast.AugAssign, ast.AnnAssign, ast.NamedExpr)) else (ast.Tuple(elts=[i.optional_vars for i in n.items if i.optional_vars is not None]) if isinstance(n, ast.With) else ast.Tuple(elts=list(n.targets))))]

        ok = ok and resp is not None and len(loop_stores(resp)) == 1 and bool(ex_[0].args) and isinstance(ex_[0].args[0], ast.Name) and ex_[0].args[0].id == resp \
            and gq.dominated_by_nodes(gq.node_of(ex_[0]), [gq.node_of(rq[0])]) and not gq.path_exists(gq.node_of(ex_[0]), gq.node_of(rq[0]), avoid=[gq.node_of(PL_)])
        chk.ob("O19.6", f"{fname}: one request per page, its own response handed to the extractor", ok, ex_[0] if ex_ else PL_, "")
        st = [n for n in ast.walk(PL_) if isinstance(n, ast.Assign) and isinstance(n.targets[0], ast.Subscript) and source.is_const(n.targets[0].slice, cursor_key)]
        ok = len(st) == 1 and len(ex_) == 1
        if ok:
            es_ = source.enclosing_stmt(ex_[0])
            et = es_.targets[0] if isinstance(es_, ast.Assign) and es_.value is ex_[0] and len(es_.targets) == 1 else None

            def from_extractor(e_):
                """(is e_ this page's cursor as produced by the extractor?, the statements that must have run before it is read)."""
                if how[0] == "tuple":
                    # the name at the cursor's position of the tuple unpacked from the extractor call (or <result>[i])
                    if isinstance(et, ast.Tuple) and how[1] < len(et.elts) and not any(isinstance(x, ast.Starred) for x in et.elts) and isinstance(et.elts[how[1]], ast.Name):
                        return isinstance(e_, ast.Name) and e_.id == et.elts[how[1]].id and len(loop_stores(e_.id)) == 1, [es_]
                    if isinstance(et, ast.Name):
                        return _pat.match(e_, f"V_p[{how[1]}]", binds={"p": et.id}) is not None and len(loop_stores(et.id)) == 1, [es_]
                    return False, []
                if isinstance(et, ast.Name):
                    # <result>[key] with <result> bound once per page, from the extractor call
                    return _pat.match(e_, f"V_p[{how[1]!r}]", binds={"p": et.id}) is not None and len(loop_stores(et.id)) == 1, [es_]
                return False, []

            v_ = st[0].value
            direct, need = from_extractor(v_)
            if direct:
                ok = True
            elif isinstance(v_, ast.Name):
                # one local in between: bound once per page, from the extractor's result of this iteration
                binds = loop_stores(v_.id)
                ok = len(binds) == 1 and isinstance(binds[0], ast.Assign) and len(binds[0].targets) == 1 and isinstance(binds[0].targets[0], ast.Name)
                if ok:
                    ok, need = from_extractor(binds[0].value)
                    need = need + [binds[0]]
            else:
                ok = False
            ok = ok and all(gq.dominated_by_nodes(gq.node_of(st[0]), [gq.node_of(n_)]) for n_ in need)
        chk.ob("O19.6", f"{fname}: next cursor := the extractor's result for this page", ok, st[0] if st else PL_, short(st[0], 70) if st else "cursor never set")
        # the body belongs to the parameter source, which hands it out again for the next invocation: a cursor may only be stored into it when another page of THIS invocation will
        # be requested (guard `page < last page` of `for page in range(1, last + 1)`), or it is removed again on every path to the return (also when the page limit ends the loop)
        if st:
            fq_ = source.enclosing_func(st[0])
            iv_ = PL_.target.id if isinstance(PL_.target, ast.Name) else None
            more = False
            if iv_ and isinstance(PL_.iter, ast.Call) and dotted(PL_.iter.func) == "range" and len(PL_.iter.args) == 2:
                hi = PL_.iter.args[1]
                lim = hi.left if isinstance(hi, ast.BinOp) and isinstance(hi.op, ast.Add) and source.is_const(hi.right, 1) else None
                if lim is not None:
                    more = _pat.guarded(st[0], f"{iv_} < {u(lim)}", f"{iv_} + 1 <= {u(lim)}", f"{iv_} != {u(lim)}", stop=PL_) is not None
            removals = [n for n in walk_body(fq_) if isinstance(n, ast.Call) and isinstance(n.func, ast.Attribute) and n.func.attr == "pop" and n.args
                        and (source.is_const(n.args[0], cursor_key) or (isinstance(n.args[0], ast.Name) and any(isinstance(l_, ast.For) and isinstance(l_.target, ast.Name) and l_.target.id == n.args[0].id
                             and isinstance(l_.iter, (ast.List, ast.Tuple)) and any(source.is_const(e_, cursor_key) for e_ in l_.iter.elts) for l_ in source.ancestors(n))))]
            cleaned = bool(removals) and gq.must_pass(gq.node_of(st[0]), [gq.node_of(r_) for r_ in removals], normal_only=True)
            # (emitted below, once the every-exit analysis is available: a removal on every exit - e.g. in a finally - also covers the regular end of the loop)
            # F28: storing the cursor only when another page follows is not enough - that very request (or anything else before the regular end of the loop) may raise, and with
            # on-error=continue the task goes on with the next iteration on the SAME body. So: every path from the store to ANY exit of the function, exception edges included,
            # passes a statement that removes that key from that dict (finally bodies are duplicated per continuation kind, all copies count) - or every invocation removes the
            # key before its first request. Exceptions a handler for `Exception` catches are taken as caught: what on-error=continue swallows (TransportError, ApiError) is below it,
            # anything else ends the benchmark
            recv_ = u(st[0].targets[0].value)
            sites_ = removal_sites(fq_, cursor_key, recv_)
            gx = cfg_catching_exception(fq_)
            thr_ = [n_ for s_ in sites_ for n_ in gx.nodes_of(s_)]

            def edge_ok(x_, y_, lab_, gx=gx):
                return gx.normal_edge(x_, y_, lab_) or not cannot_raise(gx.nodes[x_].ast)

            heads_ = gx.nodes_of(PL_)
            done_ = {(h_.id, y_, lab_) for h_ in heads_ for y_, lab_ in gx.succ[h_.id] if lab_ == "exhausted"}
            leak = None
            for src_ in gx.nodes_of(st[0]):
                if more:
                    # the page limit ends the loop only after an iteration that did NOT store (`page < last page` fails there): paths through the loop's `exhausted` edge are
                    # followed from the start of such a last iteration, around the store
                    seen_ = gx.reachable([src_], avoid=thr_, avoid_edges=done_, edge_ok=edge_ok)
                    starts_ = [(h_, gx.nodes[y_]) for h_ in heads_ if h_.id in seen_ for y_, lab_ in gx.succ[h_.id] if lab_ == "iter"]
                    last_ = gx.reachable([n_ for _, n_ in starts_], avoid=thr_ + gx.nodes_of(st[0]), edge_ok=edge_ok) if starts_ else set()
                else:
                    seen_, last_ = gx.reachable([src_], avoid=thr_, edge_ok=edge_ok), set()
                for ex_node in (gx.raise_exit, gx.exit):
                    if leak is None and ex_node.id in seen_ | last_:
                        if ex_node.id in seen_:
                            p_ = gx.find_path(src_, ex_node, avoid=thr_, edge_ok=lambda x_, y_, lab_: edge_ok(x_, y_, lab_) and not (more and (x_, y_, lab_) in done_))
                        else:
                            p_ = gx.find_path(starts_[0][1], ex_node, avoid=thr_ + gx.nodes_of(st[0]), edge_ok=edge_ok)
                        leak = ("an exception propagates" if ex_node is gx.raise_exit else "it returns", gx.describe_path(p_) if p_ else [])
            # alternative: whatever an earlier invocation left behind is removed before the first request of this one
            fresh_ = [n_ for s_ in sites_ if not any(a_ is PL_ for a_ in source.ancestors(s_)) and s_ is not PL_ for n_ in gx.nodes_of(s_)]
            starts_clean = bool(fresh_) and len(rq) == 1 and all(gx.dominated_by_nodes(r_, fresh_) for r_ in gx.nodes_of(rq[0]))
            chk.ob("O19.6", f"{fname}: once stored, the cursor is removed from the operation's body on EVERY exit of the invocation, also when a later page request raises",
                   (bool(thr_) and leak is None) or starts_clean, st[0],
                   "removed before the first request of every invocation" if starts_clean else
                   (f"{len(sites_)} removal site(s) of {recv_}[{cursor_key!r}]; every path from the store to the return and to a propagating exception passes one" if thr_ and leak is None else
                    (f"no statement removes {recv_}[{cursor_key!r}]" if not thr_ else
                     f"after the store the function can be left ({leak[0]}) without removing {recv_}[{cursor_key!r}]: with on-error=continue the next iteration of the task starts "
                     f"from this stale cursor instead of the first page")),
                   key=f"{_R}:Query.{fname}:cursor-removed-on-every-exit", path=(leak[1][:40] if leak else None))
            every_exit = (bool(thr_) and leak is None) or starts_clean
            chk.ob("O19.6", f"{fname}: the cursor never survives the invocation in the operation's body", more or cleaned or every_exit, st[0],
                   "stored only when another page follows" if more else ("removed on every path to the return" if cleaned or every_exit else
                   "when the page limit ends the loop the cursor stays in the body the parameter source hands out again: the next iteration of the task starts from a stale cursor"),
                   key=f"{_R}:Query.{fname}:cursor-does-not-survive")
        pg = {n.targets[0].slice.value: n.value for n in ast.walk(PL_) if isinstance(n, ast.Assign) and isinstance(n.targets[0], ast.Subscript) and isinstance(n.targets[0].value, ast.Name)
              and n.targets[0].value.id == RES and isinstance(n.targets[0].slice, ast.Constant)}
        iv = PL_.target.id
        ok = all(isinstance(pg.get(k_), ast.Name) and pg[k_].id == iv for k_ in ("pages", "weight")) and len(PL_.iter.args) == 2 and source.is_const(PL_.iter.args[0], 1) and len(loop_stores(iv)) == 1
        chk.ob("O19.6", f"{fname}: pages == weight == requests issued", ok, PL_, f"{ {k: u(v) for k, v in pg.items() if k in ('pages', 'weight')} }")
        hs = [n for n in ast.walk(PL_) if isinstance(n, ast.Assign) and isinstance(n.targets[0], ast.Subscript) and source.is_const(n.targets[0].slice, "hits")]
        ok = len(hs) == 1
        if ok:
            try:
                # decided on values: the store is reached while no hit total is recorded yet, and not once one is
                reach = [all(bool(xev(t, {RES: dict(r_)})) == pol for t, pol in guards(hs[0], stop=PL_)) for r_ in ({"unit": "pages", "took": 0}, {"unit": "pages", "took": 0, "hits": 10000}, {"unit": "pages", "took": 0, "hits": 0})]
                ok = reach == [True, False, False] and bool(guards(hs[0], stop=PL_))
            except CannotEval:
                ok = _pat.guarded(hs[0], f"{RES}.get('hits') is None", stop=PL_) is not None
        chk.ob("O19.6", f"{fname}: hit total taken from the first page only", ok, hs[0] if hs else PL_, "")

    # ---- O19.7 flags accumulated over pages are sticky -------------------------------------------------------------------------------------------------
    chk.rule("O19.7", "multi-page searches (scroll, search_after, composite): `timed_out` is true if ANY page reported it (a later page can only turn it on), `took` is summed", 5,
             "an earlier page timed out, the last one did not: the reported flag says the search did not time out (a full parse of all pages says it did)")
    from sa import pat as _p7
    Q = rn.cls("Query")
    n7 = 0
    for fn in [n for n in ast.walk(Q) if isinstance(n, (ast.FunctionDef, ast.AsyncFunctionDef))]:
        loops7 = [n for n in walk_body(fn) if isinstance(n, (ast.For, ast.While, ast.AsyncFor))]
        if not loops7:
            continue
        names = {}
        for d_ in [n for n in walk_body(fn) if isinstance(n, ast.Dict)]:
            for k_, v_ in zip(d_.keys, d_.values):
                if isinstance(k_, ast.Constant) and k_.value in ("timed_out", "took") and isinstance(v_, ast.Name):
                    names[v_.id] = k_.value
        for lp in loops7:
            lv = lp.target.id if isinstance(lp, ast.For) and isinstance(lp.target, ast.Name) else None
            for st_ in ast.walk(lp):
                if not isinstance(st_, (ast.Assign, ast.AugAssign)) or source.enclosing_func(st_) is not fn or source.enclosing(st_, (ast.For, ast.While, ast.AsyncFor)) is not lp:
                    continue
                tg = st_.targets[0] if isinstance(st_, ast.Assign) else st_.target
                role = names.get(tg.id) if isinstance(tg, ast.Name) else (tg.slice.value if isinstance(tg, ast.Subscript) and isinstance(tg.slice, ast.Constant) and tg.slice.value in ("timed_out", "took") else None)
                if role is None:
                    continue
                if lv and _p7.guarded(st_, f"{lv} == 0", stop=lp) is not None:
                    continue  # first page: plain initialisation
                n7 += 1
                acc = u(tg)
                if role == "timed_out":
                    v = st_.value
                    sticky = (isinstance(st_, ast.Assign) and isinstance(v, ast.BoolOp) and isinstance(v.op, ast.Or) and any(u(x) == acc for x in v.values)) \
                        or (isinstance(st_, ast.AugAssign) and isinstance(st_.op, ast.BitOr)) \
                        or any(_p7.match(f_, "not E_a") is not None and _p7.match(f_, "not E_a")["a"] == acc for f_ in _p7.fact_nodes(st_, stop=lp)) \
                        or (isinstance(v, ast.Call) and dotted(v.func) in ("max", "any") and acc in u(v))
                    chk.ob("O19.7", f"{fn.name}: timed_out of a later page can only turn the flag on", sticky, st_, short(st_, 80) + ("" if sticky else " — the last page's value replaces an earlier `true`"),
                           key=f"{_R}:Query.{fn.name}:sticky:timed_out")
                else:
                    summed = (isinstance(st_, ast.AugAssign) and isinstance(st_.op, ast.Add)) or (isinstance(st_, ast.Assign) and isinstance(st_.value, ast.BinOp) and isinstance(st_.value.op, ast.Add) and acc in u(st_.value))
                    chk.ob("O19.7", f"{fn.name}: took is summed over the pages", summed, st_, short(st_, 80), key=f"{_R}:Query.{fn.name}:sum:took")
    chk.ob("O19.7", "page accumulators located (scroll, search_after, composite)", n7 >= 5, Q, f"{n7} in-loop store(s)")

    # ---- O19.8 what is read from a selective parse was requested from it ------------------------------------------------------------------------------------
    chk.rule("O19.8", "every key a caller reads from the result of parse(text, props, lists, objects) is among the paths it requested in that call (a path that was not requested is "
             "never extracted: the read silently yields its default while a full parse has the value)", 20,
             "a statistic present in the response (e.g. _shards.skipped) is reported as 0 / absent by the lazy path")
    n8 = 0
    for fn in [n for n in ast.walk(rn.tree) if isinstance(n, (ast.FunctionDef, ast.AsyncFunctionDef))]:
        for asg in [n for n in walk_body(fn) if isinstance(n, ast.Assign) and len(n.targets) == 1 and isinstance(n.targets[0], ast.Name) and isinstance(n.value, ast.Call)
                    and isinstance(n.value.func, ast.Name) and n.value.func.id == "parse" and source.enclosing_func(n) is fn]:
            var = asg.targets[0].id
            fdefs_ = local_defs(fn)
            req = set()
            evaluable = True
            for a_ in asg.value.args[1:] + [k.value for k in asg.value.keywords]:
                try:
                    v_ = ev(source.inline_node(a_, fdefs_, no_calls=True), {})
                    if v_ is not None:
                        req |= set(v_)
                    if isinstance(a_, ast.Name):
                        # a list built up step by step: everything that MAY have been appended / extended counts as requested
                        for m_ in walk_body(fn):
                            if isinstance(m_, ast.Call) and isinstance(m_.func, ast.Attribute) and isinstance(m_.func.value, ast.Name) and m_.func.value.id == a_.id and m_.args:
                                if m_.func.attr == "append":
                                    req.add(ev(source.inline_node(m_.args[0], fdefs_, no_calls=True), {}))
                                elif m_.func.attr == "extend":
                                    req |= set(ev(source.inline_node(m_.args[0], fdefs_, no_calls=True), {}))
                except (CannotEval, TypeError):
                    evaluable = False
            if not evaluable:
                chk.adv("O19.8", f"{fn.name}: the paths requested from parse() are not a literal list (reads of `{var}` not cross-checked)", asg)
                continue
            # reads of var that this assignment reaches: same function, until the name is re-bound by another parse
            others = [n for n in walk_body(fn) if isinstance(n, ast.Assign) and n is not asg and any(isinstance(t, ast.Name) and t.id == var for t in n.targets)]
            gfn = cfg_of(fn)
            for rd_ in walk_body(fn):
                key = None
                if isinstance(rd_, ast.Call) and isinstance(rd_.func, ast.Attribute) and rd_.func.attr == "get" and isinstance(rd_.func.value, ast.Name) and rd_.func.value.id == var and rd_.args and isinstance(rd_.args[0], ast.Constant):
                    key = rd_.args[0].value
                elif isinstance(rd_, ast.Subscript) and isinstance(rd_.value, ast.Name) and rd_.value.id == var and isinstance(rd_.slice, ast.Constant) and isinstance(rd_.ctx, ast.Load):
                    key = rd_.slice.value
                if key is None or not isinstance(key, str):
                    continue
                try:
                    reached = gfn.path_exists(gfn.node_of(asg), gfn.node_of(rd_), avoid=[gfn.node_of(o_) for o_ in others if gfn.node_of(o_) is not gfn.node_of(rd_)])
                except KeyError:
                    continue
                if not reached:
                    continue
                n8 += 1
                chk.ob("O19.8", f"{fn.name}: `{var}[{key!r}]` was requested from the parser", key in req, rd_, "" if key in req else f"requested: {sorted(req)}",
                       key=f"{_R}:{source.qualname(fn)}:requested:{key}")
    chk.ob("O19.8", "selective-parse consumers located", n8 >= 20, rn.tree, f"{n8} keyed read(s)")

    # ---- O19.3 selective parser ------------------------------------------------------------------------------------------------------------------------------
    chk.rule("O19.3", "the selective parser matches requested properties / lists / objects on the full ijson prefix; member keys of a collected object are the prefix with the object's own path "
             "stripped; early exit only when all requested properties, lists and objects were seen; an incomplete document ends the scan silently", 7,
             "a property with the same leaf name at another depth is returned; dotted member keys are mangled; extraction stops before a later requested value")
    pf = rn.func("parse")
    pp = params_of(pf)
    if len(pp) < 4:
        raise AnchorMissing("parse(text, props, lists, objects)")
    loops = [n for n in walk_body(pf) if isinstance(n, ast.For) and isinstance(n.target, ast.Tuple) and len(n.target.elts) == 3 and all(isinstance(t, ast.Name) for t in n.target.elts)]
    if not loops:
        raise AnchorMissing("event loop `for prefix, event, value in parser` in parse()")
    PL = loops[0]
    pre, evn, val = [t.id for t in PL.target.elts]
    from sa import minieval as _me

    def sub_stores(root_=None):
        """in-loop statements `<name>[key] = value` (optionally only those into the local `root_`)."""
        return [n for n in ast.walk(PL) if isinstance(n, ast.Assign) and len(n.targets) == 1 and isinstance(n.targets[0], ast.Subscript) and isinstance(n.targets[0].value, ast.Name)
                and (root_ is None or n.targets[0].value.id == root_)]

    # roles of parse()'s locals, by data flow: RES is the dict it returns; the dicts merged into it at the end are the list flags (values: `event == 'end_array'`) and the collected
    # objects (values: the dict being filled, stored when the object's end_map arrives); INOBJ holds the path of the object being collected (bound from the prefix at its start_map)
    rets = {n.value.id for n in walk_body(pf) if isinstance(n, ast.Return) and isinstance(n.value, ast.Name)}
    RES = rets.pop() if len(rets) == 1 else None
    merged = [n.args[0].id for n in walk_body(pf) if isinstance(n, ast.Call) and RES is not None and _pat.match(n.func, "V_r.update", binds={"r": RES}) is not None and len(n.args) == 1
              and isinstance(n.args[0], ast.Name)]
    lists_v = {m for m in merged if any(_pat.is_(n.value, f"{evn} == 'end_array'") for n in sub_stores(m))}
    objs = {(m, n.value.id) for m in merged for n in sub_stores(m) if isinstance(n.value, ast.Name) and _pat.guarded(n, f"{evn} == 'end_map'", stop=PL) is not None}
    LISTS = lists_v.pop() if len(lists_v) == 1 else None
    OBJS, CUR = objs.pop() if len(objs) == 1 else (None, None)
    inobj = [n.targets[0].id for n in ast.walk(PL) if isinstance(n, ast.Assign) and isinstance(n.targets[0], ast.Name) and isinstance(n.value, ast.Name) and n.value.id == pre
             and _pat.guarded(n, f"{evn} == 'start_map'", stop=PL) is not None]
    INOBJ = inobj[0] if len(set(inobj)) == 1 else None

    st = sub_stores(RES) if RES is not None else []
    ok = len(st) == 1 and _pat.is_(st[0].targets[0], "V_r[V_p]", binds={"r": RES, "p": pre}) and _pat.is_(st[0].value, val) and _pat.guarded(st[0], f"{pre} in {pp[1]}", stop=PL) is not None
    chk.ob("O19.3", "property matched on the full prefix and stored under it", ok, st[0] if st else PL, "" if RES is not None else "the dict returned by parse() could not be identified")
    for kind, param, event in (("list", pp[2], "start_array"), ("object start", pp[3], "start_map"), ("object end", pp[3], "end_map")):
        # some statement of the loop runs exactly under the facts `prefix in <param>` and `event == '<event>'` (any nesting, orientation, arm)
        found = any(isinstance(n, ast.stmt) and _pat.guarded(n, f"{pre} in {param}", stop=PL) is not None and _pat.guarded(n, f"{evn} == '{event}'", stop=PL) is not None for n in ast.walk(PL))
        chk.ob("O19.3", f"{kind} matched on full prefix and event", found, PL, "")
    mk = [n for n in sub_stores(CUR) if _pat.is_(n.value, val)] if CUR is not None else []
    ok = False
    detail = "" if CUR is not None else "the dict collecting the members of the current object could not be identified"
    if mk and INOBJ is not None:
        k = mk[0].targets[0].slice
        detail = u(k)
        k = source.inline_node(k, {n_: d_ for n_, d_ in local_defs(pf).items() if n_ not in (pre, evn, val, INOBJ)})  # a key computed into a single-assignment local first
        try:
            # decided on values: with the object at path o and an event at path o + '.' + member, the key is the member (dots inside the member kept)
            ok = len(mk) == 1 and all(xev(k, {pre: o_ + "." + m_, INOBJ: o_, evn: "string", val: "v"}) == m_ for o_, m_ in
                                      (("aggregations.x.after_key", "k"), ("a", "b.c.d"), ("a", "a.k"), ("a.b", "b"), ("o.k", "k.o.k"), ("ab", "x")))
        except CannotEval:
            ok = len(mk) == 1 and _pat.is_(k, "V_p[len(V_o) + 1:]", "V_p[1 + len(V_o):]", "V_p.removeprefix(V_o + '.')", "V_p[len(V_o) + len('.'):]", "V_p[len(V_o + '.'):]", binds={"p": pre, "o": INOBJ})
    chk.ob("O19.3", "member key == prefix with the object's own path stripped", ok, mk[0] if mk else PL, detail + ("" if ok else " — keys containing '.' are mangled / collide"))
    # member values of a collected object, decided on VALUES: inside object `a`, a scalar event stores its value whatever that value is (null, false, 0, 0.0 and "" included);
    # keys and container events store nothing
    init_env = {}
    for n in pf.body:
        if isinstance(n, ast.Assign) and len(n.targets) == 1 and isinstance(n.targets[0], ast.Name):
            try:
                init_env[n.targets[0].id] = _me.ev(n.value, {})
            except _me.CannotEval:
                pass
    if INOBJ is not None:
        EVENTS = [("null", None, True), ("boolean", False, True), ("boolean", True, True), ("integer", 0, True), ("integer", 7, True), ("double", 0.0, True), ("number", 0, True), ("string", "", True),
                  ("string", "x", True), ("map_key", "k", False), ("start_array", None, False), ("end_array", None, False)]
        for ev_name, v_, stored in EVENTS:
            env_ = dict(init_env)
            env_.update({pre: "a.k", evn: ev_name, val: v_, pp[1]: [], pp[2]: None, pp[3]: ["a"], INOBJ: "a"})

            def atom_p(n, env, env_=env_):
                try:
                    return bool(_me.ev(n, dict(env_)))
                except _me.CannotEval:
                    return None

            try:
                out_ = decide(PL.body, atom_p, {})
            except (Unsupported, UnknownAtom) as e:
                chk.unknown("O19.3", f"the event dispatch of parse() is not a decision over (prefix, event, value): {e}", PL)
                break
            # a store of the event's value into a dict other than the returned one (that one is keyed by the full prefix: the property store)
            got = [e_ for e_ in out_.effects if isinstance(e_, ast.Assign) and isinstance(e_.targets[0], ast.Subscript) and _pat.is_(e_.value, val) and root_name(e_.targets[0]) != RES
                   and not _pat.is_(e_.targets[0].slice, pre)]
            ok = (len(got) == 1) == stored
            chk.ob("O19.3", f"object member: event {ev_name} value {v_!r} -> {'stored' if stored else 'nothing stored'}", ok, PL,
                   ("stored" if got else "not stored") + ("" if ok else " — a falsy member value is dropped, so the extracted object differs from the fully parsed one (e.g. a composite after_key with false / 0 / '')"),
                   key=f"{_R}:parse:member:{ev_name}|{v_!r}")
        # the END of the collected object, on values: the object is stored under its own path and the parser LEAVES the object (otherwise every later scalar of the response is
        # added to it while the scan continues for a property that is absent)
        env_ = dict(init_env)
        env_.update({pre: "a", evn: "end_map", val: None, pp[1]: [], pp[2]: None, pp[3]: ["a"], INOBJ: "a"})

        def atom_e(n, env, env_=env_):
            try:
                return bool(_me.ev(n, dict(env_)))
            except _me.CannotEval:
                return None

        try:
            out_ = decide(PL.body, atom_e, {})
            bnd_ = getattr(out_, "bindings", {})
            left = isinstance(bnd_.get(INOBJ), ast.Constant) and bnd_[INOBJ].value is None
            stores = [e_ for e_ in out_.effects if isinstance(e_, ast.Assign) and isinstance(e_.targets[0], ast.Subscript) and root_name(e_.targets[0]) != RES]
            keyed = False
            if len(stores) == 1:
                try:
                    keyed = _me.ev(stores[0].targets[0].slice, dict(env_)) == "a"
                except _me.CannotEval:
                    keyed = False
            chk.ob("O19.3", "end of the collected object: stored under its own path", keyed, stores[0] if stores else PL, "", key=f"{_R}:parse:object-end:stored")
            chk.ob("O19.3", "end of the collected object: the parser leaves the object (path variable reset)", left, PL,
                   "" if left else f"`{INOBJ}` keeps the object's path after end_map: later scalar members of the response are added to the extracted object", key=f"{_R}:parse:object-end:left")
        except (Unsupported, UnknownAtom) as e:
            chk.unknown("O19.3", f"the end_map dispatch of parse() is not a decision over (prefix, event): {e}", PL)
    else:
        chk.unknown("O19.3", "the variable holding the path of the object being collected could not be identified in parse()", PL)
    brk = [n for n in ast.walk(PL) if isinstance(n, ast.Break)]
    ok = False
    detail = ""
    if len(brk) == 1 and None not in (RES, LISTS, OBJS):
        # decided on values: over requested / seen combinations the loop is left iff every requested property, list and object has been seen
        gs = guards(brk[0], stop=PL)
        want = ["p1", "p2"]
        grid = [(dict.fromkeys(want[:np_], 1), ls_, dict.fromkeys((ls_ or ["l1"])[:nl_], True), os_, dict.fromkeys((os_ or ["o1"])[:no_], {}))
                for np_ in (0, 1, 2) for ls_ in (None, ["l1"], ["l1", "l2"]) for nl_ in range(0, len(ls_ or []) + 1) for os_ in (None, ["o1"], ["o1", "o2"]) for no_ in range(0, len(os_ or []) + 1)]
        ok = bool(gs)
        try:
            for seen_p, ls_, seen_l, os_, seen_o in grid:
                env_ = dict(init_env)
                env_.update({pp[1]: want, pp[2]: ls_, pp[3]: os_, RES: seen_p, LISTS: seen_l, OBJS: seen_o})
                leaves = all(bool(xev(t, dict(env_))) == pol for t, pol in gs)
                complete = len(seen_p) == len(want) and (ls_ is None or len(seen_l) == len(ls_)) and (os_ is None or len(seen_o) == len(os_))
                if leaves != complete:
                    ok = False
                    detail = f"with {len(seen_p)}/{len(want)} properties, {len(seen_l)}/{'-' if ls_ is None else len(ls_)} lists, {len(seen_o)}/{'-' if os_ is None else len(os_)} objects seen the scan {'stops' if leaves else 'continues'}"
                    break
        except CannotEval as e:
            ok = False
            if len(gs) == 1 and gs[0][1] and isinstance(gs[0][0], ast.BoolOp) and isinstance(gs[0][0].op, ast.And):
                conj = gs[0][0].values
                ok = any(_pat.is_(c, f"len({RES}) == len({pp[1]})") for c in conj) and any(_pat.find(c, f"len({LISTS}) == len({pp[2]})") for c in conj) and any(_pat.find(c, f"len({OBJS}) == len({pp[3]})") for c in conj)
            detail = "" if ok else f"exit condition not evaluable: {e}"
    elif len(brk) == 1:
        detail = "the dicts of seen properties / lists / objects could not be identified"
    chk.ob("O19.3", "early exit only when all requested properties, lists and objects were seen", ok, brk[0] if brk else PL, detail)
    tr = source.enclosing(PL, ast.Try)
    ok = tr is not None and len(tr.handlers) == 1 and last_attr(tr.handlers[0].type) == "IncompleteJSONError"
    chk.ob("O19.3", "only an incomplete document is tolerated", ok, tr if tr is not None else PL, "")
    ok = any(isinstance(n, ast.Call) and u(n.func) == f"{pp[0]}.seek" and n.args and source.is_const(n.args[0], 0) for n in walk_body(pf))
    chk.ob("O19.3", "the response is scanned from its start", ok, pf, "")
    # composite agg: after_key path is the full path — the (single) object path handed to parse(), evaluated on a representative aggregation path
    CA = rn.cls("CompositeAggExtractor")
    cc = rn.methods(CA).get("__call__")
    ok = False
    site = CA
    detail = ""
    if cc is not None and len(params_of(cc)) >= 4:
        pathp = params_of(cc)[3]
        cdefs = local_defs(cc)
        pcalls = [n for n in walk_body(cc) if isinstance(n, ast.Call) and dotted(n.func) == "parse"]
        oarg = source.bind_args(pcalls[0], pf).get(pp[3]) if len(pcalls) == 1 else None
        if oarg is not None:
            site = pcalls[0]
            oarg = source.inline_node(oarg, cdefs)
            detail = u(oarg)
            try:
                ok = all(xev(oarg, {pathp: path_}) == ["aggregations." + ".".join(path_) + ".after_key"] for path_ in (["by_day"], ["outer", "inner"], ["a", "b", "c"]))
            except CannotEval:
                ok = isinstance(oarg, ast.List) and len(oarg.elts) == 1 and _pat.is_(oarg.elts[0], "'aggregations.' + '.'.join(V_p) + '.after_key'", binds={"p": pathp})
    chk.ob("O19.3", "composite cursor requested by its full path", ok, site, detail)

from sa.selftest import V  # noqa: E402

_NEW = "            # sort values may contain brackets themselves so only the JSON decoder can tell where the array ends\n            last_sort, _ = self.decoder.raw_decode(response_str, index_of_last_sort + last_sort_str.start(1))\n            return last_sort"
VARIANTS = [
    V("F17 guard dropped (harmless since F28: the finally removes the cursor on every exit) (search_after)", "keep", _R, "                if results.get(\"hits\") / size > page and page < total_pages:", "                if results.get(\"hits\") / size > page:", "O19.6"),
    V("F17 guard dropped (harmless since F28: the finally removes the cursor on every exit) (composite)", "keep", _R, "                if isinstance(after_key, dict) and page < total_pages:", "                if isinstance(after_key, dict):", "O19.6"),
    V("page limit test written the other way round", "keep", _R, "                if results.get(\"hits\") / size > page and page < total_pages:", "                if total_pages > page and results.get(\"hits\") / size > page:"),
    V("F9a: value cut out by a bracket character class", "break", _R, _NEW, "            return json.loads(re.search(r\"sort\\\":([^\\]]*])\", response_str[index_of_last_sort::]).group(1))", None),
    V("different failure predicate in the fast path", "break", _R, "                if data[\"status\"] > 299 or (\"_shards\" in data and data[\"_shards\"][\"failed\"] > 0):\n                    bulk_error_count += 1\n                    self.extract_error_details(error_details, data)\n                else:\n                    bulk_success_count += 1\n        stats = {\n            \"took\": props.get(\"took\"),",
      "                if data[\"status\"] > 299:\n                    bulk_error_count += 1\n                    self.extract_error_details(error_details, data)\n                else:\n                    bulk_success_count += 1\n        stats = {\n            \"took\": props.get(\"took\"),", "O19.1"),
    V("seed m1: shards test overwrites the status test", "break", _R,
      "            if data[\"status\"] > 299 or (\"_shards\" in data and data[\"_shards\"][\"failed\"] > 0):\n                bulk_error_count += 1\n                self.extract_error_details(error_details, data)\n            else:\n                bulk_success_count += 1\n        stats = {\n            \"took\": response.get(\"took\"),",
      "            failed = data[\"status\"] > 299\n            if \"_shards\" in data:\n                failed = data[\"_shards\"][\"failed\"] > 0\n            if failed:\n                bulk_error_count += 1\n                self.extract_error_details(error_details, data)\n            else:\n                bulk_success_count += 1\n        stats = {\n            \"took\": response.get(\"took\"),", "O19.1"),
    V("status >= 299", "break", _R, "            if data[\"status\"] > 299 or (\"_shards\" in data and data[\"_shards\"][\"failed\"] > 0):\n                bulk_error_count += 1", "            if data[\"status\"] >= 299 or (\"_shards\" in data and data[\"_shards\"][\"failed\"] > 0):\n                bulk_error_count += 1", "O19.1"),
    V("success from took", "break", _R, "            \"took\": props.get(\"took\"),\n            \"success\": bulk_error_count == 0,", "            \"took\": props.get(\"took\"),\n            \"success\": props.get(\"took\") is not None,", "O19.1"),
    V("seed m2: byte offset on the decoded string", "break", _R, "        response_str = response.getvalue().decode(\"UTF-8\")\n        index_of_last_sort = response_str.rfind('\"sort\"')", "        raw = response.getvalue()\n        index_of_last_sort = raw.rfind(b'\"sort\"')\n        response_str = raw.decode(\"UTF-8\")", "O19.2"),
    V("seed m3: member key by last dot", "break", _R, "                current_object[prefix[len(in_object) + 1 :]] = value", "                current_object[prefix.split(\".\")[-1]] = value", "O19.3"),
    V("match on value instead of prefix", "break", _R, "            if prefix in props:\n                parsed[prefix] = value", "            if event == \"map_key\" and value in props:\n                parsed[value] = value", "O19.3"),
    V("early exit on properties only", "break", _R, "                len(parsed) == len(props)\n                and (lists is None or len(parsed_lists) == len(lists))\n                and (objects is None or len(parsed_objects) == len(objects))", "                len(parsed) == len(props)", "O19.3"),
    V("cursor from the request body instead of the response", "break", _R, "                    body[\"search_after\"] = last_sort", "                    body[\"search_after\"] = body.get(\"search_after\", last_sort)", "O19.6"),
    V("composite after key from the previous page", "break", _R, "                    after_key = parsed[\"after_key\"]\n                    if isinstance(after_key, dict) and", "                    after_key = composite_agg_body.get(\"after\") or parsed[\"after_key\"]\n                    if isinstance(after_key, dict) and", "O19.6"),
    # F28: un-mutation of the shared body on every exit
    V("F28: finally no longer removes the search_after cursor", "break", _R,
      "                # also when a page request fails: the same body is handed out again for the next iteration\n                for item in [\"pit\", \"search_after\"]:\n                    body.pop(item, None)\n",
      "                # also when a page request fails: the same body is handed out again for the next iteration\n                for item in [\"pit\"]:\n                    body.pop(item, None)\n", "O19.6"),
    V("F28: finally no longer removes the composite after key", "break", _R,
      "            finally:\n                body.pop(\"pit\", None)\n                if composite_agg_body:\n                    composite_agg_body.pop(\"after\", None)\n",
      "            finally:\n                body.pop(\"pit\", None)\n", "O19.6"),
    V("F28: cursor removed only when the failure is a Rally error", "break", _R,
      "            finally:\n                body.pop(\"pit\", None)\n                if composite_agg_body:\n                    composite_agg_body.pop(\"after\", None)\n",
      "            except exceptions.RallyError:\n                body.pop(\"pit\", None)\n                if composite_agg_body:\n                    composite_agg_body.pop(\"after\", None)\n                raise\n", "O19.6"),
    V("F28 respelled: explicit pops instead of the loop over the keys", "keep", _R,
      "                # also when a page request fails: the same body is handed out again for the next iteration\n                for item in [\"pit\", \"search_after\"]:\n                    body.pop(item, None)\n",
      "                body.pop(\"search_after\", None)\n                body.pop(\"pit\", None)\n"),
    V("F28 respelled: composite clean-up guarded by `is not None` and a membership test", "keep", _R,
      "            finally:\n                body.pop(\"pit\", None)\n                if composite_agg_body:\n                    composite_agg_body.pop(\"after\", None)\n",
      "            finally:\n                if composite_agg_body is not None and \"after\" in composite_agg_body:\n                    del composite_agg_body[\"after\"]\n                body.pop(\"pit\", None)\n"),
    # F29: ordering of the (status, reason) details
    V("F29: details sorted without a key", "break", _R, "enumerate(sorted(error_details, key=lambda d: (d[0], d[1] is not None, d[1] or \"\"))):", "enumerate(sorted(error_details)):", "O19.9"),
    V("F29: key still compares the raw reason", "break", _R, "key=lambda d: (d[0], d[1] is not None, d[1] or \"\")", "key=lambda d: (d[0], d[1])", "O19.9"),
    V("F29 respelled: key as a nested function, other parameter name", "keep", _R,
      "        for count, error_detail in enumerate(sorted(error_details, key=lambda d: (d[0], d[1] is not None, d[1] or \"\"))):",
      "        def by_status_then_reason(detail):\n            return detail[0], detail[1] is not None, detail[1] or \"\"\n\n        ordered = sorted(error_details, key=by_status_then_reason)\n        for count, error_detail in enumerate(ordered):"),
    [V("F29 repaired the other way: the reason is normalised to text when the detail is recorded, plain sorted()", "keep", _R,
       "            error_details.add((data[\"status\"], None))\n", "            error_details.add((data[\"status\"], \"\"))\n"),
     V("", "keep", _R, "error_reason = error_data.get(\"reason\") if isinstance(error_data, dict) else str(error_data)",
       "error_reason = (error_data.get(\"reason\") or \"\") if isinstance(error_data, dict) else str(error_data)"),
     V("", "keep", _R, "enumerate(sorted(error_details, key=lambda d: (d[0], d[1] is not None, d[1] or \"\"))):", "enumerate(sorted(error_details)):")],
    [V("F29 half repaired the other way: a missing error object is normalised, `reason: null` is not", "break", _R,
       "            error_details.add((data[\"status\"], None))\n", "            error_details.add((data[\"status\"], \"\"))\n", "O19.9"),
     V("", "break", _R, "enumerate(sorted(error_details, key=lambda d: (d[0], d[1] is not None, d[1] or \"\"))):", "enumerate(sorted(error_details)):")],
    # F30: white space around the colon of the sort member
    V("F30: white space before the colon not accepted", "break", _R, "re.compile(r\"sort\\\"\\s*:\\s*(\\[)\")", "re.compile(r\"sort\\\":\\s*(\\[)\")", "O19.2"),
    V("F30: group 1 opens before the white space", "break", _R, "re.compile(r\"sort\\\"\\s*:\\s*(\\[)\")", "re.compile(r\"sort\\\"\\s*:(\\s*\\[)\")", "O19.2"),
    V("F30 respelled: the pattern is searched through the compiled object", "keep", _R, "re.search(self.sort_pattern, response_str[index_of_last_sort::])",
      "self.sort_pattern.search(response_str[index_of_last_sort::])"),
    V("F30 respelled: explicit JSON white space class", "keep", _R,
      "re.compile(r\"sort\\\"\\s*:\\s*(\\[)\")", "re.compile(r'sort\"[ \\t\\r\\n]*:[ \\t\\r\\n]*(\\[)')"),
    [V("F30 respelled: the decoder offset is the end of the match (lookahead instead of a group)", "keep", _R, "re.compile(r\"sort\\\"\\s*:\\s*(\\[)\")", "re.compile(r\"sort\\\"\\s*:\\s*(?=\\[)\")"),
     V("", "keep", _R, "last_sort_str.start(1)", "last_sort_str.end()")],
    # preserving
    V("predicate extracted into a local", "keep", _R, "                if data[\"status\"] > 299 or (\"_shards\" in data and data[\"_shards\"][\"failed\"] > 0):\n                    bulk_error_count += 1\n                    self.extract_error_details(error_details, data)\n                else:\n                    bulk_success_count += 1\n        stats = {\n            \"took\": props.get(\"took\"),",
      "                failed = data[\"status\"] > 299 or (\"_shards\" in data and data[\"_shards\"][\"failed\"] > 0)\n                if failed:\n                    bulk_error_count += 1\n                    self.extract_error_details(error_details, data)\n                else:\n                    bulk_success_count += 1\n        stats = {\n            \"took\": props.get(\"took\"),"),
    V("shards test first", "keep", _R, "            if data[\"status\"] > 299 or (\"_shards\" in data and data[\"_shards\"][\"failed\"] > 0):\n                bulk_error_count += 1", "            if (\"_shards\" in data and data[\"_shards\"][\"failed\"] > 0) or data[\"status\"] > 299:\n                bulk_error_count += 1"),
]
