"""C02 — every task gets exactly its clients; clients are partitioned over workers (DESIGN.md section 4, C02).

Roles are located by data flow (which value reaches which constructor parameter / subscript / call), decisions are taken on representative VALUES: the expressions and
small functions extracted from the source are evaluated by sa.minieval (plus the local helpers _ev / _run / _apply below, which follow calls into pure helper functions and
methods of the analysed module) — nothing of the repository is imported or called.

Two levels (hardening round 3): an obligation is decided on its LOCATED role in isolation (the extracted expression over representative inputs); where the role is not located,
or is located in a shape that is not one of the enumerated ones, the obligation is decided END TO END on the facts read off the results of the analysed code for representative
inputs (_Decider + _WaSim: calculate_worker_assignments evaluated by _run; _MatrixSim: the allocator interpreted by the abstract machine of rules.C01 on its model schedules).
Only when that evaluation is impossible too the verdict is structural: falsified for a role that was located and is wrong, 'not recognised' (exit 2) for a role that was not
located. A class without a hand-written constructor is read through the constructor its record decorator generates (_ctor: @dataclass / typing.NamedTuple fields).

Hardening round 4: O2.5 (worker ids are list positions) is decided on Driver.start_benchmark TOGETHER WITH the methods / functions it delegates to (_CallTree: one frame per
call site; expressions of a helper are restated in the caller's terms, values a helper returns are followed back), so the roles are found wherever the code is cut."""
from __future__ import annotations

import ast
import math

from sa import minieval as me
from sa import source
from sa.cfg import guards
from sa.classes import is_logging_stmt
from sa.source import AnchorMissing, dotted, flat, inline, inline_node, is_self_attr, last_attr, local_defs, logical_parent, params_of, short, u, walk_body
from sa.sym import UnknownAtom, bool_eval

_D = "esrally/driver/driver.py"
_T = "esrally/track/track.py"


# ---- evaluation of extracted expressions / small functions on representative values ----------------------------------------------------------------------
def _bind(target, value, env):
    if isinstance(target, ast.Name):
        env[target.id] = value
    elif isinstance(target, (ast.Tuple, ast.List)) and isinstance(value, (list, tuple)) and len(value) == len(target.elts) and not any(isinstance(t, ast.Starred) for t in target.elts):
        for t, v in zip(target.elts, value):
            _bind(t, v, env)
    else:
        raise me.CannotEval(f"cannot bind `{u(target)}`")


def _seq(v, what):
    if isinstance(v, (list, tuple, set, frozenset, range, dict, str)):
        return list(v)
    raise me.CannotEval(f"{what}: not an iterable value")


def _num(v, what):
    if isinstance(v, bool) or not isinstance(v, (int, float)):
        raise me.CannotEval(f"{what}: not a number")
    return v


class _Reduce(ast.NodeTransformer):
    """What sa.minieval lacks for index arithmetic: min / max of several arguments or with `default=`, range / enumerate / zip (also `zip(*m)`), math.ceil / math.floor,
    sum(xs, start), slices, and comprehensions whose element contains such calls. These sub-expressions are reduced (innermost first) to constants carrying the VALUE; the
    rest of the expression is evaluated by minieval. CannotEval propagates (the caller reports 'not recognised', never a verdict)."""

    def __init__(self, env):
        self.env = env

    def _k(self, value, at):
        return ast.copy_location(ast.Constant(value=value), at)

    def _comp(self, n):
        out = []

        def rec(i, env_):
            if i == len(n.generators):
                out.append(_ev(n.elt, env_))
                return
            g = n.generators[i]
            if g.is_async:
                raise me.CannotEval("async comprehension")
            for v in _seq(_ev(g.iter, env_), short(g.iter, 40)):
                env2 = dict(env_)
                _bind(g.target, v, env2)
                if all(_ev(c, env2) for c in g.ifs):
                    rec(i + 1, env2)

        rec(0, dict(self.env))
        return self._k(set(out) if isinstance(n, ast.SetComp) else out, n)

    visit_ListComp = visit_GeneratorExp = visit_SetComp = _comp

    def _args(self, n):
        vals = []
        for a in n.args:
            if isinstance(a, ast.Starred):
                vals.extend(_seq(me.ev(a.value, self.env), short(a, 40)))
            else:
                vals.append(me.ev(a, self.env))
        return vals

    def visit_Call(self, n):
        self.generic_visit(n)
        d = dotted(n.func)
        kw = {k.arg: k.value for k in n.keywords}
        if None in kw:
            return n
        if d in ("min", "max") and set(kw) <= {"default"}:
            vals = self._args(n)
            single = len(n.args) == 1 and not isinstance(n.args[0], ast.Starred)
            if single:
                vals = _seq(vals[0], short(n, 40))
                if not vals:
                    if "default" in kw:
                        return self._k(me.ev(kw["default"], self.env), n)
                    raise me.CannotEval(f"{short(n, 40)}: empty sequence")
            elif kw or not vals:
                return n
            return self._k((min if d == "min" else max)(_num(v, short(n, 40)) for v in vals), n)
        if d == "range" and not kw and 1 <= len(n.args) <= 3:
            vals = self._args(n)
            if all(isinstance(v, int) and not isinstance(v, bool) for v in vals) and (len(vals) < 3 or vals[2] != 0):
                r = range(*vals)
                if len(r) > 10000:
                    raise me.CannotEval("range too long")
                return self._k(list(r), n)
            raise me.CannotEval(f"{short(n, 40)}: non-integer bounds")
        if d == "enumerate" and set(kw) <= {"start"} and 1 <= len(n.args) <= 2:
            vals = self._args(n)
            start = vals[1] if len(vals) == 2 else (me.ev(kw["start"], self.env) if kw else 0)
            return self._k([(start + i, v) for i, v in enumerate(_seq(vals[0], short(n, 40)))], n)
        if d == "zip" and set(kw) <= {"strict"}:
            return self._k(list(zip(*[_seq(v, short(n, 40)) for v in self._args(n)])), n)
        if d in ("math.ceil", "math.floor", "ceil", "floor") and len(n.args) == 1 and not kw:
            return self._k((math.ceil if d.endswith("ceil") else math.floor)(_num(me.ev(n.args[0], self.env), short(n, 40))), n)
        if d == "sum" and len(n.args) == 2 and not kw:
            vals = self._args(n)
            return self._k(sum((_num(v, short(n, 40)) for v in _seq(vals[0], short(n, 40))), _num(vals[1], short(n, 40))), n)
        if d == "divmod" and len(n.args) == 2 and not kw:
            a, b = (_num(v, short(n, 40)) for v in self._args(n))
            if b == 0:
                raise me.CannotEval(f"{short(n, 40)}: ZeroDivisionError")
            return self._k(tuple(divmod(a, b)), n)
        # a (pure) helper function of the analysed module, made known by the rule under the reserved name __funcs__: its body is evaluated on the argument VALUES
        f = self._helper(n.func)
        if f is not None:
            if any(isinstance(a, ast.Starred) for a in n.args):
                raise me.CannotEval(f"{short(n, 40)}: starred arguments")
            recv = [me.ev(n.func.value, self.env)] if isinstance(n.func, ast.Attribute) and n.func.value.id in self.env else []
            return self._k(_apply(f, self._args(n), {k: me.ev(v, self.env) for k, v in kw.items()}, self.env, recv), n)
        return n

    def _helper(self, func):
        """the helper a call resolves to: `name(...)` -> a module-level / nested function, `self.name(...)` / `cls.name(...)` -> a method of the analysed class (key '.name')"""
        funcs = self.env.get("__funcs__") or {}
        if isinstance(func, ast.Name):
            return funcs.get(func.id)
        if isinstance(func, ast.Attribute) and isinstance(func.value, ast.Name) and func.value.id in ("self", "cls"):
            return funcs.get("." + func.attr)
        return None

    def visit_BinOp(self, n):
        self.generic_visit(n)
        if isinstance(n.op, ast.Mult):
            # sequence repetition `[x] * k` (minieval multiplies numbers only); operands that cannot be evaluated here are left to minieval (short-circuit contexts)
            try:
                a, b = me.ev(n.left, self.env), me.ev(n.right, self.env)
            except me.CannotEval:
                return n
            a, b = (a, b) if isinstance(a, (list, tuple)) else (b, a)
            if isinstance(a, (list, tuple)) and isinstance(b, int) and not isinstance(b, bool):
                if len(a) * max(b, 0) > 10000:
                    raise me.CannotEval("sequence too long")
                return self._k(a * b, n)
        return n

    def visit_Subscript(self, n):
        self.generic_visit(n)
        if isinstance(n.slice, ast.Slice):
            v = me.ev(n.value, self.env)
            if not isinstance(v, (list, tuple, str)):
                raise me.CannotEval(f"{short(n, 40)}: slice of a non-sequence")
            lo, hi, st = ((None if x is None else me.ev(x, self.env)) for x in (n.slice.lower, n.slice.upper, n.slice.step))
            if any(x is not None and (isinstance(x, bool) or not isinstance(x, int)) for x in (lo, hi, st)) or st == 0:
                raise me.CannotEval(f"{short(n, 40)}: slice bounds")
            return self._k(v[lo:hi:st], n)
        return n


def _ev(expr, env):
    """value of an extracted expression in `env` (sa.minieval + _Reduce)"""
    return me.ev(_Reduce(env).visit(source.clone(expr)), env)


class _Flow(Exception):
    def __init__(self, kind, value=None):
        super().__init__(kind)
        self.kind, self.value = kind, value


def _reachable(values, seen=None):
    """ids of the containers reachable from the given values (what a callee must not mutate: the caller's objects)"""
    seen = set() if seen is None else seen
    for v in values:
        if isinstance(v, (list, tuple, set, frozenset, dict, me.Record)) and id(v) not in seen:
            seen.add(id(v))
            _reachable(list(v.values()) if isinstance(v, dict) else (list(v.fields.values()) if isinstance(v, me.Record) else list(v)), seen)
    return seen


def _own_container(expr, env):
    """the list / dict value of `expr` if it was created by the statements being evaluated (not handed in by the caller), else CannotEval: stores into it stay local"""
    v = _ev(expr, env)
    if not isinstance(v, (list, dict)) or id(v) in env.get("__foreign__", ()):
        raise me.CannotEval(f"store into `{short(expr, 40)}`, which is not a list / dict created by the evaluated statements")
    return v


def _is_static(func) -> bool:
    return any(dotted(d) == "staticmethod" for d in func.decorator_list) or source.enclosing_class(func) is None


def _helpers_of(mod, owner):
    """the helper functions an evaluated body of `owner` may call: module-level functions by name, functions nested in owner by name, methods of owner's class as '.name'"""
    out = {n.name: n for n in mod.tree.body if isinstance(n, ast.FunctionDef)}
    out.update({n.name: n for n in walk_body(owner) if isinstance(n, ast.FunctionDef)})
    cls = source.enclosing_class(owner)
    if cls is not None:
        out.update({"." + n.name: n for n in cls.body if isinstance(n, ast.FunctionDef) and n is not owner})
    return out


def _apply(func, args, kwargs, env, receiver=()):
    """value of the call func(*args, **kwargs) of a pure helper (parameters bound by position / keyword / default; the body is evaluated by _run)"""
    depth = env.get("__depth__", 0)
    if depth >= 4:
        raise me.CannotEval(f"call depth in {func.name}")
    a = func.args
    if a.vararg or a.kwarg or isinstance(func, ast.AsyncFunctionDef) or func.decorator_list and any(dotted(d) not in ("staticmethod", "classmethod") for d in func.decorator_list):
        raise me.CannotEval(f"signature of {func.name}")
    pos = [x.arg for x in a.posonlyargs + a.args]
    if pos and not _is_static(func):
        # a method: its first parameter is the receiver; when `self` / `cls` is not among the representative values it stays unbound (a body that reads it is not evaluated)
        if receiver:
            args = list(receiver) + list(args)
        else:
            pos = pos[1:]
    if len(args) > len(pos):
        raise me.CannotEval(f"too many arguments for {func.name}")
    base = {k: env[k] for k in ("__funcs__",) if k in env}
    local = dict(zip(pos, args))
    dflt = dict(zip(pos[::-1], a.defaults[::-1]))
    dflt.update({x.arg: d for x, d in zip(a.kwonlyargs, a.kw_defaults) if d is not None})
    for k, v in kwargs.items():
        if k in local or k not in pos + [x.arg for x in a.kwonlyargs]:
            raise me.CannotEval(f"argument {k} of {func.name}")
        local[k] = v
    for k in pos + [x.arg for x in a.kwonlyargs]:
        if k not in local:
            if k not in dflt:
                raise me.CannotEval(f"missing argument {k} of {func.name}")
            local[k] = _ev(dflt[k], dict(base))
    local.update(base)
    local["__depth__"] = depth + 1
    local["__foreign__"] = _reachable(list(local.values()))
    return _call_value(func, local)


def _run(stmts, env, budget=None):
    """Evaluate a small PURE statement list (assignments to locals and into lists / dicts created by these statements, for / while / if, return, assert, logging) in `env`;
    anything else raises CannotEval."""
    budget = budget if budget is not None else [4000]
    for st in stmts:
        budget[0] -= 1
        if budget[0] < 0:
            raise me.CannotEval("step budget exhausted")
        if isinstance(st, ast.Assign) and len(st.targets) == 1 and isinstance(st.targets[0], (ast.Name, ast.Tuple, ast.List)):
            _bind(st.targets[0], _ev(st.value, env), env)
        elif isinstance(st, ast.AugAssign) and isinstance(st.target, ast.Name):
            env[st.target.id] = _ev(ast.BinOp(left=ast.Name(id=st.target.id, ctx=ast.Load()), op=st.op, right=st.value), env)
        elif isinstance(st, (ast.Assign, ast.AugAssign)) and (isinstance(st, ast.AugAssign) or len(st.targets) == 1) \
                and isinstance(tg := (st.target if isinstance(st, ast.AugAssign) else st.targets[0]), ast.Subscript) and not isinstance(tg.slice, ast.Slice):
            box, key, val = _own_container(tg.value, env), _ev(tg.slice, env), _ev(st.value, env)
            try:
                if isinstance(st, ast.AugAssign):
                    val = _ev(ast.BinOp(left=ast.Name(id="__old__", ctx=ast.Load()), op=st.op, right=ast.Name(id="__new__", ctx=ast.Load())), {"__old__": box[key], "__new__": val})
                box[key] = val
            except (KeyError, IndexError, TypeError) as x:
                raise me.CannotEval(f"`{short(st, 50)}`: {type(x).__name__}")
        elif isinstance(st, ast.Expr) and isinstance(st.value, ast.Call) and isinstance(st.value.func, ast.Attribute) and st.value.func.attr in ("append", "extend") \
                and len(st.value.args) == 1 and not st.value.keywords and not is_logging_stmt(st):
            box, val = _own_container(st.value.func.value, env), _ev(st.value.args[0], env)
            if not isinstance(box, list):
                raise me.CannotEval(f"`{short(st, 50)}`: not a list")
            box.extend(_seq(val, short(st, 40))) if st.value.func.attr == "extend" else box.append(val)
        elif isinstance(st, ast.While) and not st.orelse:
            while _ev(st.test, env):
                budget[0] -= 1
                if budget[0] < 0:
                    raise me.CannotEval("step budget exhausted")
                try:
                    _run(st.body, env, budget)
                except _Flow as f:
                    if f.kind == "break":
                        break
                    if f.kind != "continue":
                        raise
        elif isinstance(st, ast.Assert):
            if not _ev(st.test, env):
                raise me.CannotEval(f"`{short(st, 50)}` fails")
        elif isinstance(st, ast.For) and not st.orelse:
            for v in _seq(_ev(st.iter, env), short(st.iter, 40)):
                _bind(st.target, v, env)
                try:
                    _run(st.body, env, budget)
                except _Flow as f:
                    if f.kind == "break":
                        break
                    if f.kind != "continue":
                        raise
        elif isinstance(st, ast.If):
            _run(st.body if _ev(st.test, env) else st.orelse, env, budget)
        elif isinstance(st, ast.Return):
            raise _Flow("return", None if st.value is None else _ev(st.value, env))
        elif isinstance(st, ast.Break):
            raise _Flow("break")
        elif isinstance(st, ast.Continue):
            raise _Flow("continue")
        elif isinstance(st, ast.Pass) or (isinstance(st, ast.Expr) and (isinstance(st.value, ast.Constant) or is_logging_stmt(st))):
            pass
        else:
            raise me.CannotEval(f"statement `{short(st, 60)}`")


def _call_value(func, env):
    """value returned by the (pure) body of `func` evaluated in env"""
    try:
        _run(func.body, dict(env))
    except _Flow as f:
        if f.kind == "return":
            return f.value
        raise me.CannotEval(f"`{f.kind}` outside a loop")
    return None


# ---- constructors ----------------------------------------------------------------------------------------------------------------------------------------------
def _record_fields(mod, cls, seen=()):
    """[(field name, default expression or None)] in constructor order of a record class (@dataclass / typing.NamedTuple, fields of record base classes of the same module
    first), None if cls is not such a class; AnchorMissing for a generated signature this module does not model (init=False, keyword-only fields, unknown base class)."""
    decos = [d for d in cls.decorator_list if (dotted(d.func if isinstance(d, ast.Call) else d) or "").split(".")[-1] == "dataclass"]
    named = any((dotted(b) or "").split(".")[-1] == "NamedTuple" for b in cls.bases)
    if not decos and not named:
        return None
    for d in decos:
        for k in (d.keywords if isinstance(d, ast.Call) else []):
            if k.arg in ("init", "kw_only") and not (isinstance(k.value, ast.Constant) and k.value.value is (k.arg == "init")):
                raise AnchorMissing(f"constructor generated by `@{short(d, 50)}` for {cls.name}")
    fields = []
    for b in cls.bases:
        nm = (dotted(b) or "").split(".")[-1]
        if nm in ("object", "NamedTuple"):
            continue
        base = mod.index().get(nm)
        if not isinstance(base, ast.ClassDef) or base is cls or base in seen:
            raise AnchorMissing(f"base class `{u(b)}` of the record class {cls.name}")
        inherited = _record_fields(mod, base, tuple(seen) + (cls,))
        if inherited is None and "__init__" in {n.name for n in base.body if isinstance(n, source.FUNC_TYPES)}:
            raise AnchorMissing(f"record class {cls.name} derives from `{u(b)}`, which has a hand-written constructor")
        fields = [f for f in fields if f[0] not in {x[0] for x in inherited or []}] + (inherited or [])
    for st in cls.body:
        name = default = None
        if isinstance(st, ast.AnnAssign) and isinstance(st.target, ast.Name):
            if "ClassVar" in u(st.annotation) or "KW_ONLY" in u(st.annotation) or "InitVar" in u(st.annotation):
                if "ClassVar" in u(st.annotation):
                    continue
                raise AnchorMissing(f"field `{short(st, 50)}` of the record class {cls.name}")
            name, default = st.target.id, st.value
        elif isinstance(st, ast.Assign) and len(st.targets) == 1 and isinstance(st.targets[0], ast.Name) and not st.targets[0].id.isupper() and not st.targets[0].id.startswith("__"):
            # N7 has turned `x: T = v` into `x = v`
            name, default = st.targets[0].id, st.value
        if name is None:
            continue
        if isinstance(default, ast.Call) and (dotted(default.func) or "").split(".")[-1] == "field":
            kw = {k.arg: k.value for k in default.keywords}
            if "init" in kw or "kw_only" in kw:
                raise AnchorMissing(f"field `{short(st, 50)}` of the record class {cls.name}")
            default = kw.get("default", ast.Constant(value=None) if "default_factory" in kw else None)
        fields = [f for f in fields if f[0] != name] + [(name, default)]
    return fields


def _ctor(mod, cls, _seen=()):
    """The constructor of a class as a function node: its own __init__, the __init__ inherited from a base class of the same module, or — for a record class (@dataclass /
    typing.NamedTuple) — the constructor the decorator generates, synthesised from the fields: `def __init__(self, f1, f2=..): self.f1 = f1; self.f2 = f2`. None if the class
    has none of these (AnchorMissing for a generated signature that is not modelled)."""
    own = mod.methods(cls).get("__init__")
    if own is not None:
        return own
    cached = getattr(cls, "_c02_ctor", None)
    if cached is not None:
        return cached
    fields = _record_fields(mod, cls)
    if fields is not None:
        if not fields:
            return None
        sig = ", ".join(f if d is None else f"{f}={u(d)}" for f, d in fields)
        fn = ast.parse(f"def __init__(self, {sig}):\n" + "".join(f"    self.{f} = {f}\n" for f, _ in fields)).body[0]
        for x in ast.walk(fn):
            if hasattr(x, "lineno"):
                x.lineno = x.end_lineno = cls.lineno
        fn.synthetic = True
        cls._c02_ctor = fn
        return fn
    for b in cls.bases:
        base = mod.index().get((dotted(b) or "").split(".")[-1])
        if isinstance(base, ast.ClassDef) and base is not cls and base not in _seen:
            got = _ctor(mod, base, tuple(_seen) + (cls,))
            if got is not None:
                return got
    return None


# ---- roles of the allocation matrix builder ----------------------------------------------------------------------------------------------------------------
def _builder(drv):
    for f in drv.functions():
        names = {last_attr(c.func) for c in source.calls_in(f)}
        if "JoinPoint" in names and "TaskAllocation" in names:
            return f
    raise AnchorMissing("matrix builder (function constructing both JoinPoint and TaskAllocation)")


def _is_fresh_list(e) -> bool:
    return (isinstance(e, ast.List) and not e.elts) or (isinstance(e, ast.Call) and dotted(e.func) == "list" and not e.args and not e.keywords)


def _range_bound(call):
    """N for `range(N)` / `range(0, N)`, else None"""
    if isinstance(call, ast.Call) and dotted(call.func) == "range" and not call.keywords:
        if len(call.args) == 1:
            return call.args[0]
        if len(call.args) == 2 and source.is_const(call.args[0], 0):
            return call.args[1]
    return None


def _matrix_alloc(b):
    """(matrix name, row count expression, allocating statement, form) — `[x] * R` (form 'repeat') or `[<fresh list> for _ in range(R)]` (form 'comprehension');
    of several candidates the one the builder returns is taken."""
    cands = []
    for n in walk_body(b):
        if not (isinstance(n, ast.Assign) and len(n.targets) == 1 and isinstance(n.targets[0], ast.Name)):
            continue
        v = n.value
        if isinstance(v, ast.BinOp) and isinstance(v.op, ast.Mult):
            lst, cnt = (v.left, v.right) if isinstance(v.left, ast.List) else ((v.right, v.left) if isinstance(v.right, ast.List) else (None, None))
            if lst is not None and len(lst.elts) == 1:
                cands.append((n.targets[0].id, cnt, n, "repeat"))
        elif isinstance(v, ast.ListComp) and len(v.generators) == 1 and not v.generators[0].ifs and _range_bound(v.generators[0].iter) is not None \
                and (_is_fresh_list(v.elt) or isinstance(v.elt, (ast.List, ast.ListComp))):
            cands.append((n.targets[0].id, _range_bound(v.generators[0].iter), n, "comprehension"))
    returned = {r.value.id for r in walk_body(b) if isinstance(r, ast.Return) and isinstance(r.value, ast.Name)}
    pref = [c for c in cands if c[0] in returned] or cands
    if not pref:
        raise AnchorMissing("matrix allocation in the builder (`[x] * <rows>` or `[[] for _ in range(<rows>)]`)")
    return pref[0]


# representative (first element-wide index s of a sub-task, its client count n, the element's client count e, row count R). e, R and n pairwise different in some case;
# a sub-task wider than the matrix (n > R: capped parallel element) and offsets that are no multiples of n are included.
_CASES = [(s, n, e, r) for e, r in ((4, 6), (2, 2), (3, 5)) for s in (0, 2, 5) for n in (1, 2, 3)]


class _Alloc:
    """The allocation matrix builder with its roles located by data flow:
       L / elem      the loop over the schedule (a self attribute) and its element variable
       matrix, rowcount, rows_texts   the matrix local, the expression of its row count, the texts that denote the row count
       SL / sub      the loop over the sub-tasks of an element
       tac / bd      the TaskAllocation(...) construction and its arguments by constructor POSITION (task, task-local index, element-wide index, total clients)
       CL / loopvar  the range loop around it (one iteration per client of the sub-task)
       svar          the running offset: the local advanced in the sub-task loop (outside the client loop) that the element-wide index is computed from"""

    def __init__(self, drv):
        self.drv = drv
        b = self.b = _builder(drv)
        self.defs = local_defs(b)
        self.funcs = _helpers_of(drv, b)  # (pure) helpers the extracted expressions may call: evaluated on the argument values
        ta_cls = drv.cls("TaskAllocation")
        ta_init = _ctor(drv, ta_cls)
        if ta_init is None or len(params_of(ta_init)) < 5:
            raise AnchorMissing("constructor of TaskAllocation (__init__ or record fields): (self, task, task-local index, element-wide index, total clients)")
        self.ta_init, self.ta_params = ta_init, params_of(ta_init)[1:5]
        L = None
        for n in walk_body(b):
            if isinstance(n, ast.For) and any(isinstance(x, ast.Call) and last_attr(x.func) == "TaskAllocation" for x in ast.walk(n)):
                it, tg = n.iter, n.target
                if isinstance(it, ast.Call) and dotted(it.func) == "enumerate" and len(it.args) == 1 and isinstance(tg, ast.Tuple) and len(tg.elts) == 2:
                    it, tg = it.args[0], tg.elts[1]
                if is_self_attr(it) and isinstance(tg, ast.Name):
                    L, self.elem, self.sched_attr = n, tg.id, it.attr
                    break
        if L is None:
            raise AnchorMissing("schedule loop (over a self attribute) around the TaskAllocation construction in the matrix builder")
        self.L = L
        self.matrix, self.rowcount, self.matrix_stmt, self.matrix_form = _matrix_alloc(b)
        self.rc_text = inline(self.rowcount, self.defs)
        self.rows_texts = {self.rc_text, f"len({self.matrix})"}
        subloops = []
        for n in ast.walk(L):
            if isinstance(n, ast.For) and n is not L:
                it, tg = n.iter, n.target
                if isinstance(it, ast.Call) and dotted(it.func) == "enumerate" and len(it.args) == 1 and isinstance(tg, ast.Tuple) and len(tg.elts) == 2:
                    it, tg = it.args[0], tg.elts[1]
                if isinstance(it, ast.Call) and dotted(it.func) == "iter" and len(it.args) == 1:
                    it = it.args[0]
                if u(it) == self.elem and isinstance(tg, ast.Name):
                    subloops.append((n, tg.id))
        if not subloops:
            raise AnchorMissing("loop over the sub-tasks of a schedule element")
        self.SL, self.sub = subloops[0]
        tac = [n for n in ast.walk(self.SL) if isinstance(n, ast.Call) and last_attr(n.func) == "TaskAllocation"]
        if not tac:
            raise AnchorMissing("TaskAllocation(...) in the sub-task loop")
        self.tac = tac[0]
        self.bd = source.bind_args(self.tac, ta_init)
        self.CL = None
        for a in source.ancestors(self.tac):
            if a is self.SL:
                break
            if isinstance(a, ast.For) and isinstance(a.iter, ast.Call) and dotted(a.iter.func) == "range" and 1 <= len(a.iter.args) <= 3 and not a.iter.keywords and isinstance(a.target, ast.Name):
                self.CL = a
                break
        if self.CL is None:
            raise AnchorMissing("client loop (`for <i> in range(...)`) around the TaskAllocation construction")
        self.loopvar = self.CL.target.id
        # locals defined by ONE unconditional statement of the client loop's own block (`client_index = s + k`): inside the loop their value is that definition, whatever
        # other loops of the builder re-use the name for
        cl_assigned = [t.id for n in ast.walk(self.CL) if isinstance(n, (ast.Assign, ast.AugAssign, ast.For, ast.NamedExpr)) and n is not self.CL
                       for t_ in (n.targets if isinstance(n, ast.Assign) else [n.target]) for t in ast.walk(t_) if isinstance(t, ast.Name)]
        self.cdefs = dict(self.defs)
        for st in flat(self.CL.body):
            if isinstance(st, ast.Assign) and len(st.targets) == 1 and isinstance(st.targets[0], ast.Name) and cl_assigned.count(st.targets[0].id) == 1 and st.targets[0].id != self.loopvar:
                self.cdefs[st.targets[0].id] = st.value
        # the running offset
        in_cl = {id(x) for x in ast.walk(self.CL)}
        advanced = [n for n in ast.walk(self.SL) if isinstance(n, ast.AugAssign) and isinstance(n.target, ast.Name) and id(n) not in in_cl]
        used = set()
        row_subs = [x.slice for x in ast.walk(self.CL) if isinstance(x, ast.Subscript) and u(x.value) == self.matrix]
        for e in list(self.CL.iter.args) + [self.arg("global")] + row_subs:
            if e is not None:
                used |= {x.id for x in ast.walk(inline_node(e, self.defs_at(e))) if isinstance(x, ast.Name)}
        cands = sorted({n.target.id for n in advanced} & used)
        if len(cands) != 1:
            raise AnchorMissing(f"running client offset of the sub-task loop (a local advanced after the client loop that the client range / element-wide index is computed from; candidates {cands})")
        self.svar = cands[0]
        self.advances = [n for n in advanced if n.target.id == self.svar]

    def arg(self, role):
        """argument of the TaskAllocation construction by constructor position: 'task' | 'local' | 'global' | 'total'"""
        p = self.ta_params[("task", "local", "global", "total").index(role)]
        if p in self.bd:
            return self.bd[p]
        # not given at the construction: the parameter's default (None if it has none)
        a = self.ta_init.args
        pos = a.posonlyargs + a.args
        dflt = dict(zip([x.arg for x in pos][len(pos) - len(a.defaults):], a.defaults))
        return dflt.get(p)

    def defs_at(self, expr):
        """the definitions that may be inlined into expr: function-wide single-assignment locals, plus the client loop's own definitions for an expression inside its body"""
        return self.cdefs if any(any(a is st for st in self.CL.body) for a in [expr] + list(source.ancestors(expr))) else self.defs

    def prep(self, expr):
        """copy of expr with single-assignment locals inlined and every sub-expression that IS the row count (by data flow) replaced by the name __rows__"""
        rows_texts = self.rows_texts
        defs = self.defs_at(expr)

        class S(ast.NodeTransformer):
            def visit(self, n):
                if isinstance(n, ast.expr) and u(n) in rows_texts:
                    return ast.Name(id="__rows__", ctx=ast.Load())
                return self.generic_visit(n)

        return S().visit(inline_node(S().visit(source.clone(expr)), defs))

    def value(self, expr, env):
        return _ev(self.prep(expr), env)

    def iterations(self, s, n, e, r, flags=(False, False)):
        """environments of the iterations of the client loop for a sub-task with n clients whose first element-wide index is s (element: e clients, matrix: r rows)"""
        env = {self.svar: s, self.sub: me.Record(clients=n, completes_parent=flags[0], any_completes_parent=flags[1]), self.elem: me.Record(clients=e), "__rows__": r,
               "__funcs__": self.funcs}
        args = [self.value(a, env) for a in self.CL.iter.args]
        if not all(isinstance(a, int) and not isinstance(a, bool) for a in args):
            raise me.CannotEval(f"{u(self.CL.iter)}: non-integer bounds")
        out = []
        for v in range(*args):
            env2 = dict(env)
            env2[self.loopvar] = v
            out.append(env2)
        return out

    def series(self, expr, case):
        """values of expr over the iterations of the client loop"""
        return [self.value(expr, env) for env in self.iterations(*case)]

    def holds_all(self, pred):
        """(True, None) if pred(case) is true for every representative case, else (False, witness case); CannotEval propagates"""
        for case in _CASES:
            if not pred(case):
                return False, case
        return True, None


# ---- deciding on values end to end ------------------------------------------------------------------------------------------------------------------------------
class _NotEvaluated:
    """value of a fact that could not be evaluated (the other facts of the evaluation stand)"""

    def __init__(self, why):
        self.why = why


class _Sim:
    """An end-to-end evaluation of analysed code on representative inputs (lazily, once): named facts of the property read off the RESULTS. _compute() returns
    {fact: None (holds on every input) | witness text}; CannotEval if the code cannot be evaluated."""

    what = "the code"
    inputs = "inputs"

    def __init__(self):
        self._f, self.cases = None, 0

    def _compute(self):
        raise NotImplementedError

    def verdict(self, facts):
        """(True, text) all the given facts hold on every input; (False, witness); (None, why the evaluation is impossible)"""
        if self._f is None:
            try:
                self._f = self._compute()
            except (me.CannotEval, AnchorMissing) as x:
                self._f = f"{self.what} cannot be evaluated on representative {self.inputs}: {x}"
            except _Flow as x:
                self._f = f"{self.what} cannot be evaluated on representative {self.inputs}: `{x.kind}` outside a loop"
        if isinstance(self._f, str):
            return None, self._f
        bad = [self._f[k] for k in facts if isinstance(self._f[k], str)]
        if not bad and any(isinstance(self._f[k], _NotEvaluated) for k in facts):
            return None, next(self._f[k].why for k in facts if isinstance(self._f[k], _NotEvaluated))
        return (False, bad[0]) if bad else (True, f"{self.what} evaluated for {self.cases} representative {self.inputs}: {', '.join(facts)} hold{'s' if len(facts) == 1 else ''} on every result")


class _Decider:
    """Obligations decided on the located role where that role is found AND right; where the role is not found, or has another shape than the enumerated one, the obligation
    is decided on the facts an end-to-end evaluation (sim.verdict) yields for it. Only if that evaluation is impossible too the verdict is the structural one: falsified for a
    role that WAS located and is wrong, 'not recognised' for a role that was not located.
    table: [(rule id, obligation name or name prefix, facts, key or None)] — the obligations `rest` states on values after a role could not be located at all."""

    def __init__(self, chk, sim, table, rid=None, extra=()):
        # rid: the one rule id of a shared rule function (the table then names none); extra: obligations that are only stated when they fail (looked up, never stated by `rest`)
        self.chk, self.sim, self.rid, self.done = chk, sim, rid, []
        self.table = [(rid or r, p, f, k) for r, p, f, k in table]
        self.extra = [(rid or r, p, f, k) for r, p, f, k in extra]

    def _facts(self, rid, name):
        for r, prefix, facts, _ in self.table + self.extra:
            if r == rid and name.startswith(prefix):
                return facts
        raise KeyError(f"{rid}: no facts declared for obligation `{name}`")

    def ob(self, rid, name, ok, node, detail="", located=True, key=None, definitive=False):
        """definitive: `ok` was decided on the VALUES of the located role (a witness exists when it is False): stated as it is"""
        rid = self.rid or rid
        self.done.append((rid, name))
        if ok or definitive:
            return self.chk.ob(rid, name, ok, node, detail, key=key)
        v, txt = self.sim.verdict(self._facts(rid, name))
        if v is None:
            if located:
                return self.chk.ob(rid, name, False, node, detail, key=key)
            self.chk.unknown(rid, f"{name}: {detail or 'role not located'}; {txt}", node)
            return None
        return self.chk.ob(rid, name, v, node, (detail + " — " if detail else "") + "decided on values: " + txt, key=key)

    def state(self, rid, name, ok, node, detail="", key=None):
        """an obligation decided (either way) on the values of its located role: stated as it is"""
        rid = self.rid or rid
        self.done.append((rid, name))
        return self.chk.ob(rid, name, ok, node, detail, key=key)

    def unknown(self, rid, name, text, node, key=None):
        """the role is located but its expression cannot be evaluated in isolation / has an unrecognised shape"""
        rid = self.rid or rid
        self.done.append((rid, name))
        v, txt = self.sim.verdict(self._facts(rid, name))
        if v is None:
            self.chk.unknown(rid, text, node)
        else:
            self.chk.ob(rid, name, v, node, "decided on values: " + txt, key=key)

    def rest(self, exc, node):
        """after a role could not be located at all (AnchorMissing): the obligations not yet stated are decided on values, if the evaluation is possible; else 'not recognised'"""
        v, why = self.sim.verdict(())
        if v is None:
            self.chk.unknown(self.table[0][0], f"not recognised: {exc}; {why}", node)
            return
        stated, open_ = list(self.done), {}
        for i, (rid, prefix, facts, key) in enumerate(self.table):
            # (a prefix listed k times stands for k obligations of that name)
            if sum(1 for r, n in stated if r == rid and n.startswith(prefix)) <= sum(1 for r, p, _, _ in self.table[:i] if (r, p) == (rid, prefix)):
                v, why = self.sim.verdict(facts)
                if v is None:
                    open_.setdefault((rid, why), []).append(prefix)  # this fact could not be evaluated: one line per rule and reason
                else:
                    self.ob(rid, prefix, False, node, f"not located: {exc}", located=False, key=key)
        for (rid, why), names in open_.items():
            self.done += [(rid, n) for n in names]
            self.chk.unknown(rid, f"not recognised: {exc}; {why} (open: {'; '.join(names)})", node)


class _MatrixSim(_Sim):
    """The allocator evaluated for representative schedules by the abstract machine of rules.C01 (which interprets the matrix builder, the helpers / properties it uses and
    the constructors of the cell classes). Facts read off the matrix (rows = clients) and off the per-step entries:
       aligned      all rows have one length and the join points sit at the same columns (None padding completes every round)
       own_rows     every row is a list object of its own
       rows         the allocation with element-wide client index g sits in row g % <row count> (or, for every allocation, in row g % <the element's client count>)
       tiling       the allocations of a sub-task with n clients have the element-wide indices s .. s + n - 1, each once (s = clients of the sub-tasks in front of it)
       local        task-local index == element-wide index - s          total    total clients == the element's client count
       task         every allocation between two join points belongs to a sub-task of the element between them
       announce     the join point closing an element carries the rows of its completing / any-completing sub-tasks, and nothing else
       elem_rows    row == g % <the element's client count>;   elem_rounds   an element takes ceil(<its sub-tasks' clients> / <its client count>) columns
       entries      the per-step entries are the sets of the (non-empty) sub-tasks of each element, one entry per element"""

    FACTS = ("aligned", "own_rows", "rows", "tiling", "local", "total", "task", "announce", "elem_rows", "elem_rounds", "entries")
    what, inputs = "the allocator", "schedules"

    def __init__(self, drv):
        super().__init__()
        self.drv = drv

    def _find_builder(self, c01):
        try:
            return _builder(self.drv)
        except AnchorMissing:
            pass
        both = ("JoinPoint", "TaskAllocation")
        cands = [f for c in self.drv.classes() for f in self.drv.methods(c).values() if params_of(f) == ["self"]
                 and set(both) <= set().union(*[c01._constructs(g, both) for g in c01._closure_in_module(self.drv, f)])]
        outer = [f for f in cands if not any(g is not f and any(f is h for h in c01._closure_in_module(self.drv, g)) for g in cands)]
        if len(outer) != 1:
            raise me.CannotEval("the matrix builder is not located")
        return outer[0]

    def _compute(self):
        import importlib

        try:
            c01 = importlib.import_module("rules.C01")
            machine, schedules, is_prop, model = c01._Machine, c01._schedules(), c01._is_property, c01._Obj
            T, P = c01._leaf, c01._par
            # over-committed elements whose completing / any-completing sub-tasks lie beyond the first round (element-wide index >= row count: physical row != logical index)
            schedules = list(schedules) + [
                ("[par(2 + 1 completing + 1 any on 2 clients)]", [P("p", [T("a", 2), T("b", 1, completes=True), T("c", 1, any_=True)], clients=2)]),
                ("[3, par(2 + 2 completing on 3 clients), 1]", [T("a", 3), P("p", [T("b", 2), T("c", 2, completes=True)], clients=3), T("d", 1)]),
                ("[par(1 any + 3 + 2 any on 4 clients), 4]", [P("p", [T("a", 1, any_=True), T("b", 3), T("c", 2, any_=True)], clients=4), T("d", 4)]),
            ]
            soft = (c01._Cannot, c01._Raised, RecursionError)
        except Exception as x:  # noqa: BLE001 — rules/C01.py is owned (and changed) elsewhere: whatever keeps it from loading makes this evaluation unavailable, not the check fail
            raise me.CannotEval(f"the abstract machine of rules.C01 is not available ({type(x).__name__}: {x})")
        drv = self.drv
        JP, TA = drv.cls("JoinPoint"), drv.cls("TaskAllocation")
        b = self._find_builder(c01)
        A = source.enclosing_class(b)
        if A is None:
            raise me.CannotEval("the matrix builder is not a method")
        tp = drv.methods(A).get("tasks_per_joinpoint")
        ta_ctor, jp_ctor = _ctor(drv, TA), _ctor(drv, JP)
        if ta_ctor is None or jp_ctor is None or len(params_of(ta_ctor)) < 5 or len(params_of(jp_ctor)) < 4:
            raise me.CannotEval("constructors of TaskAllocation(task, task-local index, element-wide index, total clients) / JoinPoint(id, completing clients, any-completing clients)")
        ta_p, jp_p = params_of(ta_ctor)[1:5], params_of(jp_ctor)[2:4]
        f = dict.fromkeys(self.FACTS)
        rows_r = rows_e = True
        rows_w = None

        def fail(k, txt):
            if f[k] is None:
                f[k] = txt
                if k == "aligned":
                    # the facts about what lies between two join points are read off aligned matrices only: a ragged matrix leaves none of them standing
                    for k2 in ("rows", "tiling", "local", "total", "task", "announce", "elem_rows", "elem_rounds"):
                        f[k2] = f[k2] or txt

        def is_a(v, cls):
            return isinstance(v, model) and v.cls is cls and isinstance(getattr(v, "init_args", None), dict)

        def read(m, obj, fn):
            return m.getattr(obj, fn.name) if is_prop(fn) else m.apply(m.getattr(obj, fn.name), [], {})

        for name, sched in schedules:
            E = None
            try:
                m = machine(drv)
                alloc = m.new(A, [list(sched)])
                M = read(m, alloc, b)
                leaves_of = [list(m._iter(el, None)) for el in sched]
                if tp is not None and not isinstance(f["entries"], _NotEvaluated):
                    try:
                        E = read(m, alloc, tp)
                    except soft as x:
                        # the entries cannot be computed from this matrix (e.g. a ragged one): only the fact about the entries is left open
                        f["entries"] = _NotEvaluated(f"the per-step entries cannot be evaluated: schedule {name}: {type(x).__name__.strip('_')}: {x}")
            except soft as x:
                raise me.CannotEval(f"schedule {name}: {type(x).__name__.strip('_')}: {x}")
            except (AttributeError, TypeError) as x:  # the machine of rules.C01 is owned (and changed) elsewhere: an interface that moved is 'not available', not a crash
                raise me.CannotEval(f"the abstract machine of rules.C01 is not usable as expected ({type(x).__name__}: {x})")
            if not (isinstance(M, (list, tuple)) and M and all(isinstance(r, (list, tuple)) for r in M)):
                raise me.CannotEval(f"schedule {name}: the matrix is not a non-empty sequence of rows")
            self.cases += 1
            where = f"schedule {name}"
            rows, R = [list(r) for r in M], len(M)
            if len({id(r) for r in M}) != R:
                fail("own_rows", f"{where}: the {R} rows are {len({id(r) for r in M})} list object(s)")
            jpos = [[i for i, e in enumerate(r) if is_a(e, JP)] for r in rows]
            if E is not None and not isinstance(f["entries"], _NotEvaluated):
                want = [sorted(id(lf) for lf in leaves if lf.fields["clients"] > 0) for leaves in leaves_of]
                got = [sorted(id(x) for x in s_) for s_ in E] if isinstance(E, (list, tuple)) and all(isinstance(s_, (set, frozenset, list, tuple)) for s_ in E) else None
                if got != want:
                    label = {id(lf): lf.fields.get("_label") for leaves in leaves_of for lf in leaves}
                    fail("entries", f"{where}: per-step entries {[[label.get(i, '?') for i in s_] for s_ in got] if got is not None else short(ast.Constant(value=repr(E)), 60)}, "
                                    f"expected {[[label[i] for i in s_] for s_ in want]}")
            if len({len(r) for r in rows}) != 1 or any(p != jpos[0] for p in jpos) or len(jpos[0]) != len(sched) + 1 or (jpos[0] and jpos[0][0] != 0) or (rows[0] and not is_a(rows[0][-1], JP)):
                fail("aligned", f"{where}: row lengths {[len(r) for r in rows]}, join points at columns {jpos}")
                continue
            for k, el in enumerate(sched):
                leaves, e_k = leaves_of[k], el.fields["clients"]
                starts, s = {}, 0
                for lf in leaves:
                    starts[id(lf)] = s
                    s += lf.fields["clients"]
                logical = s
                seen = {id(lf): [] for lf in leaves}
                ew = f"{where}, element {k + 1} ({e_k} client(s))"
                for ri, r in enumerate(rows):
                    for e in r[jpos[0][k] + 1:jpos[0][k + 1]]:
                        if e is None:
                            continue
                        vals = [e.init_args.get(p) for p in ta_p] if is_a(e, TA) else None
                        lf = next((x for x in leaves if vals is not None and x is vals[0]), None)
                        if lf is None or any(isinstance(v, bool) or not isinstance(v, int) for v in vals[1:]):
                            fail("task", f"{ew}: row {ri} holds `{e!r}`, which is not an allocation of one of the element's sub-tasks")
                            continue
                        seen[id(lf)].append((vals[2], vals[1], vals[3], ri))
                for lf in leaves:
                    s0, n, lbl = starts[id(lf)], lf.fields["clients"], lf.fields.get("_label")
                    got = sorted(g for g, _, _, _ in seen[id(lf)])
                    if got != list(range(s0, s0 + n)):
                        fail("tiling", f"{ew}: task {lbl} with {n} client(s), first element-wide index {s0}, is allocated to the element-wide indices {got}")
                    for g, l_, t_, ri in seen[id(lf)]:
                        if l_ != g - s0:
                            fail("local", f"{ew}: task {lbl} (first element-wide index {s0}): element-wide index {g} has the task-local index {l_}")
                        if t_ != e_k:
                            fail("total", f"{ew}: task {lbl}: total clients {t_}")
                        if ri != g % R:
                            rows_r, rows_w = False, rows_w or f"{ew}, {R} rows: element-wide index {g} of task {lbl} sits in row {ri}"
                        if e_k <= 0 or ri != g % e_k:
                            rows_e = False
                            fail("elem_rows", f"{ew}: element-wide index {g} of task {lbl} sits in row {ri}: the element occupies rows {sorted({x[3] for v in seen.values() for x in v})}")
                width = jpos[0][k + 1] - jpos[0][k] - 1
                if width != (math.ceil(logical / e_k) if e_k > 0 else 0):
                    fail("elem_rounds", f"{ew}: sub-tasks with {logical} client(s) in total take {width} column(s) instead of {math.ceil(logical / e_k) if e_k > 0 else 0}")
                # what the join point behind the element carries
                jp = rows[0][jpos[0][k + 1]]
                for flag, p in zip(("completes_parent", "any_completes_parent"), jp_p):
                    carried = jp.init_args.get(p)
                    got = sorted(set(carried)) if isinstance(carried, (list, tuple, set)) else []
                    want = sorted({x[3] for lf in leaves if lf.fields[flag] for x in seen[id(lf)]})
                    if got != want:
                        fail("announce", f"{ew}: the join point behind it carries {got} as `{p}`, the rows of its {flag} sub-tasks are {want}")
        if not rows_r and not rows_e:
            f["rows"] = f["rows"] or rows_w
        return f


def _matrix_sim(drv):
    """the (lazy) evaluation of the allocator shared by all rules that look at this module"""
    sim = getattr(drv, "_c02_matrix_sim", None)
    if sim is None:
        sim = drv._c02_matrix_sim = _MatrixSim(drv)
    return sim


_EK = f"{_D}:Allocator.tasks_per_joinpoint:"
_ENTRY_OBS = [
    (None, "an entry is emitted only at a join-point column", ("entries",), None),
    (None, "join points and per-step entries are emitted under the same emptiness condition", ("entries",), _EK + "entry-vs-joinpoint"),
    (None, "one entry per join-point column (not one per client row)", ("entries",), None),
    (None, "the initial join point yields no entry", ("entries",), None),
    (None, "accumulator reset after each entry", ("entries",), None),
    (None, "task allocations are collected into the current entry", ("entries",), None),
]
_ENTRY_OBS_EXTRA = [
    (None, "an entry is emitted for every join-point column except the initial one (column 0)", ("entries",), _EK + "wrong_idx"),
    (None, "an entry is emitted for exactly one row (the first)", ("entries",), _EK + "wrong_row"),
]


# ---- O2.1 -----------------------------------------------------------------------------------------------------------------------------------------------------
def _tp_roles(tp, a, mtexts, rc_texts):
    """Roles of the loops enclosing the entry emission `a` in tasks_per_joinpoint, derived from WHAT each loop iterates (not from names):
    -> (roles: index variable -> 'row' | 'col', loop_roles: what each enclosing loop runs over, unrecognised loops)
    rows: the matrix itself, range(<row count>) / range(len(<matrix>)), a column; columns: zip(*<matrix>), range(len(<a row>)), a row; plus every use `<matrix>[r][c]`."""
    roles, kinds, loop_roles, unrec = {}, {}, [], []

    def is_matrix(e):
        return u(e) in mtexts

    def is_row(e):
        return (isinstance(e, ast.Subscript) and is_matrix(e.value) and not isinstance(e.slice, ast.Slice)) or (isinstance(e, ast.Name) and kinds.get(e.id) == "row")

    loops = [x for x in source.ancestors(a) if isinstance(x, ast.For)]
    for lp in reversed(loops):
        it, tg = lp.iter, lp.target
        idx = elt = None
        if isinstance(it, ast.Call) and dotted(it.func) == "enumerate" and len(it.args) == 1 and not it.keywords and isinstance(tg, ast.Tuple) and len(tg.elts) == 2 \
                and all(isinstance(t, ast.Name) for t in tg.elts):
            idx, elt, it = tg.elts[0].id, tg.elts[1].id, it.args[0]
        elif isinstance(tg, ast.Name):
            elt = tg.id
        else:
            unrec.append(lp)
            continue
        role = None
        bound = _range_bound(it)
        if bound is not None and idx is None:
            if u(bound) in rc_texts or (isinstance(bound, ast.Call) and dotted(bound.func) == "len" and len(bound.args) == 1 and is_matrix(bound.args[0])):
                role = "row"
            elif isinstance(bound, ast.Call) and dotted(bound.func) == "len" and len(bound.args) == 1 and is_row(bound.args[0]):
                role = "col"
            idx, elt = elt, None
        elif is_matrix(it):
            role, kinds[elt] = "row", "row"
        elif isinstance(it, ast.Call) and dotted(it.func) == "zip" and len(it.args) == 1 and isinstance(it.args[0], ast.Starred) and is_matrix(it.args[0].value):
            role, kinds[elt] = "col", "col"
        elif is_row(it):
            role = "col"
        elif isinstance(it, ast.Name) and kinds.get(it.id) == "col":
            role = "row"
        loop_roles.append((lp, role, idx))
        if role is not None and idx is not None:
            roles[idx] = role
    # uses <matrix>[r][c]
    for n in walk_body(tp):
        if isinstance(n, ast.Subscript) and isinstance(n.value, ast.Subscript) and is_matrix(n.value.value):
            for e, role in ((n.value.slice, "row"), (n.slice, "col")):
                if isinstance(e, ast.Name):
                    if roles.get(e.id, role) != role:
                        roles[e.id] = "conflict"
                    else:
                        roles[e.id] = role
    out_loops = []
    for lp, role, idx in loop_roles:
        if role is None and idx is not None and roles.get(idx) in ("row", "col"):
            role = roles[idx]
        if role is None:
            unrec.append(lp)
        out_loops.append(role)
    return roles, out_loops, unrec


def step_entry_agreement(chk, drv, rid):
    """O2.1 (also used by C11/O11.4): the builder's join-point emission and the per-step entry emission are controlled by the same conditions. The emission condition of an
    entry is evaluated on values: entry kind (join point / task allocation / None padding) x row x column x accumulator empty or not."""
    if rid not in chk.rules:
        chk.rule(rid, "steps are derived from the join points and indexed into the per-step task sets: join-point emission (builder) and entry emission (tasks_per_joinpoint) must be "
                 "controlled by the same conditions: one entry per non-initial join-point column, independent of whether the element was empty unless the builder skips empty elements too", 3,
                 "a schedule with an element left empty (by filters): fewer entries than steps -> IndexError in progress reporting / wrong task names")
    AL = drv.cls("Allocator")
    tp = drv.methods(AL).get("tasks_per_joinpoint")
    if tp is None:
        raise AnchorMissing("Allocator.tasks_per_joinpoint")
    # allocator side: located roles, decided on the value table of the emission condition; roles that are not located / of another shape: decided on the entries the
    # allocator yields for representative schedules
    D = _Decider(chk, _matrix_sim(drv), _ENTRY_OBS, rid=rid, extra=_ENTRY_OBS_EXTRA)
    try:
        _entry_roles(D, rid, drv, AL, tp)
    except AnchorMissing as x:
        D.rest(x, tp)

    # steps derived from join points: the driver stores the allocator's entries on itself and indexes them by its step counter
    DR = drv.cls("Driver")
    dm = drv.methods(DR)
    stores = [(n, t.attr) for m_ in dm.values() for n in walk_body(m_) if isinstance(n, ast.Assign) and isinstance(n.value, ast.Attribute) and n.value.attr == tp.name
              for t in n.targets if is_self_attr(t)]
    if not stores:
        chk.unknown(rid, f"no method of Driver stores the allocator's per-step entries (`<allocator>.{tp.name}`) in an attribute", DR)
        return
    attr = stores[0][1]
    writers = [n for m_ in dm.values() for n in walk_body(m_) if isinstance(n, (ast.Assign, ast.AugAssign, ast.AnnAssign))
               and any(is_self_attr(t, attr) for t in (n.targets if isinstance(n, ast.Assign) else [n.target]))]

    def placeholder(n):
        # `= None` anywhere, an empty container in the constructor: the attribute before the benchmark is prepared
        if not isinstance(n, ast.Assign):
            return False
        if source.is_const(n.value) and n.value.value is None:
            return True
        empty = (isinstance(n.value, (ast.List, ast.Tuple)) and not n.value.elts) or (isinstance(n.value, ast.Call) and dotted(n.value.func) in ("list", "tuple") and not n.value.args and not n.value.keywords)
        return empty and getattr(source.enclosing_func(n), "name", "") == "__init__"

    other = [n for n in writers if not any(n is s for s, _ in stores) and not placeholder(n)]
    chk.ob(rid, "driver takes its per-step entries from the allocator", not other, other[0] if other else stores[0][0],
           "" if not other else f"`self.{attr}` is also written by `{short(other[0], 60)}`")
    subs = [(m_, n) for m_ in dm.values() for n in walk_body(m_) if isinstance(n, ast.Subscript) and is_self_attr(n.value, attr) and not isinstance(n.slice, ast.Slice)]
    if not subs:
        chk.unknown(rid, f"no method of Driver indexes the per-step entries `self.{attr}`", DR)
        return
    # the step counter: an attribute advanced by one that starts before the first step (-1, the artificial initial join point)
    counters = {n.target.attr for m_ in dm.values() for n in walk_body(m_) if isinstance(n, ast.AugAssign) and isinstance(n.op, ast.Add) and is_self_attr(n.target) and source.is_const(n.value, 1)}
    counters &= {t.attr for m_ in dm.values() for n in walk_body(m_) if isinstance(n, ast.Assign) and u(n.value) == "-1" for t in n.targets if is_self_attr(t)}
    if not counters:
        chk.unknown(rid, "the driver's step counter (an attribute initialised to -1 and advanced by `+= 1`) is not recognised", DR)
        return

    def index_values(m_, e, depth=0):
        """the expressions an index denotes, in terms of attributes of the driver: locals inlined, a parameter of a helper method replaced by the arguments of its call sites
        in the class; None: not resolvable (a parameter of a method no call site of which is found)"""
        e = inline_node(e, local_defs(m_))
        if isinstance(e, ast.Name) and e.id in params_of(m_)[1:] and depth < 3:
            out = []
            for c_m in dm.values():
                for c in walk_body(c_m):
                    if isinstance(c, ast.Call) and isinstance(c.func, ast.Attribute) and is_self_attr(c.func) and c.func.attr == m_.name:
                        a_ = source.bind_args(c, m_).get(e.id)
                        got = index_values(c_m, a_, depth + 1) if a_ is not None else None
                        if got is None:
                            return None
                        out += got
            return out or None
        return [e]

    bad, unresolved = [], []
    for m_, n in subs:
        vals = index_values(m_, n.slice)
        if vals is None:
            unresolved.append(n)
        elif not all(is_self_attr(v) and v.attr in counters for v in vals):
            bad.append(n)
    if unresolved and not bad:
        chk.unknown(rid, f"`{short(unresolved[0], 60)}`: the index is a parameter whose arguments are not located in the class", unresolved[0])
        return
    chk.ob(rid, "progress reporting indexes the entries by the current step", not bad, bad[0] if bad else subs[0][1],
           "" if not bad else f"`{short(bad[0], 60)}`: the index is not the driver's step counter (an attribute advanced by `+= 1`)")


def _entry_roles(D, rid, drv, AL, tp):
    chk = D.chk
    b = _builder(drv)
    # accumulator: local assigned set()
    acc = None
    for n in walk_body(tp):
        if isinstance(n, ast.Assign) and isinstance(n.targets[0], ast.Name) and isinstance(n.value, ast.Call) and dotted(n.value.func) == "set" and not n.value.args:
            acc = n.targets[0].id
    if acc is None:
        raise AnchorMissing("accumulator set in tasks_per_joinpoint")
    apps = [n for n in walk_body(tp) if isinstance(n, ast.Call) and last_attr(n.func) == "append" and n.args and u(n.args[0]) == acc]
    if not apps:
        raise AnchorMissing("append of the accumulated task set in tasks_per_joinpoint")
    a = apps[0]
    # the matrix as seen by tasks_per_joinpoint: the builder's value (a property / method of the same class) and the locals bound to it; its row count as the builder defines it
    mtexts = {f"self.{b.name}", f"self.{b.name}()"}
    mtexts |= {n.targets[0].id for n in walk_body(tp) if isinstance(n, ast.Assign) and len(n.targets) == 1 and isinstance(n.targets[0], ast.Name) and u(n.value) in mtexts}
    try:
        rc_texts = {inline(_matrix_alloc(b)[1], local_defs(b))}
    except AnchorMissing:
        rc_texts = set()
    roles, loop_roles, unrec = _tp_roles(tp, a, mtexts, rc_texts)
    rowvars = {v for v, r in roles.items() if r == "row"}
    colvars = {v for v, r in roles.items() if r == "col"}
    gs = guards(a, path_sensitive=True)
    unknown = []

    def emitted(kind, r, c, nonempty, gs=gs):
        env = {acc: ({"t"} if nonempty else set())}
        env.update({v: r for v in rowvars})
        env.update({v: c for v in colvars})

        def atom(n):
            if isinstance(n, (ast.BoolOp, ast.Constant, ast.NamedExpr)) or (isinstance(n, ast.UnaryOp) and isinstance(n.op, ast.Not)):
                return None
            if isinstance(n, ast.Call) and dotted(n.func) == "isinstance" and len(n.args) == 2:
                cls = {last_attr(x) for x in (n.args[1].elts if isinstance(n.args[1], ast.Tuple) else [n.args[1]])}
                if cls <= {"JoinPoint", "TaskAllocation"}:
                    return (kind == "jp" and "JoinPoint" in cls) or (kind == "ta" and "TaskAllocation" in cls)
                raise UnknownAtom(u(n))
            callees = {id(x.func) for x in ast.walk(n) if isinstance(x, ast.Call)}
            names = {x.id for x in ast.walk(n) if isinstance(x, ast.Name) and id(x) not in callees}
            if isinstance(n, ast.Compare) and len(n.ops) == 1 and isinstance(n.ops[0], (ast.Is, ast.IsNot)) and source.is_const(n.comparators[0]) and n.comparators[0].value is None \
                    and not (names & (set(env) | {"self"})):
                return (kind == "none") == isinstance(n.ops[0], ast.Is)
            if names and names <= set(env):
                try:
                    return bool(me.ev(n, env))
                except me.CannotEval:
                    pass
            raise UnknownAtom(u(n))

        for t, pol in gs:
            try:
                if bool_eval(t, atom) != pol:
                    return False
            except UnknownAtom as x:
                txt = str(x) if pol else f"not ({x})"
                if txt not in unknown:
                    unknown.append(txt)
                return False
        return True

    table = {(k, r, c, ne): emitted(k, r, c, ne) for k in ("jp", "ta", "none") for r in range(4) for c in range(5) for ne in (False, True)}
    if unknown:
        raise AnchorMissing(f"entry emission in tasks_per_joinpoint is controlled by unrecognised condition(s) {unknown}")
    if unrec or "conflict" in roles.values():
        raise AnchorMissing(f"entry emission in tasks_per_joinpoint: cannot tell whether `{short(unrec[0].iter if unrec else a, 50)}` runs over the rows or the columns of the matrix")
    row_loop = "row" in loop_roles
    nonempty = any(table["jp", r, c, True] != table["jp", r, c, False] for r in range(4) for c in range(5))
    E = {(r, c) for r in range(4) for c in range(5) if table["jp", r, c, True]}
    if not row_loop:
        E = {(0, c) for r, c in E}
    cols = {c for _, c in E}
    rows_of = {c: {r for r, c_ in E if c_ == c} for c in cols}
    isjp = any(table.values()) and not any(v for (k, _, _, _), v in table.items() if k != "jp")
    if not nonempty and cols and cols - {0} != {1, 2, 3, 4}:
        D.ob(rid, "an entry is emitted for every join-point column except the initial one (column 0)", False, a,
               f"entries are emitted at join-point columns {sorted(cols)} of 0..4 only: an element left empty at the start of the schedule gets no entry, entries are shifted against the steps",
               key="esrally/driver/driver.py:Allocator.tasks_per_joinpoint:wrong_idx")
    if not nonempty and row_loop and any(len(rs) == 1 and rs != {0} for rs in rows_of.values()):
        D.ob(rid, "an entry is emitted for exactly one row (the first)", False, a, f"rows per join-point column: { {c: sorted(rs) for c, rs in sorted(rows_of.items())} }: a matrix with one row never gets an entry",
               key="esrally/driver/driver.py:Allocator.tasks_per_joinpoint:wrong_row")
    D.ob(rid, "an entry is emitted only at a join-point column", isjp, a, f"guards: {[(u(t), p) for t, p in gs]}")
    # builder side: is the join-point broadcast inside the schedule loop conditional on the element being non-empty?
    sched_loops = [n for n in walk_body(b) if isinstance(n, ast.For) and any(isinstance(x, ast.Call) and last_attr(x.func) == "TaskAllocation" for x in ast.walk(n))]
    if not sched_loops:
        raise AnchorMissing("schedule loop in the matrix builder")
    L = sched_loops[0]
    jp_calls = [n for n in ast.walk(L) if isinstance(n, ast.Call) and last_attr(n.func) == "JoinPoint"]
    if not jp_calls:
        raise AnchorMissing("JoinPoint(...) construction inside the schedule loop of the matrix builder")
    builder_cond = [(u(t), pol) for t, pol in guards(jp_calls[0], stop=L, path_sensitive=True)]
    builder_skips_empty = bool(builder_cond)
    ok = nonempty == builder_skips_empty
    D.ob(rid, "join points and per-step entries are emitted under the same emptiness condition", ok, a,
           f"builder emits a join point per element {'only if non-empty' if builder_skips_empty else 'unconditionally'}; entries are emitted {'only for non-empty task sets' if nonempty else 'for every join point'}"
           + ("" if ok else " -> number of steps (join points - 1) and number of entries disagree for a schedule with an empty element"),
           key=f"{_D}:Allocator.tasks_per_joinpoint:entry-vs-joinpoint")
    once = nonempty or not row_loop or all(len(rs) == 1 for rs in rows_of.values())
    D.ob(rid, "one entry per join-point column (not one per client row)", once, a, "" if once else "entry appended for every client row of the join-point column")
    init_skip = nonempty or 0 not in cols
    D.ob(rid, "the initial join point yields no entry", init_skip, a, "" if init_skip else "an entry is emitted for the artificial first join point: entries are shifted by one step")
    # the accumulator is re-created / cleared whenever an entry is emitted: in the block of the append, or under the same conditions inside the same loop
    blk = logical_parent(source.enclosing_stmt(a))
    inner_loop = source.enclosing(a, ast.For)
    all_resets = [n for n in walk_body(tp) if ((isinstance(n, ast.Assign) and isinstance(n.targets[0], ast.Name) and n.targets[0].id == acc)
                                               or (isinstance(n, ast.Expr) and isinstance(n.value, ast.Call) and u(n.value.func) == f"{acc}.clear"))
                  and inner_loop is not None and any(x is inner_loop for x in source.ancestors(n))]
    g_a = {(u(t_), p_) for t_, p_ in guards(a, stop=inner_loop, path_sensitive=True)}
    resets = [n for n in all_resets if logical_parent(n) is blk or {(u(t_), p_) for t_, p_ in guards(n, stop=inner_loop, path_sensitive=True)} == g_a]
    RESET, COLLECT = "accumulator reset after each entry", "task allocations are collected into the current entry"
    if all_resets and not resets:
        D.unknown(rid, RESET, f"`{short(all_resets[0], 40)}` resets the accumulator under other conditions than the entry is emitted under", all_resets[0])
    else:
        D.ob(rid, RESET, bool(resets), a, "" if resets else f"`{acc}` is neither re-created nor cleared inside the loop that appends it: every entry repeats the tasks of the earlier steps",
             located=inner_loop is not None)
    adds = [n for n in walk_body(tp) if isinstance(n, ast.Call) and u(n.func) == f"{acc}.add" and len(n.args) == 1]
    if not adds:
        D.unknown(rid, COLLECT, f"no `{acc}.add(...)` in tasks_per_joinpoint: how task allocations are collected into the current entry is not recognised", tp)
        return
    # collected for every task allocation (any row, any column) and for nothing else — decided on the same value table as the emission; the collected value is the
    # attribute the TaskAllocation constructor stores its first parameter (the task) in
    ags = guards(adds[0], path_sensitive=True)
    n_unknown = len(unknown)
    tbl = {(k, r, c, ne): emitted(k, r, c, ne, ags) for k in ("jp", "ta", "none") for r in range(3) for c in range(3) for ne in (False, True)}
    ta_init = _ctor(drv, drv.cls("TaskAllocation"))
    task_attr = None
    if ta_init is not None and len(params_of(ta_init)) >= 2:
        task_attr = next((n.targets[0].attr for n in walk_body(ta_init) if isinstance(n, ast.Assign) and len(n.targets) == 1 and is_self_attr(n.targets[0]) and u(n.value) == params_of(ta_init)[1]), None)
    collected = inline_node(adds[0].args[0], local_defs(tp))  # `task = allocation.task; current_tasks.add(task)`
    if len(unknown) > n_unknown:
        D.unknown(rid, COLLECT, f"collection of the task allocations `{short(adds[0], 40)}` is controlled by unrecognised condition(s) {unknown[n_unknown:]}", adds[0])
    elif task_attr is None:
        D.unknown(rid, COLLECT, "the attribute in which the constructor of TaskAllocation keeps its first parameter (the task) is not located", adds[0])
    elif not isinstance(collected, ast.Attribute):
        D.unknown(rid, COLLECT, f"`{short(adds[0], 50)}`: the collected value is not an attribute of the matrix entry", adds[0])
    else:
        ok = all(v == (k == "ta") for (k, _, _, _), v in tbl.items()) and collected.attr == task_attr
        D.ob(rid, COLLECT, ok, adds[0], f"`{short(adds[0], 50)}` under {[(u(t_), p_) for t_, p_ in ags]}")


def client_floor_rule(chk, rid, drv):
    """Allocator.clients == max(1, max client count over ALL schedule elements): the floor of one row must hold for a NON-empty schedule whose elements are all empty as well
    (`max(gen, default=1)` only covers the empty schedule) — shared with C11 (filters can empty every element). Decided on values: the property's body is evaluated for
    representative schedules (client counts per element), whatever its form (running maximum, max() over a comprehension, list with a leading 1, ...)."""
    AL2 = drv.cls("Allocator")
    clf = drv.methods(AL2).get("clients")
    if clf is None:
        raise AnchorMissing("Allocator.clients")
    # the schedule attribute: the self attribute the property reads (the one the builder iterates, if the property reads several)
    meths = drv.methods(AL2)
    # the schedule attribute: the self attribute the property (with the helper methods it delegates to) reads; if it reads several: the one the constructor keeps its
    # parameter in / the builder iterates
    todo, seen = [clf], []
    while todo:
        f_ = todo.pop()
        if any(f_ is x for x in seen):
            continue
        seen.append(f_)
        todo += [meths[c.func.attr] for c in walk_body(f_) if isinstance(c, ast.Call) and is_self_attr(c.func) and c.func.attr in meths]
    attrs = sorted({n.attr for f_ in seen for n in walk_body(f_) if is_self_attr(n) and isinstance(n.ctx, ast.Load) and n.attr not in meths})
    if len(attrs) != 1:
        ini = _ctor(drv, AL2)
        kept = [n.targets[0].attr for n in walk_body(ini) if isinstance(n, ast.Assign) and len(n.targets) == 1 and is_self_attr(n.targets[0]) and len(params_of(ini)) == 2
                and u(n.value) == params_of(ini)[1]] if ini is not None else []
        try:
            kept.append(_Alloc(drv).sched_attr)
        except AnchorMissing:
            pass
        sched = next((k_ for k_ in kept if k_ in attrs), None)
        if sched is None:
            raise AnchorMissing(f"the schedule attribute read by Allocator.clients (reads {attrs})")
        attrs = [sched]
    sched = attrs[0]

    helpers = _helpers_of(drv, clf)  # helper methods / functions the property delegates to are evaluated with it

    def rows(counts):
        return _call_value(clf, {"self": me.Record(**{sched: [me.Record(clients=c) for c in counts]}), "__funcs__": helpers})

    wide = [[2, 5, 3], [5, 2], [3], [0, 4], [1, 1, 7], [2, 2], [6, 0, 1]]
    empty = [[], [0], [0, 0]]
    try:
        got = {tuple(cs): rows(cs) for cs in wide + empty}
    except me.CannotEval as x:
        chk.unknown(rid, f"Allocator.clients cannot be evaluated on representative schedules ({x})", clf)
        return
    w_all = next((cs for cs in wide if got[tuple(cs)] != max(cs)), None)
    w_floor = next((cs for cs in empty if not (isinstance(got[tuple(cs)], int) and got[tuple(cs)] >= 1)), None)
    chk.ob(rid, "row count == max client count over all schedule elements", w_all is None, clf,
           "evaluated for element client counts " + ", ".join(f"{cs} -> {got[tuple(cs)]}" for cs in wide[:4]) if w_all is None else
           f"a schedule whose elements request {w_all} clients gets {got[tuple(w_all)]} row(s) instead of {max(w_all)}", key="esrally/driver/driver.py:Allocator.clients:max-over-all")
    chk.ob(rid, "row count is at least 1 for every schedule (also a non-empty one whose elements are all empty)", w_floor is None, clf,
           "evaluated for " + ", ".join(f"{cs} -> {got[tuple(cs)]}" for cs in empty) if w_floor is None else
           f"a schedule whose elements request {w_floor} clients ({'the empty schedule' if not w_floor else 'every element left empty'}) yields {got[tuple(w_floor)]} row(s): "
           "no client walks through the join points (`default=` of max() only applies to an EMPTY schedule)", key="esrally/driver/driver.py:Allocator.clients:floor")


def _case_txt(case):
    s, n, e, r = case
    return f"sub-task with {n} client(s) starting at element-wide index {s}, element with {e} client(s), {r} row(s)"


_TOTALS_OBS = [
    (None, "allocation: total clients == the schedule element's client count", ("total",), f"{_D}:Allocator.allocations:total-clients"),
    (None, "allocation: global client index == the element-wide client index", ("tiling",), f"{_D}:Allocator.allocations:global-index"),
    (None, "allocation: task-local client index == element-wide index minus the index of the sub-task's first client", ("local", "tiling"), f"{_D}:Allocator.allocations:task-local-index"),
]


def allocation_totals(chk, rid, drv):
    """TaskAllocation(task, task-local index, element-wide index, total clients) in the allocation builder: the values the ramp-up slot of a client and the partition of the
    parameter source are computed from (shared with C03 / C05). Arguments are taken by constructor position and evaluated over the iterations of the client loop for
    representative (offset, sub-task clients, element clients, row count); where the roles of the builder are not located (or an argument cannot be evaluated in isolation)
    the same facts are read off the matrices the allocator yields for representative schedules."""
    D = _Decider(chk, _matrix_sim(drv), _TOTALS_OBS, rid=rid)
    try:
        _allocation_totals_roles(D, rid, drv)
    except AnchorMissing as x:
        D.rest(x, drv.cls("Allocator"))


def _allocation_totals_roles(D, rid, drv):
    A = _Alloc(drv)
    tot, gl, loc = A.arg("total"), A.arg("global"), A.arg("local")
    if tot is None or gl is None or loc is None:
        raise AnchorMissing("arguments of TaskAllocation(...) in the allocation builder")
    (n_t, _, _, k_t), (n_g, _, _, k_g), (n_l, _, _, k_l) = _TOTALS_OBS
    try:
        ok_t, w_t = A.holds_all(lambda c: all(v == c[2] for v in A.series(tot, c)))
        ok_g, w_g = A.holds_all(lambda c: A.series(gl, c) == list(range(c[0], c[0] + c[1])))
        ok_l, w_l = A.holds_all(lambda c: A.series(loc, c) == list(range(c[1])))
    except me.CannotEval as x:
        raise AnchorMissing(f"arguments of `{short(A.tac, 60)}` cannot be evaluated over the client loop ({x})")
    D.ob(rid, n_t, ok_t, A.tac, f"total clients = {inline(tot, A.defs_at(tot))}" + ("" if ok_t else f": {A.series(tot, w_t)} for a {_case_txt(w_t)}"), key=k_t, definitive=True)
    D.ob(rid, n_g, ok_g, A.tac, f"element-wide index = {inline(gl, A.defs_at(gl))}" + ("" if ok_g else f": {A.series(gl, w_g)} for a {_case_txt(w_g)}"), key=k_g, definitive=True)
    # task-local index == i - s where s is the element-wide index of the sub-task's first client (advanced by the sub-task's client count): contiguous 0..k-1 per sub-task,
    # which is what the partitioning of co-located clients relies on (a modulo hands out a rotated range)
    adv_ok, adv_detail, adv_definitive = _offset_advance(A)
    if adv_ok is None:
        D.unknown(rid, n_l, adv_detail, A.SL, key=k_l)
        return
    ini = _offset_init(A)
    ok = ok_l and adv_ok and ini is not None
    D.ob(rid, n_l, ok, A.tac, f"task-local index = {inline(loc, A.defs_at(loc))}" + ("" if ok_l else f": {A.series(loc, w_l)} for a {_case_txt(w_l)}") + ("" if adv_ok else f"; {adv_detail}")
         + ("" if ini is not None else f"; `{A.svar}` does not start at 0 for each element"), key=k_l, definitive=not ok_l or (not adv_ok and adv_definitive))


def _offset_advance(A):
    """(ok, detail, definitive): the running offset is advanced exactly once per sub-task, after the client loop, by the sub-task's client count (on values). ok None: the
    amount cannot be evaluated; definitive: ok False was decided on the VALUE of the amount (not on the shape / position of the statement)."""
    adv = A.advances
    if len(adv) != 1 or not isinstance(adv[0].op, ast.Add):
        return False, f"`{A.svar}` is advanced by {[short(n, 40) for n in adv]} in the sub-task loop", False
    blk = flat(A.SL.body)
    top = next((st for st in blk if any(x is A.CL for x in ast.walk(st))), None)
    if not any(adv[0] is st for st in blk) or top is None:
        return False, f"`{short(adv[0], 40)}` is not a statement of the sub-task loop's own block (once per sub-task)", False
    if [i for i, st in enumerate(blk) if st is adv[0]][0] < [i for i, st in enumerate(blk) if st is top][0]:
        return False, f"`{short(adv[0], 40)}` precedes the client loop", False
    try:
        for s, n, e, r in _CASES:
            env = {A.svar: s, A.sub: me.Record(clients=n), A.elem: me.Record(clients=e), "__rows__": r, "__funcs__": A.funcs}
            v = A.value(adv[0].value, env)
            if v != n:
                return False, f"`{short(adv[0], 50)}` advances the offset by {v} for a {_case_txt((s, n, e, r))}", True
    except me.CannotEval as x:
        return None, f"the amount `{u(adv[0].value)}` the client offset is advanced by cannot be evaluated ({x})", False
    return True, short(adv[0], 50), True


def _offset_init(A):
    """the statement that sets the running offset to 0 in the per-element block before the sub-task loop (None if there is none)"""
    blk = flat(A.L.body)
    top = next((i for i, st in enumerate(blk) if any(x is A.SL for x in ast.walk(st))), None)
    for i, st in enumerate(blk):
        if top is not None and i < top and isinstance(st, ast.Assign):
            for t, v in _assign_pairs(st):
                if isinstance(t, ast.Name) and t.id == A.svar and source.is_const(v, 0):
                    return st
    return None


def _assign_pairs(st):
    """(target, value) pairs of an assignment, tuple assignments `a, b = x, y` split"""
    out = []
    for t in st.targets:
        if isinstance(t, (ast.Tuple, ast.List)) and isinstance(st.value, (ast.Tuple, ast.List)) and len(t.elts) == len(st.value.elts):
            out += list(zip(t.elts, st.value.elts))
        else:
            out.append((t, st.value))
    return out


def _joinpoint_lists(A):
    """the two client-list arguments (clients of the completing task, clients of `any` tasks: constructor positions 2 and 3) of the JoinPoint built inside the per-element loop"""
    jp_init = _ctor(A.drv, A.drv.cls("JoinPoint"))
    if jp_init is None or len(params_of(jp_init)) < 4:
        raise AnchorMissing("constructor of JoinPoint (__init__ or record fields): (self, id, completing clients, any-completing clients)")
    p1, p2 = params_of(jp_init)[2:4]
    for c in [n for n in ast.walk(A.L) if isinstance(n, ast.Call) and last_attr(n.func) == "JoinPoint"]:
        bd = source.bind_args(c, jp_init)
        if p1 in bd and p2 in bd:
            return c, [bd[p1], bd[p2]]
    raise AnchorMissing("JoinPoint(id, completing clients, any-completing clients) in the per-element loop of the allocation builder")


_FRESH_OBS = [
    (None, "join-point client list", ("announce",), f"{_D}:Allocator.allocations:fresh-list:0"),
    (None, "join-point client list", ("announce",), f"{_D}:Allocator.allocations:fresh-list:1"),
]


def joinpoint_lists_reset(chk, rid, drv):
    """The two client lists handed to a schedule element's closing JoinPoint (clients of the completing task / of `any` tasks) are fresh empty lists per element:
    a list created outside the per-element loop makes every later join point inherit an earlier element's completing clients (shared with C01). Where the lists are not
    locals re-created in the per-element block, the fact is read off the matrices of representative schedules (what each join point carries)."""
    D = _Decider(chk, _matrix_sim(drv), _FRESH_OBS, rid=rid)
    try:
        A = _Alloc(drv)
        jp, lists = _joinpoint_lists(A)
    except AnchorMissing as x:
        D.rest(x, drv.cls("Allocator"))
        return
    blk = flat(A.L.body)
    top = next((i for i, st in enumerate(blk) if any(x is A.SL for x in ast.walk(st))), len(blk))
    for k, a in enumerate(lists):
        lst = u(a)
        name, key = f"join-point client list `{lst}` starts empty for each schedule element", f"{_D}:Allocator.allocations:fresh-list:{k}"
        if not isinstance(a, ast.Name):
            D.unknown(rid, name, f"join-point client list `{lst}` is not a local of the builder", jp, key=key)
            continue
        writes = [(st, v) for st in walk_body(A.b) if isinstance(st, ast.Assign) for t, v in _assign_pairs(st) if isinstance(t, ast.Name) and t.id == lst]
        if not writes:
            D.unknown(rid, name, f"no assignment to the join-point client list `{lst}` in the builder", jp, key=key)
            continue
        ini = [st for st, v in writes if _is_fresh_list(v) and any(st is x for x in blk[:top])]
        ok = len(ini) == 1
        D.ob(rid, name, ok, ini[0] if ini else writes[0][0], "" if ok else "not re-created inside the per-element loop: later join points inherit the completing clients of an earlier element", key=key)


# representative (element's client count e, row count R) pairs: the row count is the maximum over all elements (O2.7), so only e <= R occurs; e >= 1 inside the client loop
_ER_PAIRS = [(e, r) for r in range(1, 6) for e in range(1, r + 1)]


def _bound_values(bound, A):
    """Value of a wrap bound (a modulus / divisor in the per-element loop of the matrix builder) for every representative (e, R): single-assignment locals are inlined, every
    sub-expression that IS the row count (by data flow) stands for R, `<element>.clients` for e. -> (inlined text, [(e, R, value)]); CannotEval when it reads anything else."""
    tree = A.prep(bound)
    out = []
    for e, r in _ER_PAIRS:
        v = _ev(tree, {"__rows__": r, A.elem: me.Record(clients=e)})
        if isinstance(v, bool) or not isinstance(v, (int, float)):
            raise me.CannotEval(f"{u(bound)}: not a number")
        out.append((e, r, v))
    return u(inline_node(bound, A.defs_at(bound))), out


def _is_element_count(bound, A) -> bool:
    """the bound is, for every representative (e, R), the element's own client count (which never exceeds the row count)"""
    try:
        return all(v == e for e, _, v in _bound_values(bound, A)[1])
    except me.CannotEval:
        return False


def _wrap_bounds(A):
    """Every wrap / round computation `<x> % <b>`, `<x> / <b>`, `<x> // <b>` on the element's client indices inside the per-element loop — also inside a helper method of the
    builder's class (or a module function) called from that loop, its operands translated into the caller's terms (helper locals inlined, parameters replaced by the arguments
    of the call). -> [(node, dividend, bound)] with dividend / bound as expressions over the builder's names."""
    idx_names = {A.svar, A.loopvar}

    def about_indices(e):
        return bool(idx_names & {x.id for x in ast.walk(inline_node(e, A.defs_at(e))) if isinstance(x, ast.Name)})

    def is_wrap(n):
        return isinstance(n, ast.BinOp) and isinstance(n.op, (ast.Mod, ast.Div, ast.FloorDiv)) and not isinstance(n.left, (ast.Constant, ast.JoinedStr))

    out = [(n, n.left, n.right) for n in ast.walk(A.L) if is_wrap(n) and about_indices(n.left)]
    cls = source.enclosing_class(A.b)
    methods = A.drv.methods(cls) if cls is not None else {}
    for c in ast.walk(A.L):
        if not isinstance(c, ast.Call):
            continue
        f = None
        if isinstance(c.func, ast.Attribute) and isinstance(c.func.value, ast.Name) and c.func.value.id in ("self", "cls", getattr(cls, "name", "")) and c.func.attr in methods:
            f = methods[c.func.attr]
        elif isinstance(c.func, ast.Name):
            f = A.drv.index().get(c.func.id)
        if not isinstance(f, source.FUNC_TYPES) or f is A.b or any(isinstance(a, ast.Starred) for a in c.args):
            continue
        bd = source.bind_args(c, f)
        hd = local_defs(f)

        def to_caller(e, bd=bd, hd=hd):
            class P(ast.NodeTransformer):
                def visit_Name(self, n):
                    return source.clone(bd[n.id]) if isinstance(n.ctx, ast.Load) and n.id in bd else n

            return P().visit(inline_node(e, hd))

        for n in walk_body(f):
            if is_wrap(n):
                left, right = to_caller(n.left), to_caller(n.right)
                if about_indices(left):
                    out.append((n, left, right))
    return out


def _host_cases():
    """representative (client count, load driver hosts): more hosts than needed, uneven cores, a single host, fewer clients than hosts"""
    def hosts(*cores):
        return [{"host": f"h{i}", "cores": c} for i, c in enumerate(cores)]
    return [(5, hosts(2, 2, 2, 2)), (4, hosts(2, 8)), (7, hosts(3, 3)), (1, hosts(4, 4, 4)), (16, hosts(4)), (9, hosts(8, 2, 3))]


def _round_robin(share, slots):
    return [share // slots + (1 if w < share % slots else 0) for w in range(slots)]


# ---- O2.4 worker partition ------------------------------------------------------------------------------------------------------------------------------
def _sim_host_cases():
    """(client count, hosts) inputs for the end-to-end evaluation of the worker assignment: single / several hosts, uneven cores, fewer clients than hosts or than cores"""
    out = []
    for cores in ((1,), (4,), (2, 2), (2, 8), (3, 3), (8, 2, 3), (2, 2, 2, 2), (4, 4, 4)):
        for n_ in (1, 2, 5, 7, 9, 16):
            out.append((n_, [{"host": f"h{i}", "cores": c} for i, c in enumerate(cores)]))
    return out


class _WaSim(_Sim):
    """End-to-end evaluation of the worker assignment function on representative inputs (lazily, once): the facts of the property's client-to-worker clause read off the RESULT.
       tiling  the ids handed out, in host / worker order, are 0, 1, 2, ... (contiguous ascending ranges, nothing twice, nothing skipped)
       share   host i gets min(ceil(n / hosts), what is left) clients (so all n are placed)
       slots   one worker (list) per core of the host
       even    the worker loads of a host differ by at most one client"""

    inputs = "(hosts, client count) inputs"

    def __init__(self, wa, funcs):
        super().__init__()
        self.wa, self.funcs, self.what = wa, funcs, wa.name

    def _compute(self):
        f = {"tiling": None, "share": None, "slots": None, "even": None}
        for n_, hosts in _sim_host_cases():
            res = _apply(self.wa, [hosts, n_], {}, {"__funcs__": self.funcs})
            if not isinstance(res, list) or len(res) != len(hosts):
                raise me.CannotEval("the result is not a list with one entry per host")
            ids, left = [], n_
            for i, (h, r) in enumerate(zip(hosts, res)):
                vals = list(r.values()) if isinstance(r, dict) else (list(r.fields.values()) if isinstance(r, me.Record) else list(r) if isinstance(r, (list, tuple)) else [])
                lists = [v for v in vals if isinstance(v, list)]
                if len(lists) != 1 or any(not isinstance(w, list) for w in lists[0]):
                    raise me.CannotEval("the per-host entry of the result does not hold exactly one list of workers (lists of client ids)")
                workers = lists[0]
                case = f"host {i + 1} of {len(hosts)} ({h['cores']} cores), {n_} clients"
                sizes = [len(w) for w in workers]
                want = min(math.ceil(n_ / len(hosts)), left)
                left -= want
                if sum(sizes) != want and f["share"] is None:
                    f["share"] = f"{case}: the host gets {sum(sizes)} client(s), expected {want}"
                if len(workers) != h["cores"] and f["slots"] is None:
                    f["slots"] = f"{case}: {len(workers)} worker(s)"
                if sizes and max(sizes) - min(sizes) > 1 and f["even"] is None:
                    f["even"] = f"{case}: the workers get {sizes} clients"
                ids += [c for w in workers for c in w]
            if ids != list(range(len(ids))) and f["tiling"] is None:
                f["tiling"] = f"{n_} clients on hosts with {[h['cores'] for h in hosts]} cores: the client ids handed out are {ids}"
            self.cases += 1
        return f


_WA_OBS = [
    ("O2.4", "ids from range(c, c + k)", ("tiling",), None),
    ("O2.4", "c += k after the id loop (same k)", ("tiling",), None),
    ("O2.4", "c starts at 0, no other writer", ("tiling",), None),
    ("O2.4", "every id in the range is assigned (no filter)", ("tiling", "share"), None),
    ("O2.4", "k ranges over the per-worker client counts", ("tiling", "share", "even"), None),
    ("O2.4", "round-robin: count[i % slots] += 1 for i in range(share)", ("even", "share"), None),
    ("O2.4", "worker slots per host == the host's core count", ("slots",), None),
    ("O2.4", "one counter per worker slot", ("slots",), None),
    ("O2.4", "per-host share == min(ceil(n / hosts), remaining)", ("share",), None),
    ("O2.4", "remaining -= share (the same amount that was assigned)", ("share",), None),
    ("O2.4", "remaining starts at the client count", ("share",), None),
]


def worker_partition(chk, rid, drv):
    """O2.4: the client-to-worker partition of calculate_worker_assignments. Roles (id site, id counter, per-worker counts, host loop, remaining count) are located by data flow
    and decided on values in isolation; a role that is not located / not of an enumerated shape is decided on the result of the whole function for representative inputs."""
    wa = drv.func("calculate_worker_assignments")
    if len(params_of(wa)) < 2:
        raise AnchorMissing("calculate_worker_assignments(<hosts>, <client count>)")
    hosts_p, count_p = params_of(wa)[:2]
    wdefs = local_defs(wa)
    wfuncs = _helpers_of(drv, wa)  # (pure) helpers the expressions of the function may call: evaluated on the argument values
    D = _Decider(chk, _WaSim(wa, wfuncs), _WA_OBS, rid=rid)
    try:
        _worker_partition_roles(D, drv, wa, hosts_p, count_p, wdefs, wfuncs)
    except AnchorMissing as x:
        D.rest(x, wa)


def _worker_partition_roles(D, drv, wa, hosts_p, count_p, wdefs, wfuncs):
    # the id site: `for i in range(c, c + k): <list>.append(i)` or the same list built in one expression (list(range(c, c + k)), [*range(..)], [i for i in range(..)])
    sites = []
    for n in walk_body(wa):
        if isinstance(n, ast.For) and isinstance(n.iter, ast.Call) and dotted(n.iter.func) == "range" and len(n.iter.args) == 2 and isinstance(n.target, ast.Name):
            app = [x for x in ast.walk(n) if isinstance(x, ast.Call) and last_attr(x.func) == "append" and len(x.args) == 1 and u(x.args[0]) == n.target.id]
            if app:
                unfiltered = not guards(app[0], stop=n, path_sensitive=True) and not any(isinstance(x, (ast.Break, ast.Continue, ast.Return)) for x in ast.walk(n)) and not n.orelse
                sites.append((n, n.iter, unfiltered))
        elif isinstance(n, ast.Call) and dotted(n.func) == "range" and len(n.args) == 2 and not n.keywords:
            p = source.parent(n)
            if isinstance(p, ast.Call) and dotted(p.func) in ("list", "tuple", "sorted") and len(p.args) == 1:
                sites.append((source.enclosing_stmt(n), n, True))
            elif isinstance(p, ast.Starred) and isinstance(source.parent(p), (ast.List, ast.Tuple)) and len(source.parent(p).elts) == 1:
                sites.append((source.enclosing_stmt(n), n, True))
            elif isinstance(p, ast.comprehension) and isinstance(source.parent(p), ast.ListComp) and len(source.parent(p).generators) == 1:
                sites.append((source.enclosing_stmt(n), n, not p.ifs and u(source.parent(p).elt) == u(p.target)))
    if not sites:
        raise AnchorMissing("client ids `range(c, c + k)` (loop or list expression) in calculate_worker_assignments")
    IL, rng, unfiltered = sites[0]
    c0, c1 = rng.args
    if not isinstance(c0, ast.Name):
        raise AnchorMissing(f"running client id counter: the ids `{u(rng)}` do not start at a local")
    cvar = c0.id
    kl = source.enclosing(IL, ast.For)
    kname = kiter = None
    if kl is not None:
        kt, kiter = kl.target, kl.iter
        if isinstance(kiter, ast.Call) and dotted(kiter.func) == "enumerate" and len(kiter.args) == 1 and isinstance(kt, ast.Tuple) and len(kt.elts) == 2:
            kt, kiter = kt.elts[1], kiter.args[0]
        kname = kt.id if isinstance(kt, ast.Name) else None
    if kname is None:
        raise AnchorMissing("loop over the per-worker client counts around the id site")
    ck_cases = [(0, 0), (0, 3), (4, 1), (7, 2)]

    def ck(expr, c, k):
        return _ev(inline_node(expr, wdefs), {cvar: c, kname: k, "__funcs__": wfuncs})

    name = "ids from range(c, c + k)"
    try:
        bad = next(((c, k) for c, k in ck_cases if ck(c1, c, k) != c + k), None)
        D.ob("O2.4", name, bad is None, IL, u(rng) + ("" if bad is None else f": with {cvar} = {bad[0]} and a worker with {bad[1]} client(s) the ids end before {ck(c1, *bad)} instead of {bad[0] + bad[1]}"), definitive=True)
    except me.CannotEval as x:
        D.unknown("O2.4", name, f"upper bound of the client ids `{u(rng)}` cannot be evaluated from the id counter and the worker's client count `{kname}` ({x})", IL)
    # the counter moves on by k: the statement(s) of the worker loop (outside the id site) that write it
    name = "c += k after the id loop (same k)"
    in_il = {id(x) for x in ast.walk(IL)}
    adv = [n for n in ast.walk(kl) if id(n) not in in_il and isinstance(n, (ast.AugAssign, ast.Assign)) and any(u(t) == cvar for t in ([n.target] if isinstance(n, ast.AugAssign) else n.targets))]
    kblk = flat(kl.body)
    top = next((i for i, st in enumerate(kblk) if any(x is IL for x in ast.walk(st))), None)
    if len(adv) == 1 and top is not None and any(adv[0] is st for st in kblk[top + 1:]) and (isinstance(adv[0], ast.Assign) or isinstance(adv[0].op, ast.Add)):
        # one unconditional statement of the worker loop's own block, after the statement that holds the id site
        try:
            if isinstance(adv[0], ast.AugAssign):
                bad = next(((c, k) for c, k in ck_cases if ck(adv[0].value, c, k) != k), None)
            else:
                bad = next(((c, k) for c, k in ck_cases if ck(adv[0].value, c, k) != c + k), None)
            D.ob("O2.4", name, bad is None, adv[0], short(adv[0], 50) + ("" if bad is None else f": after a worker with {bad[1]} client(s) the counter does not move on by {bad[1]}"), definitive=True)
        except me.CannotEval as x:
            D.unknown("O2.4", name, f"`{short(adv[0], 50)}` cannot be evaluated from the id counter and the worker's client count ({x})", adv[0])
    elif adv:
        D.ob("O2.4", name, False, adv[0], f"{[short(n, 40) for n in adv]}: not ONE unconditional statement of the worker loop after the id site")
    else:
        D.ob("O2.4", name, False, IL, f"no statement of the loop over the workers advances `{cvar}`: every worker gets the same ids")
    cw = [n for n in walk_body(wa) if isinstance(n, (ast.Assign, ast.AugAssign)) and any(u(t) == cvar for t in (n.targets if isinstance(n, ast.Assign) else [n.target]))]
    ok = len(cw) == 2 and any(isinstance(n, ast.Assign) and source.is_const(n.value, 0) and logical_parent(n) is wa for n in cw)
    D.ob("O2.4", "c starts at 0, no other writer", ok, cw[0] if cw else wa, f"{len(cw)} writer(s) of `{cvar}`", located=bool(cw))
    ok = unfiltered and not guards(IL, stop=kl, path_sensitive=True)
    D.ob("O2.4", "every id in the range is assigned (no filter)", ok, IL, "" if ok else f"`{short(IL, 50)}` is conditional / filtered")
    cpw = kiter.id if isinstance(kiter, ast.Name) else None
    # the host loop and the values of one iteration
    hl = hostvar = idxvar = None
    for n in walk_body(wa):
        if isinstance(n, ast.For) and any(x is kl for x in ast.walk(n)):
            it, tg = n.iter, n.target
            iv = None
            if isinstance(it, ast.Call) and dotted(it.func) == "enumerate" and len(it.args) == 1 and not it.keywords and isinstance(tg, ast.Tuple) and len(tg.elts) == 2 and isinstance(tg.elts[0], ast.Name):
                it, tg, iv = it.args[0], tg.elts[1], tg.elts[0].id
            if u(it) == hosts_p and isinstance(tg, ast.Name):
                hl, hostvar, idxvar = n, tg.id, iv
                break
    if hl is None:
        raise AnchorMissing(f"loop over the hosts `{hosts_p}` around the worker loop in calculate_worker_assignments")
    hdefs = {}
    for n in ast.walk(hl):
        if isinstance(n, ast.Assign) and len(n.targets) == 1 and isinstance(n.targets[0], ast.Name):
            hdefs[n.targets[0].id] = n.value
    alld = wdefs  # single-assignment locals only: a value inlined from them is the value at every use
    # k iterates the per-worker counts of THIS host: the list is (re)built inside the host loop (an expression iterated in place is evaluated per host anyway)
    ok = cpw is None or cpw in hdefs
    D.ob("O2.4", "k ranges over the per-worker client counts", ok, kl, f"for {kname} in {u(kiter)}" + ("" if ok else f": `{cpw}` is not computed inside the loop over the hosts"))
    hblk = flat(hl.body)
    decs = [n for n in hblk if isinstance(n, ast.AugAssign) and isinstance(n.op, ast.Sub) and isinstance(n.target, ast.Name)]
    rem = decs[0].target.id if len(decs) == 1 else None

    def host_values(expr):
        """[(case text, value, expected share, cores)] of expr for every host of every representative input, the remaining count following the model min(ceil(n / hosts), remaining)"""
        tree = inline_node(expr, alld)
        out = []
        for n_, hosts in _host_cases():
            left = n_
            for i_, h in enumerate(hosts):
                share_ = min(math.ceil(n_ / len(hosts)), left)
                env = {hosts_p: hosts, count_p: n_, hostvar: h, "__funcs__": wfuncs}
                if idxvar:
                    env[idxvar] = i_
                if rem:
                    env[rem] = left
                out.append((f"host {i_ + 1} of {len(hosts)} ({h['cores']} cores), {n_} clients", _ev(tree, env), share_, h["cores"]))
                left -= share_
        return out

    # round robin
    RR, SLOTS, ONE = "round-robin: count[i % slots] += 1 for i in range(share)", "worker slots per host == the host's core count", "one counter per worker slot"
    rr = [n for n in ast.walk(hl) if cpw is not None and isinstance(n, ast.AugAssign) and isinstance(n.target, ast.Subscript) and u(n.target.value) == cpw]
    share = None
    if rr:
        sl = inline_node(rr[0].target.slice, {k_: v_ for k_, v_ in hdefs.items() if k_ in wdefs})
        lp = source.enclosing(rr[0], ast.For)
        ok = isinstance(sl, ast.BinOp) and isinstance(sl.op, ast.Mod) and lp is not None and isinstance(lp.target, ast.Name) and u(sl.left) == lp.target.id and source.is_const(rr[0].value, 1) \
            and isinstance(rr[0].op, ast.Add) and _range_bound(lp.iter) is not None and not guards(rr[0], stop=lp, path_sensitive=True)
        slots = sl.right if ok else None
        share = _range_bound(lp.iter) if ok else None
        D.ob("O2.4", RR, ok, rr[0], short(rr[0], 60) + ("" if ok else f" in `for {u(lp.target)} in {short(lp.iter, 40)}`: not of the form count[i % slots] += 1 for i in range(share)" if lp is not None else ""))
        cd = hdefs.get(cpw)
        if slots is None:
            # the counting statement has another shape: slots are decided on the result of the whole function
            D.ob("O2.4", SLOTS, False, rr[0], "worker slots not located", located=False)
            D.ob("O2.4", ONE, False, rr[0], "worker slots not located", located=False)
        else:
            try:
                bad = next((t for t in host_values(slots) if t[1] != t[3]), None)
                D.ob("O2.4", SLOTS, bad is None, slots, f"slots = {inline(slots, alld)}" + ("" if bad is None else f" = {bad[1]} for {bad[0]}"), definitive=True)
            except me.CannotEval as x:
                D.unknown("O2.4", SLOTS, f"worker slots `{u(slots)}` cannot be evaluated for representative hosts ({x})", slots)
            if cd is None:
                D.ob("O2.4", ONE, False, hl, f"definition of the per-worker counts `{cpw}` inside the host loop not located", located=False)
            else:
                # the counters start as one 0 per slot: on values
                try:
                    bad = next((t for t in host_values(cd) if t[1] != [0] * t[3]), None)
                    D.ob("O2.4", ONE, bad is None, cd, short(cd, 60) + ("" if bad is None else f" = {bad[1]} for {bad[0]}"), definitive=True)
                except me.CannotEval as x:
                    D.unknown("O2.4", ONE, f"initial per-worker counts `{short(cd, 50)}` cannot be evaluated for representative hosts ({x})", cd)
    else:
        # the per-worker counts computed in one expression (possibly by a helper function): decided on values (share dealt round-robin over one slot per core)
        cd = hdefs.get(cpw) if cpw is not None else kiter
        if cd is None:
            raise AnchorMissing(f"per-worker client counts `{cpw}`: neither `{cpw}[i % slots] += 1` nor a definition inside the host loop")
        try:
            vals = host_values(cd)
            # (what the property asks of the counts: all of the host's share is dealt out and the worker loads differ by at most one — dealt round-robin, whichever workers
            # take the extra client)
            bad = next((t for t in vals if not isinstance(t[1], list) or any(isinstance(v, bool) or not isinstance(v, int) or v < 0 for v in t[1]) or sum(t[1]) != t[2]
                        or (t[1] and max(t[1]) - min(t[1]) > 1)), None)
            bad_len = next((t for t in vals if not isinstance(t[1], list) or len(t[1]) != t[3]), None)
            D.ob("O2.4", RR, bad is None, cd, f"{short(cd, 60)}" + ("" if bad is None else f" = {bad[1]} for {bad[0]} (share {bad[2]}): expected e.g. {_round_robin(bad[2], bad[3])}"), definitive=True)
            D.ob("O2.4", SLOTS, bad_len is None, cd, "" if bad_len is None else f"{bad_len[1]} for {bad_len[0]}", definitive=True)
            D.ob("O2.4", ONE, bad_len is None, cd, "" if bad_len is None else f"{bad_len[1]} for {bad_len[0]}", definitive=True)
        except me.CannotEval as x:
            for name in (RR, SLOTS, ONE):
                D.unknown("O2.4", name, f"per-worker client counts `{short(cd, 50)}` cannot be evaluated for representative hosts ({x})", cd)
    # per-host share: what is dealt out to the workers of a host (the round-robin bound) / taken off the remaining count
    SH, DEC, INI = "per-host share == min(ceil(n / hosts), remaining)", "remaining -= share (the same amount that was assigned)", "remaining starts at the client count"
    if rem is None:
        for name in (SH, DEC, INI):
            D.ob("O2.4", name, False, hl, f"the count of clients still to be placed (ONE local decreased once per host) is not located in the host loop ({[short(n, 40) for n in decs]})", located=False)
    else:
        dec = decs[0]
        share_e = share if share is not None else dec.value
        try:
            bad = next((t for t in host_values(share_e) if t[1] != t[2]), None)
            D.ob("O2.4", SH, bad is None, hdefs.get(u(share_e), share_e), f"share = {inline(share_e, alld)}" + ("" if bad is None else f" = {bad[1]} for {bad[0]}: expected {bad[2]}"), definitive=True)
        except me.CannotEval as x:
            D.unknown("O2.4", SH, f"per-host share `{inline(share_e, alld)}` cannot be evaluated for representative hosts ({x})", share_e)
        ok = inline(dec.value, alld) == inline(share_e, alld)
        if not ok:
            # spelled differently: the same VALUE for every representative host?
            try:
                ok = [t[1] for t in host_values(dec.value)] == [t[1] for t in host_values(share_e)]
            except me.CannotEval:
                ok = False
        D.ob("O2.4", DEC, ok, dec, short(dec, 60))
        ri = [n for n in walk_body(wa) if isinstance(n, ast.Assign) and any(u(t) == rem for t in n.targets)]
        ok = len(ri) == 1 and inline(ri[0].value, wdefs) == count_p and not any(x is hl for x in source.ancestors(ri[0]))
        D.ob("O2.4", INI, ok, ri[0] if ri else wa, short(ri[0], 50) if ri else f"no assignment to `{rem}` located", located=bool(ri))


_AK = f"{_D}:Allocator.allocations:"
_MATRIX_OBS = [
    ("O2.2", "row subscript of", ("rows",), None),
    ("O2.2", "row subscripts located", ("rows",), None),
    ("O2.2", "all moduli in the schedule loop are the row count", ("rows", "aligned"), None),
    ("O2.2", "every row of the matrix is a list of its own", ("own_rows",), None),
    ("O2.3", "client loop == range(s, s + sub_task.clients)", ("tiling",), None),
    ("O2.3", "s += sub_task.clients after the client loop (same count)", ("tiling",), None),
    ("O2.3", "s starts at 0 for each schedule element", ("tiling",), None),
    ("O2.3", "task := the sub-task", ("task",), None),
    ("O2.3", "task-local client index == i - s", ("local",), None),
    ("O2.3", "global client index == i", ("tiling",), None),
    ("O2.3", "total clients == the element's client count", ("total",), None),
    ("O2.3", "s not written elsewhere inside the sub-task loop", ("tiling",), None),
    ("O2.7", "completing / any-completing clients recorded by physical index under the sub-task's own flag", ("announce",), None),
    ("O2.8", "the row of a client wraps at the element's own client count", ("elem_rows",), _AK + "element-modulus"),
    ("O2.8", "the None padding completes rounds of the element's own client count", ("elem_rounds",), _AK + "element-padding-bound"),
]


def _matrix_roles(M, drv):
    """O2.2 / O2.3 / O2.7 (recording) / O2.8 on the located roles of the matrix builder (_Alloc); an obligation whose role has another shape than the enumerated one is handed
    to the decider M (decided on the matrices of representative schedules)."""
    A = _Alloc(drv)
    b, defs, L, elem, matrix, rc_text, SL, CL, sub, svar = A.b, A.defs, A.L, A.elem, A.matrix, A.rc_text, A.SL, A.CL, A.sub, A.svar

    # ---- O2.2 row index reduced -------------------------------------------------------------------------------------------------------
    row_mods = []  # (append to a matrix row inside the client loops, the `i % m` its row index is defined as or None)
    ta_apps = []
    for n in ast.walk(L):
        if isinstance(n, ast.Call) and last_attr(n.func) == "append" and isinstance(n.func, ast.Attribute) and isinstance(n.func.value, ast.Subscript) and u(n.func.value.value) == matrix:
            ta_apps.append(n)
    ldefs = {}
    for n in ast.walk(L):
        if isinstance(n, ast.Assign) and len(n.targets) == 1 and isinstance(n.targets[0], ast.Name):
            ldefs.setdefault(n.targets[0].id, []).append(n.value)

    def rows_on_values(idx):
        """the row index over the client loop is (element-wide index) % <row count> — or % <element's client count> — for every representative case: True / False; None: cannot
        be evaluated"""
        try:
            got = [(c, A.series(idx, c)) for c in _CASES]
        except me.CannotEval:
            return None
        return all(v == [g % c[3] for g in range(c[0], c[0] + c[1])] for c, v in got) or all(v == [g % c[2] for g in range(c[0], c[0] + c[1])] for c, v in got)

    n_checked = 0
    rows_ok = True
    for a in ta_apps:
        idx = a.func.value.slice
        loop = source.enclosing(a, ast.For)
        if loop is L or loop is None:
            continue
        if isinstance(loop.iter, ast.Call) and last_attr(loop.iter.func) == "range" and len(loop.iter.args) in (1, 2) and inline(loop.iter.args[-1], defs) == rc_text \
                and isinstance(idx, ast.Name) and isinstance(loop.target, ast.Name) and idx.id == loop.target.id:
            # index is a loop variable bounded above by the row count (join-point broadcast / None padding)
            continue
        if not any(x is CL for x in source.ancestors(a)):
            continue  # not inside the client loop (another broadcast / padding shape): the padding is the business of the moduli obligation below
        n_checked += 1
        d = ldefs.get(idx.id, [None])[0] if isinstance(idx, ast.Name) else idx
        is_mod = isinstance(d, ast.BinOp) and isinstance(d.op, ast.Mod)
        # in range either way: reduced modulo the row count itself, or modulo a bound decided (on values) to be the element's own client count, which is at most the row count
        ok = is_mod and (u(A.prep(d.right)) == "__rows__" or _is_element_count(d.right, A))
        on_values = None if ok else rows_on_values(idx)  # another spelling (a helper, a conditional wrap, divmod ...): the VALUES of the row index over the client loop
        ok = ok or on_values is True
        rows_ok = rows_ok and ok
        row_mods.append((a, d if is_mod else None, d))
        M.ob("O2.2", f"row subscript of `{short(a, 50)}`", ok, a, f"index `{u(idx)}` = `{u(d) if d is not None else '?'}`; row count = {rc_text}"
             + ("" if ok else " — not reduced modulo the row count (nor modulo the element's own client count)"), located=is_mod, definitive=on_values is False)
    if n_checked == 0:
        raise AnchorMissing(f"append of the task allocation to a row `{matrix}[<row>]` inside the client loop")
    M.ob("O2.2", "row subscripts located", n_checked >= 1, L, f"{n_checked} non-broadcast row subscript(s)")
    # every modulus applied to the element's client indices in the loop (row subscript, None padding; also inside helpers called from the loop)
    wraps = _wrap_bounds(A)
    mods = [(n, right) for n, _, right in wraps if isinstance(n.op, ast.Mod)]

    def canon(e):
        # text of an expression with locals inlined and every spelling of the row count (`self.clients`, `len(<matrix>)`, a local bound to either) unified
        return u(A.prep(e))

    MODS = "all moduli in the schedule loop are the row count"
    ok = bool(mods) and all(canon(r_) == "__rows__" for _, r_ in mods)
    if not ok and mods and row_mods and all(d is not None for _, d, _ in row_mods):
        # rows that wrap at the element's own client count: every other modulus of the loop (the padding) must then be that same bound
        sub_ = {canon(d.right) for _, d, _ in row_mods}
        ok = len(sub_) == 1 and all(_is_element_count(d.right, A) for _, d, _ in row_mods) and all(canon(r_) in sub_ for _, r_ in mods)
    if mods:
        M.ob("O2.2", MODS, ok, mods[0][0], f"{sorted({u(r_) for _, r_ in mods})}")
    else:
        # no modulus at all in the loop: unreduced row subscript(s) were reported above; rows that are right on values without a modulus: how the padding wraps is not located
        M.ob("O2.2", MODS, False, L, "no modulus on the client indices in the schedule loop", located=not rows_ok)
    # rows are distinct lists (a `[[]] * n` matrix has ONE row object: every client would get every task)
    OWN = "every row of the matrix is a list of its own"
    if A.matrix_form == "comprehension":
        fresh = _is_fresh_list(A.matrix_stmt.value.elt) or isinstance(A.matrix_stmt.value.elt, (ast.List, ast.ListComp))
        M.ob("O2.2", OWN, fresh, A.matrix_stmt, short(A.matrix_stmt, 70))
    else:
        fills = [n for n in walk_body(b) if isinstance(n, ast.Assign) and len(n.targets) == 1 and isinstance(n.targets[0], ast.Subscript) and u(n.targets[0].value) == matrix
                 and (_is_fresh_list(n.value) or isinstance(n.value, ast.List)) and not any(x is L for x in source.ancestors(n))]
        full = [n for n in fills if (lp := source.enclosing(n, ast.For)) is not None and _range_bound(lp.iter) is not None and inline(_range_bound(lp.iter), defs) == rc_text
                and isinstance(lp.target, ast.Name) and u(n.targets[0].slice) == lp.target.id]
        rep = A.matrix_stmt.value.left if isinstance(A.matrix_stmt.value.left, ast.List) else A.matrix_stmt.value.right
        if full:
            M.ob("O2.2", OWN, True, full[0], f"`{short(A.matrix_stmt, 50)}` filled by `{short(full[0], 40)}` for every row")
        elif isinstance(rep.elts[0], (ast.List, ast.ListComp, ast.Call)):
            M.ob("O2.2", OWN, False, A.matrix_stmt, f"`{short(A.matrix_stmt, 60)}` repeats ONE list object for every row: each client gets the tasks of all clients")
        else:
            M.unknown("O2.2", OWN, f"rows of `{short(A.matrix_stmt, 50)}`: the statement that gives every row its own list is not recognised", A.matrix_stmt)

    # ---- O2.3 per-task tiling ----------------------------------------------------------------------------------------------------------------
    i_txt = inline(A.arg("global"), A.cdefs) if A.arg("global") is not None else A.loopvar
    dividends = [d.left for _, d, _ in row_mods if d is not None]
    NAME = "client loop == range(s, s + sub_task.clients)"
    try:
        ok, w = A.holds_all(lambda c: len(A.iterations(*c)) == c[1] and all(A.series(dv, c) == list(range(c[0], c[0] + c[1])) for dv in dividends))
        detail = u(CL.iter) + ("" if ok else f": {len(A.iterations(*w))} iteration(s), row dividend(s) {[A.series(dv, w) for dv in dividends]} for a {_case_txt(w)}")
        M.ob("O2.3", NAME, ok, CL, detail, definitive=True)
    except me.CannotEval as x:
        M.unknown("O2.3", NAME, f"client loop `{u(CL.iter)}` cannot be evaluated on representative values ({x})", CL)
    NAME = "s += sub_task.clients after the client loop (same count)"
    adv_ok, adv_detail, adv_definitive = _offset_advance(A)
    if adv_ok is None:
        M.unknown("O2.3", NAME, adv_detail, SL)
    else:
        M.ob("O2.3", NAME, adv_ok, A.advances[0] if A.advances else SL, adv_detail, definitive=adv_definitive)
    ini = _offset_init(A)
    M.ob("O2.3", "s starts at 0 for each schedule element", ini is not None, ini if ini is not None else L, "" if ini is not None else f"no `{svar} = 0` in the per-element block before the sub-task loop",
         located=False)
    tk, loc, gl, tot = A.arg("task"), A.arg("local"), A.arg("global"), A.arg("total")
    if None in (tk, loc, gl, tot):
        raise AnchorMissing("arguments of TaskAllocation(...) in the client loop")
    M.ob("O2.3", "task := the sub-task", inline(tk, A.cdefs) == sub, A.tac, f"task = {u(tk)}")
    for NAME, pred, expr, txt in (
            ("task-local client index == i - s",
             lambda c: [lv - (gv - c[0]) for lv, gv in zip(A.series(loc, c), A.series(gl, c))] == [0] * len(A.iterations(*c)) and A.series(loc, c) == list(range(len(A.iterations(*c)))), loc,
             lambda w: f" = {A.series(loc, w)} where the element-wide indices are {A.series(gl, w)} for a {_case_txt(w)}"),
            ("global client index == i", lambda c: A.series(gl, c) == list(range(c[0], c[0] + len(A.iterations(*c)))), gl, lambda w: f" = {A.series(gl, w)} for a {_case_txt(w)}"),
            ("total clients == the element's client count", lambda c: all(v == c[2] for v in A.series(tot, c)), tot, lambda w: f" = {A.series(tot, w)} for a {_case_txt(w)}")):
        try:
            ok, w = A.holds_all(pred)
            M.ob("O2.3", NAME, ok, A.tac, u(expr) + ("" if ok else txt(w)), definitive=True)
        except me.CannotEval as x:
            M.unknown("O2.3", NAME, f"argument `{short(expr, 50)}` of `{short(A.tac, 50)}` cannot be evaluated over the client loop ({x})", A.tac)
    other_s = [n for n in ast.walk(SL) if isinstance(n, (ast.Assign, ast.AugAssign)) and any(isinstance(x, ast.Name) and x.id == svar for t in (n.targets if isinstance(n, ast.Assign) else [n.target]) for x in ast.walk(t))
               and not any(n is x for x in A.advances[:1])]
    M.ob("O2.3", "s not written elsewhere inside the sub-task loop", not other_s, other_s[0] if other_s else SL, "" if not other_s else f"`{short(other_s[0], 50)}`")

    # ---- O2.7 completing clients ------------------------------------------------------------------------------------------------------------------------
    NAME = "completing / any-completing clients recorded by physical index under the sub-task's own flag"
    jp, jlists = _joinpoint_lists(A)
    row_idx = [a.func.value.slice for a, _, _ in row_mods]
    recs = []
    for lst in jlists:
        r_ = [n for n in ast.walk(CL) if isinstance(n, ast.Call) and last_attr(n.func) == "append" and isinstance(n.func, ast.Attribute) and u(n.func.value) == u(lst) and len(n.args) == 1]
        if not r_:
            raise AnchorMissing(f"append to the join-point client list `{u(lst)}` inside the client loop")
        recs.append(r_)
    try:
        problems = []
        for k, r_ in enumerate(recs):
            for app in r_:
                # recorded value == the row the allocation is appended to
                okv, w = A.holds_all(lambda c: all(A.series(app.args[0], c) == A.series(ri, c) for ri in row_idx))
                if not okv:
                    problems.append(f"`{short(app, 60)}` records {A.series(app.args[0], w)} where the rows are {A.series(row_idx[0], w)} for a {_case_txt(w)}")
            # recorded under the sub-task's own flag
            for cp, acp in ((True, False), (False, True), (False, False), (True, True)):
                its = A.iterations(2, 1, 4, 6, flags=(cp, acp))
                if not its:
                    raise me.CannotEval("the client loop does not run for a sub-task with one client")
                env = its[0]
                hit = sum(1 for app in r_ if all(bool(A.value(t, env)) == pol for t, pol in guards(app, stop=CL, path_sensitive=True)))
                want = (1 if cp else 0) if k == 0 else (None if (cp and acp) else (1 if acp else 0))
                if want is not None and hit != want:
                    problems.append(f"`{u(jlists[k])}` gets {hit} entr{'y' if hit == 1 else 'ies'} per client of a sub-task with completes_parent={cp}, any_completes_parent={acp} (expected {want})")
        M.ob("O2.7", NAME, not problems, recs[0][0], "; ".join(problems[:2]) or f"{[u(x) for x in jlists]}", definitive=True)
    except me.CannotEval as x:
        M.unknown("O2.7", NAME, f"recording of the completing clients cannot be evaluated on representative values ({x})", recs[0][0])

    # ---- O2.8 an element occupies only its own clients (F45) -----------------------------------------------------------------------------------------
    def _first_other(vals):
        # a witness (e, R, value) with value != e; the capped pair of the item (2 clients next to a 4-client element) is shown when it is one
        return next(((e_, r_, v_) for e_, r_, v_ in sorted(vals, key=lambda t: (t[:2] != (2, 4),)) if v_ != e_), None)

    WRAP, PAD = "the row of a client wraps at the element's own client count", "the None padding completes rounds of the element's own client count"
    for k_, (a, d, raw) in enumerate(row_mods):
        key_ = _AK + "element-modulus" + ("" if k_ == 0 else f":{k_}")
        if d is None:
            if raw is not None and inline(raw, A.cdefs) == i_txt:
                # the logical (element-wide) index itself: the element is spread over as many rows as its sub-tasks have clients in total
                M.state("O2.8", WRAP, False, a, f"row index `{u(a.func.value.slice)}` is the unreduced element-wide client index `{i_txt}`", key=key_)
            else:
                M.unknown("O2.8", WRAP, f"row index `{u(a.func.value.slice)}` = `{u(raw) if raw is not None else '?'}` is not of the form `<client index> % <bound>`", a, key=key_)
            continue
        try:
            txt, vals = _bound_values(d.right, A)
        except me.CannotEval as x:
            M.unknown("O2.8", WRAP, f"modulus `{u(d.right)}` of the row subscript is not an expression over the row count and `{elem}.clients` ({x})", d, key=key_)
            continue
        w = _first_other(vals)
        M.state("O2.8", WRAP, w is None, d,
                f"modulus `{u(d.right)}` = {txt}" + ("" if w is None else f": an element with {w[0]} client(s) in a schedule whose widest element has {w[1]} wraps at {w[2]}, "
                                                     f"i.e. is spread over up to {w[2]} clients instead of {w[0]}"), key=key_)
    # every other wrap / round computation on the element's client indices (modulus, divisor) inside the per-element loop: the None padding
    taken = {id(d) for _, d, _ in row_mods if d is not None}
    bounds = [(n, right) for n, _, right in wraps if id(n) not in taken]
    wrong, undecided = [], []
    for n, right in bounds:
        try:
            txt, vals = _bound_values(right, A)
        except me.CannotEval as x:
            undecided.append((n, str(x)))
            continue
        w = _first_other(vals)
        if w is not None:
            wrong.append((n, txt, w))
    if wrong or not undecided:
        M.state("O2.8", PAD, not wrong, wrong[0][0] if wrong else (bounds[0][0] if bounds else L),
                (f"{len(bounds)} wrap bound(s) on the element's client total outside the row subscript: {sorted({u(n) for n, _ in bounds})}" if not wrong else
                 f"`{u(wrong[0][0])}` wraps at {wrong[0][1]}: for an element with {wrong[0][2][0]} client(s) in a schedule whose widest element has {wrong[0][2][1]} the bound is "
                 f"{wrong[0][2][2]}; {len(wrong)} of {len(bounds)} bound(s) differ from the element's client count"), key=_AK + "element-padding-bound")
    else:
        M.unknown("O2.8", PAD, f"padding bound `{u(undecided[0][0])}` is not an expression over the row count and `{elem}.clients` ({undecided[0][1]})", undecided[0][0], key=_AK + "element-padding-bound")


# ---- O2.5 worker ids are list positions -----------------------------------------------------------------------------------------------------------------------
def _own(func):
    """the nodes of a function's own body: nested functions / classes / lambdas appear as nodes, what is inside them does not"""
    return [n for n in walk_body(func) if source.enclosing(n, source.SCOPE_TYPES) is func]


class _Frame:
    """one activation in the call tree of an analysed function: the function, the call that enters it (None for the root), the frame that call belongs to and, for a function
    nested in another one, the frame of the function it is defined in (where its free variables live)"""

    def __init__(self, k, func, call=None, up=None, outer=None):
        self.k, self.func, self.call, self.up, self.outer = k, func, call, up, outer
        self.own = _own(func)
        a = func.args
        self.params = [x.arg for x in a.posonlyargs + a.args + a.kwonlyargs] + [x.arg for x in (a.vararg, a.kwarg) if x is not None]
        stored = {x.id for x in self.own if isinstance(x, ast.Name) and isinstance(x.ctx, ast.Store)}
        self.locals = set(self.params) | stored | {n.name for n in self.own if isinstance(n, (ast.FunctionDef, ast.AsyncFunctionDef, ast.ClassDef))}
        # locals bound exactly once, by a plain assignment (as source.local_defs, on the function's OWN nodes)
        nstores = {}
        for x in self.own:
            if isinstance(x, ast.Name) and isinstance(x.ctx, ast.Store):
                nstores[x.id] = nstores.get(x.id, 0) + 1
        self.defs = {t.id: n.value for n in self.own if isinstance(n, ast.Assign) for t in n.targets if isinstance(t, ast.Name) and nstores.get(t.id) == 1 and t.id not in self.params}
        self.args = {}
        if call is not None:
            bound = source.bind_args(call, func)
            pos = a.posonlyargs + a.args
            for x, d in list(zip(pos[::-1], a.defaults[::-1])) + [(x, d) for x, d in zip(a.kwonlyargs, a.kw_defaults) if d is not None]:
                if x.arg not in bound and isinstance(d, ast.Constant):
                    bound[x.arg] = d  # (a parameter left to its constant default)
            # a parameter the callee re-binds is a local of the callee, not the caller's value
            self.args = {p_: e for p_, e in bound.items() if p_ not in stored}
        # the receiver of a method (entered through `self.<m>(...)`) is the caller's receiver: the same object under the same name
        self.receiver = params_of(func)[0] if isinstance(source.parent(func), ast.ClassDef) and not _is_static(func) and params_of(func) else None

    def chain(self):
        fr = self
        while fr is not None:
            yield fr
            fr = fr.up


class _CallTree:
    """A method together with the methods of its class (`self.<m>(...)`), the functions of its module (`<f>(...)`) and the functions nested in it that it calls, transitively:
    an extracted helper is analysed as part of its caller. Every call site is an activation of its own (_Frame). resolve() states an expression of any frame in the terms of
    the ROOT function: locals bound once are replaced by their definitions, parameters by the argument expressions of the call site, calls of a helper with a single
    `return <expr>` by that expression; whatever stays local to a called frame (loop variables, locals bound more than once) is tagged with the frame number, so that it is
    never mistaken for a name of the caller. Roles are then compared as root-level texts, however the code is cut into methods. origins() follows one VALUE back to the
    expressions it may come from (by node identity)."""

    def __init__(self, mod, root, depth=3, limit=80):
        cls = source.enclosing_class(root)
        meths = mod.methods(cls) if cls is not None else {}
        funcs = {n.name: n for n in mod.tree.body if isinstance(n, ast.FunctionDef)}
        self.root = _Frame(0, root)
        self.keep = set()  # locals of the root function that stay names (the candidates for the worker id)
        self.frames, self.by_call, todo = [self.root], {}, [(self.root, 0)]
        while todo:
            fr, d = todo.pop(0)
            if d >= depth:
                continue
            nested = {n.name: n for n in fr.own if isinstance(n, ast.FunctionDef)}
            for n in fr.own:
                if not isinstance(n, ast.Call) or len(self.frames) >= limit:
                    continue
                callee = outer = None
                if isinstance(n.func, ast.Attribute) and isinstance(n.func.value, ast.Name) and n.func.value.id == fr.receiver:
                    callee = meths.get(n.func.attr)
                elif isinstance(n.func, ast.Name) and n.func.id in nested:
                    callee, outer = nested[n.func.id], fr
                elif isinstance(n.func, ast.Name) and n.func.id not in fr.locals:
                    callee = funcs.get(n.func.id)
                if not isinstance(callee, ast.FunctionDef) or any(g.func is callee for g in fr.chain()) or callee.args.vararg or callee.args.kwarg \
                        or any(isinstance(a_, ast.Starred) for a_ in n.args) or any(k.arg is None for k in n.keywords) \
                        or any(dotted(d_) not in ("staticmethod", "classmethod") for d_ in callee.decorator_list) or any(isinstance(x, (ast.Yield, ast.YieldFrom)) for x in _own(callee)):
                    continue
                new = _Frame(len(self.frames), callee, n, fr, outer)
                self.frames.append(new)
                self.by_call[id(n)] = new
                todo.append((new, d + 1))

    def nodes(self, pred):
        """(frame, node) for every node of every activation that satisfies pred"""
        return [(fr, n) for fr in self.frames for n in fr.own if pred(n)]

    def chain(self, fr, node):
        """the node and the call sites through which it is reached, innermost first: [(frame, node), (calling frame, call), ..., (root frame, call in the root)]"""
        out = []
        while fr is not None:
            out.append((fr, node))
            fr, node = fr.up, fr.call
        return out

    def root_stmt(self, fr, node):
        """the statement of the root function during which the node runs"""
        return source.enclosing_stmt(self.chain(fr, node)[-1][1])

    def tag(self, fr, name):
        return name if fr.k == 0 else f"{name}·{fr.k}"

    def always_runs(self, fr, node):
        """the node is executed by every activation of the called frames between it and the root that completes normally: at each level it sits in a top-level statement of
        the function, behind no statement that can leave the function"""
        for g, n in self.chain(fr, node)[:-1]:
            st = source.enclosing_stmt(n)
            if logical_parent(st) is not g.func:
                return False
            if any(isinstance(x, (ast.Return, ast.Raise)) and x.lineno < st.lineno for x in g.own):
                return False
        return True

    def returns(self, fr):
        return [x for x in fr.own if isinstance(x, ast.Return) and x.value is not None]

    def resolve(self, fr, expr, depth=0):
        """fresh expression: `expr` of frame `fr` in the terms of the root function"""
        if depth > 14:
            raise AnchorMissing(f"`{short(expr, 50)}`: definitions nested too deeply to be followed")

        def rec(n):
            if isinstance(n, ast.Name):
                if isinstance(n.ctx, ast.Load) and not (fr.k == 0 and n.id in self.keep):
                    if n.id in fr.args:
                        return self.resolve(fr.up, fr.args[n.id], depth + 1)
                    if n.id in fr.defs:
                        return self.resolve(fr, fr.defs[n.id], depth + 1)
                if n.id not in fr.locals and fr.outer is not None:
                    return self.resolve(fr.outer, n, depth + 1)  # (a free variable of a nested function)
                if fr.k and n.id in fr.locals and n.id != fr.receiver:
                    return ast.copy_location(ast.Name(id=self.tag(fr, n.id), ctx=n.ctx), n)
                return ast.copy_location(ast.Name(id=n.id, ctx=n.ctx), n)
            if isinstance(n, ast.Call) and id(n) in self.by_call:
                sub = self.by_call[id(n)]
                rets = [x for x in sub.own if isinstance(x, ast.Return)]
                if len(rets) == 1 and rets[0].value is not None and logical_parent(rets[0]) is sub.func:
                    return self.resolve(sub, rets[0].value, depth + 1)
            new = type(n)()
            for name, val in ast.iter_fields(n):
                if isinstance(val, list):
                    setattr(new, name, [rec(x) if isinstance(x, ast.AST) else x for x in val])
                else:
                    setattr(new, name, rec(val) if isinstance(val, ast.AST) else val)
            return ast.copy_location(new, n) if hasattr(n, "lineno") else new

        return rec(expr)

    def text(self, fr, expr):
        return u(self.resolve(fr, expr))

    def origins(self, fr, e, depth=0):
        """the expressions [(frame, node)] the value of `e` may come from: through locals bound once, parameters (the caller's argument) and the return statements of a
        called helper (every one of them)"""
        if depth > 14:
            return [(fr, e)]
        if isinstance(e, ast.Name):
            if e.id in fr.args:
                return self.origins(fr.up, fr.args[e.id], depth + 1)
            if e.id in fr.defs:
                return self.origins(fr, fr.defs[e.id], depth + 1)
            if e.id not in fr.locals and fr.outer is not None:
                return self.origins(fr.outer, e, depth + 1)
        if isinstance(e, ast.Call) and id(e) in self.by_call and self.returns(self.by_call[id(e)]):
            sub = self.by_call[id(e)]
            return [o for r in self.returns(sub) for o in self.origins(sub, r.value, depth + 1)]
        return [(fr, e)]


def _call_args(call):
    """the argument expressions of a call, given by position or by keyword"""
    return list(call.args) + [k.value for k in call.keywords if k.arg is not None]


class _NotHere(AnchorMissing):
    """a role of O2.5 is not found with this function as the home of the worker id (nothing has been stated yet: the next candidate is tried)"""


def worker_ids_are_positions(chk, rid, drv):
    """O2.5 on Driver.start_benchmark TOGETHER WITH the helper methods / functions it delegates to (_CallTree): the creation of a worker, the append to the worker list, the
    client loop and what it records may sit in the method itself or in an extracted helper; every role is compared in the terms of the function that owns the worker id
    (arguments followed through the call sites, returned values back to the caller). That function is start_benchmark or, when the whole loop over the worker assignments was
    moved out, the helper on the way to the creation of the worker in which such an id is found. The worker id is a value that equals the position of the worker in the list by
    construction: a counter advanced by one together with the append, the index of an `enumerate` loop every round of which appends one worker, or the length of the list
    taken before the append."""
    D = drv.cls("Driver")
    sb = drv.methods(D).get("start_benchmark")
    if sb is None:
        raise AnchorMissing("Driver.start_benchmark")
    T0 = _CallTree(drv, sb)
    cc = T0.nodes(lambda n: isinstance(n, ast.Call) and last_attr(n.func) == "create_client")
    if not cc:
        raise AnchorMissing("creation of a worker (`create_client(...)`) in Driver.start_benchmark or in a method it calls")
    first = None
    for fr in reversed(list(cc[0][0].chain())):
        try:
            return _worker_ids(chk, rid, drv, D, T0 if fr.k == 0 else _CallTree(drv, fr.func), T0)
        except _NotHere as x:
            first = first or x
    raise first


def _worker_ids(chk, rid, drv, D, T, T0):
    root = T.root
    sb = root.func
    cc = T.nodes(lambda n: isinstance(n, ast.Call) and last_attr(n.func) == "create_client")
    if not cc:
        raise _NotHere(f"creation of a worker (`create_client(...)`) in {sb.name}")

    # the worker list: the self attribute the created worker is appended to (the worker reaches the append through locals / as the value a helper returns)
    def is_created(fr, e):
        if any(n is c for _, n in T.origins(fr, e) for _, c in cc):
            return True
        return isinstance(e, ast.Name) and any(isinstance(n, ast.Assign) and any(n.value is c for g, c in cc if g is fr) and any(u(t) == e.id for t in n.targets) for n in fr.own)

    apps = T.nodes(lambda n: isinstance(n, ast.Call) and last_attr(n.func) == "append" and isinstance(n.func, ast.Attribute) and len(n.args) == 1 and not n.keywords)
    apps = [(fr, n) for fr, n in apps if is_self_attr(T.resolve(fr, n.func.value)) and is_created(fr, n.args[0])]
    if not apps:
        raise _NotHere(f"append of the created worker to a list attribute of the driver in {sb.name} (or in a method it calls)")
    lists = {T.text(fr, n.func.value) for fr, n in apps}
    app_stmts = [T.root_stmt(fr, n) for fr, n in apps]
    # candidates for the worker id among the locals of start_benchmark, by the way they are bound
    counters = sorted({n.target.id for n in root.own if isinstance(n, ast.AugAssign) and isinstance(n.op, ast.Add) and isinstance(n.target, ast.Name) and source.is_const(n.value, 1)})
    enums = {n.target.elts[0].id: n for n in root.own if isinstance(n, ast.For) and isinstance(n.iter, ast.Call) and dotted(n.iter.func) == "enumerate" and n.iter.args
             and isinstance(n.target, ast.Tuple) and len(n.target.elts) == 2 and isinstance(n.target.elts[0], ast.Name)}
    bindings = {}
    for n in root.own:
        if isinstance(n, ast.Name) and isinstance(n.ctx, ast.Store):
            bindings[n.id] = bindings.get(n.id, 0) + 1
    lens = {t.id: n for n in root.own if isinstance(n, ast.Assign) and len(n.targets) == 1 and isinstance(t := n.targets[0], ast.Name) and bindings.get(t.id) == 1
            and isinstance(n.value, ast.Call) and dotted(n.value.func) == "len" and len(n.value.args) == 1 and not n.value.keywords and T.text(root, n.value.args[0]) in lists}
    T.keep = set(counters) | set(enums) | set(lens)
    cc0 = T.resolve(*cc[0])
    cc_args = {u(a) for a in _call_args(cc0)}
    wid = next((c for c in list(counters) + sorted(enums) + sorted(lens) if c in cc_args), counters[0] if len(counters) == 1 else None)
    if wid is None:
        raise _NotHere(f"worker id (a local of {sb.name} advanced by 1, the index of an enumerate loop or the length of the worker list) handed to `{short(cc0, 60)}`")
    kind = "counter" if wid in counters else ("enumerate" if wid in enums else "length")

    def paired(a, b):
        """the statements a and b of the home function run together: same block, no statement between them that can leave the block (guard clause)"""
        blk = logical_parent(a)
        if blk is not logical_parent(b):
            return False
        for field in ("body", "orelse", "finalbody"):
            seq = flat(getattr(blk, field, None) or [])
            ia, ib = (next((i for i, s_ in enumerate(seq) if s_ is x), None) for x in (a, b))
            if ia is not None and ib is not None:
                lo, hi = sorted((ia, ib))
                return not any(isinstance(s_, (ast.Continue, ast.Break, ast.Return, ast.Raise)) or (isinstance(s_, ast.If) and getattr(s_, "_synthetic_arm", None)) for s_ in seq[lo:hi])
        return False

    name = "worker id += 1 in the same block as workers.append"
    partial = [(fr, n) for fr, n in apps if not T.always_runs(fr, n)]
    where = "" if len(apps) == 1 and apps[0][0] is root else "append in " + ", ".join(sorted({fr.func.name for fr, _ in apps}))
    if kind == "counter":
        incs = [n for n in root.own if isinstance(n, ast.AugAssign) and isinstance(n.target, ast.Name) and n.target.id == wid]
        block_of_id = incs[0]
        ok = all(isinstance(i.op, ast.Add) and source.is_const(i.value, 1) and sum(1 for a in app_stmts if paired(a, i)) == 1 for i in incs) \
            and all(sum(1 for i in incs if paired(a, i)) == 1 for a in app_stmts)
        if ok and partial:
            # (the append sits in a helper that does not reach it on every path: whether an id is consumed without a list entry depends on that helper's conditions)
            chk.unknown(rid, f"`{short(partial[0][1], 50)}` in {partial[0][0].func.name} is not reached by every call of that method: the pairing with `{wid} += 1` is not decided", partial[0][1])
        else:
            chk.ob(rid, name, ok, incs[0], where)
    elif kind == "enumerate":
        # the id is the number of completed rounds of the loop: it is the list position iff every round appends exactly one worker
        loop = block_of_id = enums[wid]
        if len(apps) == 1 and not partial and logical_parent(app_stmts[0]) is loop and any(s_ is app_stmts[0] for s_ in flat(loop.body)) and paired(flat(loop.body)[0], app_stmts[0]):
            chk.ob(rid, name, True, loop, f"`{wid}` counts the rounds of `{short(loop.iter, 40)}`, every round appends one worker" + ("; " + where if where else ""))
        else:
            chk.unknown(rid, f"`{wid}` counts the rounds of the loop over `{short(loop.iter, 40)}`: that every round appends exactly one worker is not recognised", loop)
    else:
        # the id is the length of the list: it is the position of the worker appended NEXT
        d_ = block_of_id = lens[wid]
        a_ = app_stmts[0]
        loops = [[x for x in source.ancestors(st) if isinstance(x, (ast.For, ast.While, ast.AsyncFor))] for st in (d_, a_)]
        above = any(x is logical_parent(d_) for x in source.ancestors(a_))  # (the block of the length is the block of the append or one around it)
        if len(app_stmts) != 1 or partial or not above:
            chk.unknown(rid, f"`{short(d_, 50)}`: that exactly one worker is appended after it is not recognised", d_)
        elif len(loops[1]) > len(loops[0]):
            chk.ob(rid, name, False, d_, f"`{short(d_, 50)}` is evaluated once for all the workers appended by the loop over `{short(getattr(loops[1][0], 'iter', loops[1][0]), 40)}`")
        else:
            chk.ob(rid, name, d_.lineno < a_.lineno, d_, f"`{short(d_, 50)}` " + ("before" if d_.lineno < a_.lineno else "AFTER") + " the append" + ("; " + where if where else ""))
    # the first id is 0
    name = "worker id starts at 0"
    again = None
    if T is not T0 and kind != "length":
        # the id lives in a helper: it starts once per benchmark only if start_benchmark enters that helper once (one call site, in no loop)
        homes = [fr for fr in T0.frames if fr.func is sb]
        around = [a for fr in homes[:1] for g, n in T0.chain(fr.up, fr.call) for a in source.ancestors(n) if isinstance(a, (ast.For, ast.AsyncFor, ast.While, ast.comprehension, ast.ListComp,
                                                                                                                          ast.SetComp, ast.DictComp, ast.GeneratorExp)) and source.enclosing_func(a) is g.func]
        again = ("several", homes[1].call) if len(homes) != 1 else (("loop", around[0]) if around else None)
    if again is not None and again[0] == "several":
        chk.unknown(rid, f"{name}: {sb.name}, where the worker id `{wid}` lives, is called from several places", again[1])
    elif again is not None:
        chk.ob(rid, name, False, homes[0].call, f"`{wid}` starts again for every call of {sb.name}, which is called inside `{short(again[1], 50)}`")
    elif kind == "counter":
        wi = [n for n in root.own if isinstance(n, ast.Assign) and any(u(t) == wid for t in n.targets)]
        if not wi:
            chk.unknown(rid, f"{name}: no plain assignment to `{wid}` in {sb.name}", incs[0])
        else:
            try:
                vals = [_ev(inline_node(n.value, root.defs), {}) for n in wi]
            except me.CannotEval as x:
                vals = None
                chk.unknown(rid, f"{name}: the initial value `{short(wi[0].value, 40)}` cannot be evaluated ({x})", wi[0])
            if vals is not None:
                nz = [n for n, v in zip(wi, vals) if isinstance(v, bool) or v != 0]
                if not nz and len(wi) > 1:
                    chk.unknown(rid, f"{name}: `{wid}` is reset in {len(wi)} places", wi[1])
                else:
                    chk.ob(rid, name, not nz, (nz or wi)[0], "")
    elif kind == "enumerate":
        it = enums[wid].iter
        start = it.args[1] if len(it.args) > 1 else next((k.value for k in it.keywords if k.arg == "start"), None)
        try:
            v = 0 if start is None else _ev(inline_node(start, root.defs), {})
            chk.ob(rid, name, not isinstance(v, bool) and v == 0, enums[wid], short(it, 60))
        except me.CannotEval as x:
            chk.unknown(rid, f"{name}: the start of `{short(it, 50)}` cannot be evaluated ({x})", enums[wid])
    else:
        # the list is empty before the first worker: every plain assignment to the attribute in the class is an empty list and nothing else grows it
        attr = T.resolve(*[(fr, n.func.value) for fr, n in apps][0]).attr
        stores = [n for n in ast.walk(D) if isinstance(n, ast.Assign) and any(is_self_attr(t, attr) for t in n.targets)]
        grows = [n for n in ast.walk(D) if isinstance(n, ast.Call) and isinstance(n.func, ast.Attribute) and n.func.attr in ("append", "extend", "insert") and is_self_attr(n.func.value, attr)
                 and not any(n is a for _, a in apps)] + [n for n in ast.walk(D) if isinstance(n, ast.AugAssign) and is_self_attr(n.target, attr)]
        empty = [isinstance(n.value, ast.List) and not n.value.elts or (isinstance(n.value, ast.Call) and dotted(n.value.func) == "list" and not n.value.args) for n in stores]
        if stores and all(empty) and not grows:
            chk.ob(rid, name, True, stores[0], f"`self.{attr}` is only ever assigned an empty list and grows only by the located append")
        else:
            chk.unknown(rid, f"{name}: that `self.{attr}` is empty before the first worker is created is not recognised", (grows or stores or [lens[wid]])[0])
    name = "the counter is the id given to the created worker"
    if wid in cc_args or any(isinstance(x, ast.Name) and x.id == wid for a in _call_args(cc0) for x in ast.walk(a)):
        chk.ob(rid, name, wid in cc_args, cc[0][1], short(cc0 if cc[0][0] is not root else cc[0][1], 70))
    else:
        chk.unknown(rid, f"{name}: no argument of `{short(cc0, 70)}` is derived from `{wid}`", cc[0][1])
    # each client is recorded under the worker id: the dict attribute keyed by the client of the client loop. The loop is the one (in any activation) around a
    # `<client allocations>.add(<client>, <row>)` one argument of which is its loop variable; it belongs to the block in which the id is determined
    def loops_around(fr, node):
        for g, n in T.chain(fr, node):
            for a in source.ancestors(n):
                if a is g.func:
                    break
                if isinstance(a, ast.For):
                    yield g, a

    def loop_vars(g, L):
        return [T.tag(g, x.id) for x in ast.walk(L.target) if isinstance(x, ast.Name)]

    def in_id_block(g, L):
        # the loop runs in the round of the worker start-up in which the id is determined: in the block (or a block inside it) that advances the counter / takes the length,
        # inside the enumerate loop
        st = T.root_stmt(g, L)
        if kind == "counter":
            return any(i_ is block_of_id for i_ in ast.walk(logical_parent(st)))
        return any(x is (block_of_id if kind == "enumerate" else logical_parent(block_of_id)) for x in source.ancestors(st))

    al = []
    for fr, x in T.nodes(lambda n: isinstance(n, ast.Call) and last_attr(n.func) == "add" and len(_call_args(n)) == 2):
        texts = [T.text(fr, a_) for a_ in _call_args(x)]
        for g, L in loops_around(fr, x):
            if set(loop_vars(g, L)) & set(texts) and in_id_block(g, L):
                al.append((fr, x, g, L))
                break
    by_client = bool(al)
    if not al:
        # no `add` takes the variable of a loop around it. Located by the other role of its receiver: the object is handed to the actor that created the worker
        # (`<actor>.start_worker(.., <client allocations>, ..)`); the loop is the innermost one around the call
        actor = T.text(cc[0][0], cc[0][1].func.value) if isinstance(cc[0][1].func, ast.Attribute) else None
        handed = {T.text(fr, a_) for fr, n in T.nodes(lambda n: isinstance(n, ast.Call) and isinstance(n.func, ast.Attribute)) if not any(n is c for _, c in cc)
                  and T.text(fr, n.func.value) == actor for a_ in _call_args(n)}
        for fr, x in T.nodes(lambda n: isinstance(n, ast.Call) and last_attr(n.func) == "add" and isinstance(n.func, ast.Attribute) and len(_call_args(n)) == 2):
            if T.text(fr, x.func.value) in handed:
                al += [(fr, x, g, L) for g, L in list(loops_around(fr, x))[:1] if in_id_block(g, L)]
    if not al:
        raise AnchorMissing(f"`<client allocations>.add(<client>, <row>)` in the client loop of {sb.name}")
    afr, add, lfr, loop = al[0]
    if not by_client:
        radd = T.resolve(afr, add)
        if any(isinstance(x, ast.Name) and x.id in loop_vars(lfr, loop) for a_ in _call_args(radd) for x in ast.walk(a_)):
            chk.unknown(rid, f"`{short(radd, 70)}`: the client is derived from the variable of the loop over `{short(loop.iter, 30)}` in a way that is not recognised", add)
        else:
            chk.ob(rid, "each client gets its own matrix row", False, add, f"`{short(radd, 70)}` in the loop over `{short(loop.iter, 30)}`: no argument depends on the client `{u(loop.target)}` of the loop")
        return
    clv = next(v_ for v_ in loop_vars(lfr, loop) if v_ in [T.text(afr, a_) for a_ in _call_args(add)])
    # `self.<dict>[<client>] = <a worker id candidate>` in the client loop (by name as a fall-back, so that a wrong value is reported and not just 'not found')
    in_loop = T.nodes(lambda n: isinstance(n, ast.Assign) and len(n.targets) == 1 and isinstance(n.targets[0], ast.Subscript))
    in_loop = [(fr, n) for fr, n in in_loop if any(g is lfr and L is loop for g, L in loops_around(fr, n)) and is_self_attr(T.resolve(fr, n.targets[0].value))]
    cpw_ = [(fr, n) for fr, n in in_loop if T.text(fr, n.targets[0].slice) == clv and T.text(fr, n.value) in T.keep] \
        or [(fr, n) for fr, n in in_loop if T.resolve(fr, n.targets[0].value).attr == "clients_per_worker"]
    if not cpw_:
        chk.unknown(rid, f"no `self.<clients per worker>[<client>] = <worker id>` in the client loop of {sb.name}", add)
    else:
        fr, n = cpw_[0]
        chk.ob(rid, "clients_per_worker[client] := this worker id", T.text(fr, n.value) == wid and T.text(fr, n.targets[0].slice) == clv, n, short(n, 60))
    # the matrix attribute of the driver: assigned from the allocator's builder property
    try:
        bname = _builder(drv).name
    except AnchorMissing:
        bname = None  # (the builder delegates the constructions to helpers: the row argument is then only required to be a subscript by the client)
    mattr = {rt.attr for fr, n in T0.nodes(lambda n: isinstance(n, ast.Assign) and isinstance(n.value, ast.Attribute) and n.value.attr == bname) for t in n.targets
             if is_self_attr(rt := T0.resolve(fr, t))}
    row = next(r_ for a_ in _call_args(add)[::-1] if u(r_ := T.resolve(afr, a_)) != clv)  # (`row = self.allocations[client]; ....add(client, row)`)
    if not isinstance(row, ast.Subscript):
        chk.unknown(rid, f"`{short(add, 60)}`: the row handed over for the client is not a subscript of the matrix", add)
    else:
        ok = u(row.slice) == clv and (not mattr or (is_self_attr(row.value) and row.value.attr in mattr))
        chk.ob(rid, "each client gets its own matrix row", ok, add, short(add, 70))


# ---- O2.9 / O2.10 the race as the driver starts it, on values ---------------------------------------------------------------------------------------------------
def _start_up_inputs(c01):
    """[(name, schedule, hosts)]: the schedules vary where the steps are decided (elements left empty first / in the middle / last / twice in a row, capped and over-committed
    parallel elements, no element at all), the host lists where the clients are handed out (one host, a host listed more than once - next to itself and around another one -,
    uneven cores, more cores than clients, more hosts than clients)."""
    T, P = c01._leaf, c01._par

    def H(*hosts):
        return [{"host": h, "cores": c} for h, c in hosts]

    one = H(("h0", 2))
    scheds = [
        ("[3, 1, 2]", lambda: [T("a", 3), T("b", 1), T("c", 2)]),
        ("[par(2+3), 2]", lambda: [P("p", [T("a", 2), T("b", 3)]), T("c", 2)]),
        ("[par(1 x5 on 2 clients), 2]", lambda: [P("p", [T(f"t{i}", 1) for i in range(5)], clients=2), T("c", 2)]),
        ("[empty, 1]", lambda: [P("p", [], clients=0), T("a", 1)]),
        ("[2, empty, 3]", lambda: [T("a", 2), P("p", [], clients=0), T("b", 3)]),
        ("[3, empty]", lambda: [T("a", 3), P("p", [], clients=0)]),
        ("[1, empty, empty (4 clients), par(1+1), 2]", lambda: [T("a", 1), P("p", [], clients=0), P("q", [], clients=4), P("r", [T("b", 1), T("c", 1)]), T("d", 2)]),
        ("no element", lambda: []),
    ]
    out = [(f"schedule {n}, hosts [h0 x2 cores]", mk(), one) for n, mk in scheds]
    layouts = [
        ("[h0 x2 cores, h0 x2 cores] (one host listed twice)", H(("h0", 2), ("h0", 2))),
        ("[h0 x1 core, h1 x3 cores]", H(("h0", 1), ("h1", 3))),
        ("[h0 x2 cores, h1 x2 cores, h0 x2 cores] (one host listed first and last)", H(("h0", 2), ("h1", 2), ("h0", 2))),
        ("[h0 x8 cores]", H(("h0", 8))),
        ("[h0, h1, h2, h3 x2 cores each]", H(("h0", 2), ("h1", 2), ("h2", 2), ("h3", 2))),
    ]
    for hn, hosts in layouts:
        out.append((f"schedule [par(2+3), 1] (5 clients), hosts {hn}", [P("p", [T("a", 2), T("b", 3)]), T("c", 1)], hosts))
        out.append((f"schedule [3, empty, 2] (3 clients), hosts {hn}", [T("a", 3), P("p", [], clients=0), T("b", 2)], hosts))
    return out


class _Outer:
    """the variables of the activation a nested function was defined in (what its free variables refer to)"""

    def __init__(self, fn, env):
        self.fn, self.env = fn, env


def _closing_machine(c01):
    """The abstract machine of rules.C01 with closures for nested `def`s: that machine binds a nested function as its bare node and calls it with its parameters only, so every
    free variable of the nested function (`self`, locals of the enclosing method) silently is a value without a representative - the calls it makes on them are lost. Here a
    nested function is bound together with the variables of the activation that defines it; they are visible (not assignable) in its body when it is called. The outer
    variables travel in the `cls` slot of call_function (which ends up as `__class__` of the new activation) and are unpacked by the first block of that activation."""

    class Machine(c01._Machine):
        def stmt(self, s, env):
            if isinstance(s, ast.FunctionDef):
                env[s.name] = _Outer(s, env)
                return None
            return super().stmt(s, env)

        def apply(self, callee, args, kwargs, e=None):
            if isinstance(callee, _Outer):
                return self.call_function(callee.fn, args, kwargs, callee)
            return super().apply(callee, args, kwargs, e)

        def block(self, stmts, env):
            outer = env.get("__class__")
            if isinstance(outer, _Outer):
                env["__class__"] = outer.env.get("__class__")
                if isinstance(env["__class__"], _Outer):
                    env["__class__"] = None
                for k_, v_ in outer.env.items():
                    env.setdefault(k_, v_)
            return super().block(stmts, env)

    return Machine


class _StartUpSim(_Sim):
    """Driver.start_benchmark - with whatever it delegates to - interpreted by the abstract machine of rules.C01 on a model driver (its own constructor; the driver's actor is a
    recording stand-in; the matrix builder class is constructed with the model schedule wherever the routine constructs it; the worker assignment function is interpreted with
    the model hosts in the place of its non-integer argument; conditions on the configuration are taken as False). Facts read off the model driver afterwards and off the
    recorded create_client(...) / start_worker(...) calls:
       steps       walking the join points of the matrix (the step counter starts at the value start-up leaves it with and moves on by one per join point), the driver's
                   completion predicate over the step counter is False after every join point but the last one of the rows and True after the last one
       entries     the per-step entries the driver keeps are, step by step, the sets of the tasks between two consecutive join points of the matrix (one entry per step)
       all_ids     the client ids of the row views the workers are started with are 0 .. n-1 (n = rows of the matrix), each exactly once
       contiguous  the clients of one worker are a contiguous range of ids
       per_core    a worker is created on one of the load driver hosts, and on no host more workers than the host (all of its entries in the list) has cores"""

    FACTS = ("steps", "entries", "all_ids", "contiguous", "per_core")
    what, inputs = "Driver.start_benchmark", "(schedule, load driver hosts) inputs"

    def __init__(self, drv):
        super().__init__()
        self.drv = drv

    def _roles(self, c01):
        drv = self.drv
        D = drv.cls("Driver")
        dm = drv.methods(D)
        if "start_benchmark" not in dm:
            raise AnchorMissing("Driver.start_benchmark")
        # the step counter: an attribute advanced by one that starts before the first step (-1: the artificial initial join point), as O2.1 locates it
        counters = {n.target.attr for m_ in dm.values() for n in walk_body(m_) if isinstance(n, ast.AugAssign) and isinstance(n.op, ast.Add) and is_self_attr(n.target) and source.is_const(n.value, 1)}
        counters &= {t.attr for m_ in dm.values() for n in walk_body(m_) if isinstance(n, ast.Assign) and u(n.value) == "-1" for t in n.targets if is_self_attr(t)}
        pred = why = None
        if len(counters) != 1:
            why = f"the driver's step counter (an attribute initialised to -1 and advanced by `+= 1`) is not recognised (candidates {sorted(counters)})"
        else:
            counter = next(iter(counters))
            # the completion predicate: a parameterless method of the driver that reads the step counter, returns a value on every path, stores nothing - and is asked by the
            # method that advances the counter (else: by any other method of the driver)
            advancing = [m_ for m_ in dm.values() if any(isinstance(n, ast.AugAssign) and is_self_attr(n.target, counter) for n in walk_body(m_))]
            preds = []
            for m_ in dm.values():
                rets = [n for n in walk_body(m_) if isinstance(n, ast.Return)]
                stores = [n for n in walk_body(m_) if is_self_attr(n) and isinstance(n.ctx, (ast.Store, ast.Del))]
                if params_of(m_) == ["self"] and rets and all(r.value is not None for r in rets) and not stores \
                        and any(is_self_attr(n, counter) and isinstance(n.ctx, ast.Load) for n in walk_body(m_)):
                    preds.append(m_)

            def asked_by(methods):
                return [m_ for m_ in preds if any(is_self_attr(n, m_.name) and isinstance(n.ctx, ast.Load) for a_ in methods if a_ is not m_ for n in walk_body(a_))]

            cands = asked_by(advancing) or asked_by(dm.values())  # (the counter may be advanced by a helper of the method that asks)
            if len(cands) == 1:
                pred = cands[0]
            else:
                why = f"the driver's completion predicate (ONE parameterless method over the step counter `{counter}` that the method advancing the counter asks) is not recognised " \
                      f"(candidates {sorted(m_.name for m_ in cands)})"
        return D, (next(iter(counters)) if len(counters) == 1 else None), pred, why

    def _compute(self):
        import importlib

        try:
            c01 = importlib.import_module("rules.C01")
            machine, model, opaque, is_prop = _closing_machine(c01), c01._Obj, c01._Opaque, c01._is_property
            soft = (c01._Cannot, c01._Raised, RecursionError)
            cases = _start_up_inputs(c01)
            A, builder, builder_is_prop = c01._matrix_builder(self.drv)
            closure = c01._closure_in_module
        except AnchorMissing:
            raise
        except Exception as x:  # noqa: BLE001 — rules/C01.py is owned (and changed) elsewhere: whatever keeps it from loading makes this evaluation unavailable, not the check fail
            raise me.CannotEval(f"the abstract machine of rules.C01 is not available ({type(x).__name__}: {x})")
        drv = self.drv
        D, counter, pred, pred_why = self._roles(c01)
        CA, JP, TA = drv.cls("ClientAllocations"), drv.cls("JoinPoint"), drv.cls("TaskAllocation")
        reader = drv.methods(CA).get("tasks")
        cwa = [f_ for f_ in drv.functions() if f_.name == "calculate_worker_assignments"]
        ta_ctor = _ctor(drv, TA)
        if reader is None or len(cwa) != 1 or ta_ctor is None or len(params_of(ta_ctor)) < 2:
            raise AnchorMissing("ClientAllocations.tasks / calculate_worker_assignments / the constructor of TaskAllocation")
        task_p = params_of(ta_ctor)[1]
        start = drv.methods(D)["start_benchmark"]
        own = {t_.attr for f_ in closure(drv, start) for n in walk_body(f_) if isinstance(n, (ast.Assign, ast.AnnAssign, ast.AugAssign))
               for t_ in (n.targets if isinstance(n, ast.Assign) else [n.target]) if is_self_attr(t_)}
        f = dict.fromkeys(self.FACTS)
        if pred is None:
            f["steps"] = _NotEvaluated(pred_why)

        def fail(k, txt):
            if f[k] is None:
                f[k] = txt

        def is_a(v, cls):
            return isinstance(v, model) and v.cls is cls

        for name, sched, hosts in cases:
            created, started = [], []

            def create_client(*a, **k):
                created.append(model(None, _label=f"worker #{len(created)}", args=list(a) + list(k.values())))
                return created[-1]

            def start_worker(*a, **k):
                started.append(list(a) + list(k.values()))

            create_client._model_callable = start_worker._model_callable = True
            state = {"built": 0, "assigned": 0}

            def hook(d, args, kwargs):
                if d == A.name:
                    state["built"] += 1
                    return mach.new(A, [list(sched)])
                if d == cwa[0].name:
                    state["assigned"] += 1
                    swap = lambda v: v if isinstance(v, int) and not isinstance(v, bool) else [dict(h) for h in hosts]  # noqa: E731
                    return mach.call_function(cwa[0], [swap(v) for v in args], {k: swap(v) for k, v in kwargs.items()})
                return NotImplemented

            try:
                mach = machine(drv, call_hook=hook, choose=lambda node: False)
                actor = model(None, create_client=create_client, start_worker=start_worker, _label="driver actor")
                dobj = mach.new(D, [actor, opaque("config")])
                for k_, v_ in list(dobj.fields.items()):
                    if v_ is None and k_ not in own:
                        dobj.fields[k_] = opaque(f"driver.{k_}")  # (set by the preparation of the benchmark, which is not interpreted: a value without a representative)
                mach.apply(mach.getattr(dobj, start.name), [], {})
                if not state["built"] or not state["assigned"]:
                    raise me.CannotEval(f"Driver.{start.name} does not construct {A.name}(...) / call {cwa[0].name}(...) by name")
                ref = mach.new(A, [list(sched)])
                M = mach.getattr(ref, builder.name) if builder_is_prop else mach.apply(mach.getattr(ref, builder.name), [], {})
                if not (isinstance(M, (list, tuple)) and M and all(isinstance(r, (list, tuple)) for r in M)):
                    raise me.CannotEval("the allocation matrix of the model schedule is not a non-empty sequence of rows")
                n_rows, width = len(M), max(len(r) for r in M)
                # -- the clients of the started workers, read through the row view's own reader
                per_worker = []
                for rec in started:
                    views = [v for v in rec if is_a(v, CA)]
                    if len(views) != 1:
                        raise me.CannotEval(f"start_worker(...) is handed {len(views)} {CA.name} objects")
                    ids = []
                    for i in range(width):
                        for e in mach._iter(mach.apply(mach.getattr(views[0], reader.name), [i], {}), reader):
                            vals = list(e.astuple()) if isinstance(e, c01._Rec) else [v for k_, v in e.fields.items() if k_ != "_label"] if isinstance(e, model) and e.cls not in (JP, TA) \
                                else list(e) if isinstance(e, (tuple, list)) else []
                            got = [v for v in vals if isinstance(v, int) and not isinstance(v, bool)]
                            if len(got) != 1:
                                raise me.CannotEval(f"the row view returns `{e!r}`: not a (client id, entry) pair")
                            if got[0] not in ids:
                                ids.append(got[0])
                    worker = [v for v in rec if any(v is c for c in created)]
                    per_worker.append((ids, worker[0] if len(worker) == 1 else None))
                # -- the walk through the steps
                jcols = [[i for i, e in enumerate(r) if is_a(e, JP)] for r in M]
                aligned = len({len(r) for r in M}) == 1 and all(c == jcols[0] for c in jcols) and jcols[0]
                v0 = dobj.fields.get(counter) if counter is not None else None
                fin = None
                if pred is not None and aligned and isinstance(v0, int) and not isinstance(v0, bool):
                    fin = []
                    for j in range(1, len(jcols[0]) + 1):
                        dobj.fields[counter] = v0 + j
                        r_ = mach.getattr(dobj, pred.name) if is_prop(pred) else mach.apply(mach.getattr(dobj, pred.name), [], {})
                        fin.append(mach.truth(r_, pred))
                    dobj.fields[counter] = v0
            except soft as x:
                raise me.CannotEval(f"{name}: {type(x).__name__.strip('_')}: {x}")
            except (AttributeError, TypeError) as x:  # the machine of rules.C01 is owned (and changed) elsewhere: an interface that moved is 'not available', not a crash
                raise me.CannotEval(f"the abstract machine of rules.C01 is not usable as expected ({type(x).__name__}: {x})")
            self.cases += 1
            # -- steps
            if pred is not None and not isinstance(f["steps"], _NotEvaluated):
                if fin is None:
                    f["steps"] = _NotEvaluated(f"{name}: " + ("the join points of the matrix are not aligned" if not aligned else f"the step counter `{counter}` has no integer value after start-up"))
                elif fin != [False] * (len(fin) - 1) + [True]:
                    first = fin.index(True) + 1 if True in fin else None
                    fail("steps", f"{name}: every client walks through {len(fin)} join points (the initial one and one behind each of the {len(sched)} schedule element(s)); "
                         + (f"`{pred.name}` already holds after join point {first} of {len(fin)}: what lies behind it is never run" if first is not None and first < len(fin)
                            else f"`{pred.name}` does not hold after the last join point: the race never completes"))
            # -- entries: located by value (an attribute holding a sequence of collections of the schedule's tasks)
            if aligned and not isinstance(f["entries"], _NotEvaluated):
                leaves = {id(lf) for el in sched for lf in mach._iter(el, None)}
                want = [sorted({id(e.init_args.get(task_p)) for r in M for e in r[a_ + 1:b_] if is_a(e, TA)}) for a_, b_ in zip(jcols[0], jcols[0][1:])]
                cands = [k_ for k_, v in dobj.fields.items() if isinstance(v, (list, tuple)) and v and all(isinstance(s_, (set, frozenset, list, tuple)) for s_ in v)
                         and all(id(x) in leaves for s_ in v for x in s_)]
                if len(cands) == 1:
                    got = [sorted(id(x) for x in s_) for s_ in dobj.fields[cands[0]]]
                    if got != want:
                        label = {id(lf): lf.fields.get("_label") for el in sched for lf in mach._iter(el, None)}
                        fail("entries", f"{name}: the driver keeps the per-step entries {[[label[i] for i in s_] for s_ in got]} in `{cands[0]}`, the steps between the join points of the "
                                        f"matrix consist of {[[label.get(i, '?') for i in s_] for s_ in want]}")
                elif want and (len(cands) > 1 or any(want)):
                    f["entries"] = _NotEvaluated(f"{name}: the attribute in which the driver keeps its per-step entries (a sequence of task sets) is not recognised (candidates {sorted(cands)})")
            # -- the clients of the workers
            handed = [c for ids, _ in per_worker for c in ids]
            if sorted(handed) != list(range(n_rows)):
                lost, twice = sorted(set(range(n_rows)) - set(handed)), sorted({c for c in handed if handed.count(c) > 1})
                fail("all_ids", f"{name}: the started workers simulate the clients {[ids for ids, _ in per_worker]} of 0..{n_rows - 1}"
                     + (f": client(s) {lost} are handed to no worker" if lost else "") + (f"; client(s) {twice} more than once" if twice else ""))
            bad = next((ids for ids, _ in per_worker if ids and sorted(ids) != list(range(min(ids), min(ids) + len(ids)))), None)
            if bad is not None:
                fail("contiguous", f"{name}: a worker simulates the clients {bad}, which is not a contiguous range")
            cores, used = {}, {}
            for h in hosts:
                cores[h["host"]] = cores.get(h["host"], 0) + h["cores"]
            for w in created:
                on = [a_ for a_ in w.fields["args"] if isinstance(a_, str)]
                if len(on) != 1:
                    if not isinstance(f["per_core"], (str, _NotEvaluated)):
                        f["per_core"] = _NotEvaluated(f"{name}: the host among the arguments of create_client(...) is not recognised ({on})")
                    break
                if on[0] not in cores:
                    fail("per_core", f"{name}: a worker is created on `{on[0]}`, which is none of the load driver hosts")
                used[on[0]] = used.get(on[0], 0) + 1
            over = next((h for h in used if h in cores and used[h] > cores[h]), None)
            if over is not None:
                fail("per_core", f"{name}: {used[over]} workers are created on {over}, which has {cores[over]} core(s)")
        return f


_STEP_OBS = [
    ("O2.9", "the race is complete exactly after the last join point of the rows (the completion predicate over the step counter, walked through every join point)", ("steps",), "steps"),
    ("O2.9", "the driver keeps one per-step entry per step: the tasks between two consecutive join points of the matrix", ("entries",), "entries"),
]
_HANDOUT_OBS = [
    ("O2.10", "every client id 0..n-1 is handed to exactly one started worker", ("all_ids",), "all-ids"),
    ("O2.10", "the clients of a worker are a contiguous range of ids", ("contiguous",), "contiguous"),
    ("O2.10", "workers are created on the load driver hosts, at most one per core", ("per_core",), "per-core"),
]


def start_up_on_values(chk, drv, table):
    """O2.9 / O2.10: facts of the end-to-end evaluation of the benchmark start-up (_StartUpSim), one obligation per fact; a fact that cannot be evaluated is 'not recognised'"""
    sim = getattr(drv, "_c02_start_up_sim", None)
    if sim is None:
        sim = drv._c02_start_up_sim = _StartUpSim(drv)
    D = drv.cls("Driver")
    node = drv.methods(D).get("start_benchmark") or D
    for rid, name, facts, key in table:
        v, txt = sim.verdict(facts)
        if v is None:
            chk.unknown(rid, f"{name}: {txt}", node)
        else:
            chk.ob(rid, name, v, node, txt, key=f"{_D}:Driver.start_benchmark:on-values:{key}")


def run(chk):
    repo = chk.repo
    drv, trk = repo.module(_D), repo.module(_T)
    chk.use(drv, trk)
    chk.explanation = (
        "Decides the allocation arithmetic on roles located by data flow and on representative values: join-point / entry agreement (the emission condition of a per-step entry "
        "evaluated over entry kind x row x column x accumulator state); matrix rows addressed modulo the row count (the same modulus for tasks and padding) and, decided on "
        "representative (element clients, row count) values, whether that modulus and the padding bound are the element's own client count (O2.8, client cap of a parallel element); per-task "
        "client ranges telescope (the client loop evaluated for representative offsets / client counts: element-wide indices s..s+n-1, task-local 0..n-1, offset advanced by n); worker "
        "partition tiles 0..n-1 contiguously (range(c, c+k), c += k), per-host share = min(ceil(n/hosts), remaining) evaluated over a simulated host loop, with remaining decreased by "
        "the same amount, round-robin per core; worker ids are list positions (start_benchmark analysed together with the helper methods it delegates to: arguments followed through the "
        "call sites, returned values back to the caller; the id is a counter advanced with the append, an enumerate index or the length of the list); a parallel element's client count is computed on demand from its current sub-tasks (evaluated). "
        "Roles that are not located (or have a shape that is not enumerated) are decided end to end: the worker assignment function and the allocator (matrix builder, per-step "
        "entries, constructors of the cell classes) are evaluated for representative hosts / schedules and the same facts are read off the results. "
        "The start-up of the race is decided end to end as well (O2.9 / O2.10): Driver.start_benchmark, with whatever it delegates to, is interpreted on a model driver (abstract machine "
        "of rules.C01, here with closures for nested functions) for representative schedules - also with elements left empty - and host lists - also with one host listed more than "
        "once -; read off the model: the completion predicate walked through every join point of the rows, the per-step entries against the tasks between the join points, the client "
        "ids of the row views the workers are started with (0..n-1 each once, contiguous per worker) and the hosts the workers are created on (at most one per core)."
    )
    chk.not_decided = "rectangularity of the matrix for all shapes (None-padding arithmetic), the per-host ceil split summing to the total for all inputs (guarded by a run-time assert), balance across hosts."
    step_entry_agreement(chk, drv, "O2.1")

    # ---- O2.2 / O2.3 / O2.7 / O2.8: the allocation matrix ----------------------------------------------------------------------------------------------------
    chk.rule("O2.2", "every row subscript of the matrix inside the per-client loop is `<client index> % <row count>` (or `% <the element's own client count>`, which never exceeds the "
             "row count: see O2.8), and the None padding wraps at the same modulus; every row of the matrix is a list of its own", 3,
             "over-committed parallel element inside a schedule with a wider element: rows addressed modulo the wrong count -> ragged matrix / IndexError")
    chk.rule("O2.3", "for each sub-task the client loop runs over the element-wide client indices s .. s + <sub-task>.clients - 1 (each once) and s is advanced by the same <sub-task>.clients "
             "after the loop; task-local index == i - s; global index == i; total clients == <element>.clients; s starts at 0 for each element (decided on the values the extracted loop "
             "bounds / constructor arguments take for representative offsets and client counts)", 6,
             "parallel element with two tasks: a client index of the second task is used twice or never")
    chk.rule("O2.7", "the clients recorded on a join point as executing the completing task (or an `any` task) are the PHYSICAL row indices of exactly those sub-tasks; the row count is the "
             "maximum client count over all schedule elements (at least 1)", 4,
             "completed-by waits for the wrong clients (over-committed element), or the matrix has fewer rows than the widest element")
    chk.rule("O2.8", "a schedule element occupies exactly the clients it requests: the matrix row of an element-wide client index is that index modulo the ELEMENT's own client count "
             "(<element>.clients, at most the row count) and the None padding completes rounds of that same count; wrapping at the schedule-wide row count only honours the client "
             "cap of a parallel element that happens to be the widest element of the schedule", 2,
             "a parallel element that caps its clients (`clients: N` below the sum of its sub-tasks' clients) next to a wider schedule element: its sub-tasks are spread over up to "
             "<row count> clients and run concurrently instead of in rounds of N (more load than requested; total_clients / ramp-up still computed from N)")
    M = _Decider(chk, _matrix_sim(drv), _MATRIX_OBS)
    try:
        _matrix_roles(M, drv)
    except AnchorMissing as x:
        # a role of the builder is not located: the obligations not yet stated are decided on the matrices the allocator yields for representative schedules
        M.rest(x, drv.cls("Allocator"))
    from rules.C05 import partition_call_rule

    partition_call_rule(chk, "O2.3", drv)
    joinpoint_lists_reset(chk, "O2.7", drv)
    client_floor_rule(chk, "O2.7", drv)

    # ---- O2.4 worker partition tiles ---------------------------------------------------------------------------------------------------------------------
    chk.rule("O2.4", "worker assignment: client ids come from range(c, c + k) with c += k (same k) afterwards, c starts at 0 and is written nowhere else; per-host share == "
             "min(ceil(n / hosts), remaining) and remaining -= that share; worker slots per host == its core count; per-host split is round-robin count[i % slots] += 1", 8,
             "client ids lost/duplicated or ids >= n handed out (e.g. 5 clients on 4 hosts), more than one worker per core, uneven worker loads")
    worker_partition(chk, "O2.4", drv)

    # ---- O2.5 worker ids are positions -------------------------------------------------------------------------------------------------------------------
    chk.rule("O2.5", "the counter passed as worker id is incremented exactly on the paths that append to the worker list (ids == list positions); each client is recorded under that worker id", 3,
             "a host with more cores than clients: worker ids skip, the driver addresses the wrong arrival entry")
    try:
        worker_ids_are_positions(chk, "O2.5", drv)
    except AnchorMissing as x:
        chk.unknown("O2.5", f"not recognised: {x}", drv.cls("Driver"))

    # ---- O2.9 / O2.10 the start-up of the race on values ------------------------------------------------------------------------------------------------
    chk.rule("O2.9", "the race walks through exactly the steps of its matrix: Driver.start_benchmark (with whatever it delegates to) interpreted on a model driver for representative "
             "schedules - also with elements left empty (first, in the middle, last, two in a row) and capped / over-committed parallel elements -, then the step counter walked "
             "through the join points every client reports: the driver's completion predicate holds after the LAST join point and after none before it, and the per-step entries "
             "the driver keeps are, step by step, the tasks between two consecutive join points (one entry per step)", 2,
             "a schedule with an element left empty (by filters) followed by another element: a step count that differs from the number of join points minus one declares the race "
             "complete while schedule elements are still to be run (their tasks get none of their clients), or never; progress entries shifted against the steps")
    start_up_on_values(chk, drv, _STEP_OBS)
    chk.rule("O2.10", "the clients 0..n-1 reach the workers: Driver.start_benchmark interpreted on a model driver for representative lists of load driver hosts - one host, uneven "
             "cores, more cores / more hosts than clients, and ONE HOST LISTED MORE THAN ONCE -: the client ids of the row views the workers are started with are 0..n-1, each "
             "exactly once, a contiguous range per worker; every worker is created on one of the hosts and no host gets more workers than it has cores", 3,
             "a list of load driver hosts that names one machine twice (or any list, for an edit that skips / regroups / filters the worker assignments between "
             "calculate_worker_assignments and the start of the workers): the ids of a whole host entry are handed to no worker - every task runs with fewer clients than it requests")
    start_up_on_values(chk, drv, _HANDOUT_OBS)

    # ---- O2.6 parallel client count --------------------------------------------------------------------------------------------------------------------
    chk.rule("O2.6", "a parallel element's client count is the explicit value when not None, else the sum over its CURRENT sub-tasks (computed on demand, not cached at construction)", 2,
             "filters remove sub-tasks of an uncapped parallel element: stale client count creates clients without tasks")
    PA = trk.cls("Parallel")
    pc = trk.methods(PA).get("clients")
    pinit = trk.methods(PA).get("__init__")
    if pc is None or pinit is None:
        raise AnchorMissing("Parallel.clients / Parallel.__init__")
    # roles of the constructor parameters by position: (tasks, explicit client count); the attributes they reach are found by evaluating the constructor's attribute stores
    pp = params_of(pinit)[1:3]
    if len(pp) < 2:
        raise AnchorMissing("Parallel.__init__(self, tasks, clients)")
    ctor_stores = [n for n in walk_body(pinit) if isinstance(n, ast.Assign) and len(n.targets) == 1 and is_self_attr(n.targets[0])]
    expl_attrs = [n.targets[0].attr for n in ctor_stores if any(isinstance(x, ast.Name) and x.id == pp[1] for x in ast.walk(n.value))]
    if not expl_attrs:
        raise AnchorMissing(f"attribute of Parallel that keeps the explicit client count (constructor parameter `{pp[1]}`)")
    expl_attr = expl_attrs[0]

    def par_clients(explicit, counts, stale=None):
        """Parallel.clients for an element constructed with `explicit` and sub-tasks with `stale or counts` clients that has the sub-tasks `counts` NOW (an attribute computed at
        construction keeps the value it got from the sub-tasks of that time; the attribute holding the task list itself follows the removal)"""
        at_ctor = [me.Record(clients=c) for c in (stale if stale is not None else counts)]
        fields = {}
        for n in ctor_stores:
            try:
                fields[n.targets[0].attr] = _ev(n.value, {pp[0]: at_ctor, pp[1]: explicit, "self": me.Record(**fields)})
            except me.CannotEval:
                fields.pop(n.targets[0].attr, None)
        live = [k_ for k_, v in fields.items() if v is at_ctor]
        if not live:
            raise me.CannotEval("no attribute of Parallel holds the list of sub-tasks given to the constructor")
        for k_ in live:
            fields[k_] = [me.Record(clients=c) for c in counts]
        return _call_value(pc, {"self": me.Record(**fields), "__funcs__": _helpers_of(trk, pc)})

    try:
        cases = [((None, [1, 2]), 3), ((None, []), 0), ((2, [1, 2, 3]), 2), ((0, [1]), 0), ((5, [1]), 5)]
        bad = next(((a_, want, par_clients(*a_)) for a_, want in cases if par_clients(*a_) != want), None)
        chk.ob("O2.6", "Parallel.clients == explicit value or sum over current sub-tasks", bad is None, pc,
               "evaluated for (explicit, sub-task clients) " + ", ".join(f"{a_} -> {w_}" for a_, w_ in cases[:3]) if bad is None else
               f"explicit client count {bad[0][0]}, sub-tasks with {bad[0][1]} client(s): {bad[2]} instead of {bad[1]}")
        # computed on demand: sub-tasks removed after construction (filters) are not counted any more
        got = par_clients(None, [1], stale=[1, 2, 4])
        chk.ob("O2.6", "no client sum cached at construction", got == 1, pinit, "" if got == 1 else f"an uncapped element built with sub-tasks of [1, 2, 4] clients of which only [1] is left reports {got} client(s)")
    except me.CannotEval as x:
        chk.unknown("O2.6", f"Parallel.clients cannot be evaluated on representative elements ({x})", pc)
    # the explicit value is the one given at construction: no method of the class (or anything else in the package) rewrites it
    wr = []
    for path_ in repo.package_files():
        if expl_attr not in repo.text(path_):
            continue  # (an attribute that is stored to occurs in the text of the file: the other files need not be parsed)
        m_ = repo.module(path_)
        for n in ast.walk(m_.tree):
            tg = n.targets if isinstance(n, ast.Assign) else ([n.target] if isinstance(n, (ast.AugAssign, ast.AnnAssign)) else [])
            for t in tg:
                for x in ast.walk(t):
                    if isinstance(x, ast.Attribute) and x.attr == expl_attr and isinstance(x.ctx, ast.Store):
                        wr.append((m_, n))
    bad = [(m_, n) for m_, n in wr if not (source.enclosing_func(n) is pinit)]
    chk.ob("O2.6", f"the explicit client count (`{expl_attr}`) is written only at construction", not bad, bad[0][1] if bad else pinit,
           "" if not bad else f"rewritten in {bad[0][0].relpath}:{source.qualname(bad[0][1])}: `{short(bad[0][1], 60)}`", key=f"esrally/track/track.py:Parallel:{expl_attr}:writers")

from sa.selftest import V  # noqa: E402

_MATRIX_OLD = "        allocations = [None] * max_clients\n        for client_index in range(max_clients):\n            allocations[client_index] = []\n"
_TP_LOOPS_OLD = "        for idx in range(0, len(allocs[0])):\n            for client in range(0, self.clients):\n                allocation = allocs[client][idx]\n"
_TP_TEST_OLD = ("                if isinstance(allocation, TaskAllocation):\n                    current_tasks.add(allocation.task)\n"
                "                elif isinstance(allocation, JoinPoint) and client == 0 and idx > 0:\n")
_CL_OLD = "                for client_index in range(start_client_index, start_client_index + sub_task.clients):\n"
_CL_NEW = "                for client_index_in_task in range(sub_task.clients):\n                    client_index = start_client_index + client_index_in_task\n"
_IDS_OLD = ("            worker_assignment = []\n            assignment[\"workers\"].append(worker_assignment)\n"
            "            for c in range(client_idx, client_idx + client_count_for_worker):\n                worker_assignment.append(c)\n")
_CLIENTS_OLD = "        max_clients = 1\n        for task in self.schedule:\n            max_clients = max(max_clients, task.clients)\n        return max_clients\n"
_PAD_OLD = ("            if start_client_index % max_clients > 0:\n                # pin the index range to [0, max_clients). This simplifies the code below.\n"
            "                start_client_index = start_client_index % max_clients\n                for client_index in range(start_client_index, max_clients):\n"
            "                    allocations[client_index].append(None)\n")
_JP_HEAD = "    @property\n    def join_points(self):\n"
_PAD_HELPER = ("    @staticmethod\n    def _fill_idle_clients(allocations, allocated_slots):\n        max_clients = len(allocations)\n        first_idle_client = allocated_slots % max_clients\n"
               "        if first_idle_client > 0:\n            for client_index in range(first_idle_client, max_clients):\n                allocations[client_index].append(None)\n\n")
_PAR_OLD = ("        if self._clients is not None:\n            return self._clients\n        else:\n            num_clients = 0\n            for task in self.tasks:\n"
            "                num_clients += task.clients\n            return num_clients\n")

VARIANTS = [
    V("F2: entries skip empty elements", "break", _D, "                elif isinstance(allocation, JoinPoint) and client == 0 and idx > 0:", "                elif isinstance(allocation, JoinPoint) and len(current_tasks) > 0:", "O2.1"),
    V("entry per client row", "break", _D, "                elif isinstance(allocation, JoinPoint) and client == 0 and idx > 0:", "                elif isinstance(allocation, JoinPoint) and idx > 0:", "O2.1"),
    V("entry for the initial join point", "break", _D, "                elif isinstance(allocation, JoinPoint) and client == 0 and idx > 0:", "                elif isinstance(allocation, JoinPoint) and client == 0:", "O2.1"),
    V("drop % max_clients", "break", _D, "                    physical_client_index = client_index % max_clients", "                    physical_client_index = client_index", "O2.2"),
    V("seed m1: wrap at the element's clients", "break", _D, "                    physical_client_index = client_index % max_clients", "                    physical_client_index = client_index % task.clients", "O2.2"),
    V("offset advanced by the element's clients", "break", _D, "                start_client_index += sub_task.clients", "                start_client_index += task.clients", "O2.3"),
    V("task-local index is the global one", "break", _D, "                        client_index_in_task=client_index - start_client_index,", "                        client_index_in_task=client_index,", "O2.3"),
    V("client_idx += 1", "break", _D, "            client_idx += client_count_for_worker", "            client_idx += 1", "O2.4"),
    V("seed m2: last host takes the remainder", "break", _D, "        clients_on_this_host = min(clients_per_host, remaining_clients)", "        clients_on_this_host = clients_per_host if host_config is not host_configs[-1] else remaining_clients", "O2.4"),
    V("floor instead of ceil", "break", _D, "    clients_per_host = math.ceil(client_count / host_count)", "    clients_per_host = math.floor(client_count / host_count)", "O2.4"),
    V("worker id incremented outside the guard", "break", _D, "                    self.workers.append(worker)\n                    worker_id += 1", "                    self.workers.append(worker)\n                worker_id += 1", "O2.5"),
    V("seed m3: parallel client sum cached", "break", _T, "        if self._clients is not None:\n            return self._clients\n        else:\n            num_clients = 0\n            for task in self.tasks:\n                num_clients += task.clients\n            return num_clients",
      "        return self._clients", "O2.6"),
    V("completing clients recorded by logical index", "break", _D, "                        clients_executing_completing_task.append(physical_client_index)", "                        clients_executing_completing_task.append(client_index)", "O2.7"),
    V("row count from the first element", "break", _D, "        for task in self.schedule:\n            max_clients = max(max_clients, task.clients)\n        return max_clients", "        for task in self.schedule[:1]:\n            max_clients = max(max_clients, task.clients)\n        return max_clients", "O2.7"),
    # preserving
    V("physical index via helper local", "keep", _D, "                    physical_client_index = client_index % max_clients", "                    rows = max_clients\n                    physical_client_index = client_index % rows"),
    V("entries emitted after the client loop", "keep", _D,
      "                if isinstance(allocation, TaskAllocation):\n                    current_tasks.add(allocation.task)\n                elif isinstance(allocation, JoinPoint) and client == 0 and idx > 0:\n                    # one entry per join point (except for the initial one), also if the schedule element before it is empty\n                    tasks.append(current_tasks)\n                    current_tasks = set()\n",
      "                if isinstance(allocation, TaskAllocation):\n                    current_tasks.add(allocation.task)\n            if isinstance(allocs[0][idx], JoinPoint) and idx > 0:\n                tasks.append(current_tasks)\n                current_tasks = set()\n"),
    V("sum() in Parallel.clients", "keep", _T, "            num_clients = 0\n            for task in self.tasks:\n                num_clients += task.clients\n            return num_clients", "            return sum(task.clients for task in self.tasks)"),
    # ---- hardening round 2: refactored shapes (benign/C01-b3, C02-b1, C02-b3, C11-b4) and the same shapes with a defect inside ----
    V("h2 keep (C02-b3): matrix rows from a comprehension", "keep", _D, _MATRIX_OLD, "        allocations = [[] for _ in range(max_clients)]\n"),
    V("h2 break: one list object repeated for every row", "break", _D, _MATRIX_OLD, "        allocations = [[]] * max_clients\n", "O2.2"),
    V("h2 keep (C11-b4): columns walked with enumerate(zip(*allocs))", "keep", _D, _TP_LOOPS_OLD,
      "        for idx, allocations_at_idx in enumerate(zip(*allocs)):\n            for client, allocation in enumerate(allocations_at_idx):\n"),
    V("h2 break: enumerate(zip(*allocs)) with row and column index swapped", "break", _D, _TP_LOOPS_OLD,
      "        for client, allocations_at_idx in enumerate(zip(*allocs)):\n            for idx, allocation in enumerate(allocations_at_idx):\n", "O2.1"),
    V("h2 break: enumerate(zip(*allocs)), entries start at the third column", "break", _D, _TP_LOOPS_OLD + _TP_TEST_OLD,
      "        for idx, allocations_at_idx in enumerate(zip(*allocs)):\n            for client, allocation in enumerate(allocations_at_idx):\n" + _TP_TEST_OLD.replace("idx > 0", "idx > 1"), "O2.1"),
    V("h2 keep: entry emission behind guard clauses", "keep", _D, _TP_TEST_OLD + "                    # one entry per join point (except for the initial one), also if the schedule element before it is empty\n"
      "                    tasks.append(current_tasks)\n                    current_tasks = set()\n",
      "                if isinstance(allocation, TaskAllocation):\n                    current_tasks.add(allocation.task)\n                    continue\n"
      "                if not isinstance(allocation, JoinPoint) or client != 0 or idx == 0:\n                    continue\n"
      "                tasks.append(current_tasks)\n                current_tasks = set()\n"),
    V("h2 break: guard clauses, entry for every row", "break", _D, _TP_TEST_OLD + "                    # one entry per join point (except for the initial one), also if the schedule element before it is empty\n"
      "                    tasks.append(current_tasks)\n                    current_tasks = set()\n",
      "                if isinstance(allocation, TaskAllocation):\n                    current_tasks.add(allocation.task)\n                    continue\n"
      "                if not isinstance(allocation, JoinPoint) or idx == 0:\n                    continue\n"
      "                tasks.append(current_tasks)\n                current_tasks = set()\n", "O2.1"),
    [V("h2 keep (C01-b3): client loop over the task-local index, total clients hoisted", "keep", _D, _CL_OLD, _CL_NEW),
     V("", "keep", _D, "                        client_index_in_task=client_index - start_client_index,\n", "                        client_index_in_task=client_index_in_task,\n"),
     V("", "keep", _D, "                        total_clients=task.clients,\n", "                        total_clients=total_clients,\n"),
     V("", "keep", _D, "            any_task_completes_parent = []\n            for sub_task in task:\n", "            any_task_completes_parent = []\n            total_clients = task.clients\n            for sub_task in task:\n")],
    [V("h2 break: client loop over the task-local index, global index without the offset", "break", _D, _CL_OLD, _CL_NEW, "O2.3"),
     V("", "break", _D, "                        client_index_in_task=client_index - start_client_index,\n", "                        client_index_in_task=client_index_in_task,\n"),
     V("", "break", _D, "                        global_client_index=client_index,\n", "                        global_client_index=client_index_in_task,\n")],
    [V("h2 break: client loop over the task-local index, one client short", "break", _D, _CL_OLD, _CL_NEW.replace("range(sub_task.clients)", "range(1, sub_task.clients)"), "O2.3"),
     V("", "break", _D, "                        client_index_in_task=client_index - start_client_index,\n", "                        client_index_in_task=client_index_in_task,\n")],
    [V("h2 break: total clients hoisted out of the schedule loop (row count)", "break", _D, "                        total_clients=task.clients,\n", "                        total_clients=total_clients,\n", "O2.3"),
     V("", "break", _D, "        join_point_id = 0\n        # start with an artificial join point", "        join_point_id = 0\n        total_clients = max_clients\n        # start with an artificial join point")],
    V("h2 keep (C02-b3): worker ids as list(range(...))", "keep", _D, _IDS_OLD, "            assignment[\"workers\"].append(list(range(client_idx, client_idx + client_count_for_worker)))\n"),
    V("h2 break: list(range(...)) one id too many", "break", _D, _IDS_OLD, "            assignment[\"workers\"].append(list(range(client_idx, client_idx + client_count_for_worker + 1)))\n", "O2.4"),
    V("h2 break: list comprehension of ids with a filter", "break", _D, _IDS_OLD,
      "            assignment[\"workers\"].append([c for c in range(client_idx, client_idx + client_count_for_worker) if c > 0])\n", "O2.4"),
    V("h2 keep: id counter advanced through the end of the range", "keep", _D, _IDS_OLD + "            client_idx += client_count_for_worker\n",
      "            next_client_idx = client_idx + client_count_for_worker\n            assignment[\"workers\"].append(list(range(client_idx, next_client_idx)))\n            client_idx = next_client_idx\n"),
    V("h2 keep (C02-b3): row count as max([1] + [...])", "keep", _D, _CLIENTS_OLD, "        return max([1] + [task.clients for task in self.schedule])\n"),
    V("h2 break: row count as max([0] + [...])", "break", _D, _CLIENTS_OLD, "        return max([0] + [task.clients for task in self.schedule])\n", "O2.7"),
    V("h2 keep: row count as max(1, max(..., default=0))", "keep", _D, _CLIENTS_OLD, "        return max(1, max((task.clients for task in self.schedule), default=0))\n"),
    V("h2 keep: row count as max over the non-empty elements with default=1", "keep", _D, _CLIENTS_OLD, "        return max((task.clients for task in self.schedule if task.clients), default=1)\n"),
    V("h2 break: row count as max over the elements wider than one client, default=1", "break", _D, _CLIENTS_OLD, "        return max((task.clients for task in self.schedule if task.clients > 1), default=0)\n", "O2.7"),
    [V("h2 keep (C02-b1): None padding in a helper method", "keep", _D, _PAD_OLD, "            self._fill_idle_clients(allocations, start_client_index)\n"),
     V("", "keep", _D, _JP_HEAD, _PAD_HELPER + _JP_HEAD)],
    [V("h2 break: padding helper wraps one row early", "break", _D, _PAD_OLD, "            self._fill_idle_clients(allocations, start_client_index)\n", "O2.2"),
     V("", "break", _D, _JP_HEAD, _PAD_HELPER.replace("allocated_slots % max_clients", "allocated_slots % (max_clients - 1)") + _JP_HEAD)],
    V("h2 keep: completing clients recorded behind an early continue-free if/else", "keep", _D,
      "                    if sub_task.completes_parent:\n                        clients_executing_completing_task.append(physical_client_index)\n                    elif sub_task.any_completes_parent:\n                        any_task_completes_parent.append(physical_client_index)\n",
      "                    if sub_task.completes_parent:\n                        clients_executing_completing_task.append(client_index % max_clients)\n                    else:\n                        if sub_task.any_completes_parent:\n                            any_task_completes_parent.append(physical_client_index)\n"),
    V("h2 break: any-completing clients recorded for every sub-task", "break", _D,
      "                    elif sub_task.any_completes_parent:\n                        any_task_completes_parent.append(physical_client_index)\n",
      "                    else:\n                        any_task_completes_parent.append(physical_client_index)\n", "O2.7"),
    V("h2 keep: Parallel.clients with a guard clause and sum()", "keep", _T, _PAR_OLD, "        if self._clients is not None:\n            return self._clients\n        return sum(task.clients for task in self.tasks)\n"),
    V("h2 break: Parallel.clients ignores an explicit count of 0", "break", _T, _PAR_OLD, "        if self._clients:\n            return self._clients\n        return sum(task.clients for task in self.tasks)\n", "O2.6"),
    V("h2 keep: worker id handed over by keyword, extra counter in start_benchmark", "keep", _D,
      "                    worker = self.driver_actor.create_client(host, self.config, worker_id)\n",
      "                    started = 0\n                    started += 1\n                    worker = self.driver_actor.create_client(host, self.config, worker_id=worker_id)\n"),
]

# ---- hardening round 3 ------------------------------------------------------------------------------------------------------------------------------------------
_WA_HEAD = "def calculate_worker_assignments(host_configs, client_count):\n"
_RR_OLD = ("        workers_on_this_host = host_config[\"cores\"]\n        clients_per_worker = [0] * workers_on_this_host\n\n"
           "        # determine how many clients each worker should simulate\n        for c in range(clients_on_this_host):\n"
           "            clients_per_worker[c % workers_on_this_host] += 1\n")
_SPREAD_CALL = "        clients_per_worker = _spread_evenly(clients_on_this_host, host_config[\"cores\"])\n"
_SPREAD = ("def _spread_evenly(total, buckets):\n    if total == 0:\n        return [0] * buckets\n    per_bucket, leftover = divmod(total, buckets)\n"
           "    return [per_bucket + 1] * leftover + [per_bucket] * (buckets - leftover)\n\n\n")
_COUNT_LOOP = "def _spread_evenly(total, buckets):\n    counts = [0] * buckets\n    for c in range(total):\n        counts[c % buckets] += 1\n    return counts\n\n\n"
_IDS_ADV = _IDS_OLD + "            client_idx += client_count_for_worker\n"
_IDS_WHILE = ("            worker_assignment = []\n            assignment[\"workers\"].append(worker_assignment)\n            end = client_idx + client_count_for_worker\n"
              "            while client_idx < end:\n                worker_assignment.append(client_idx)\n                client_idx += 1\n")
_TA_INIT_OLD = ("class TaskAllocation:\n    def __init__(self, task, client_index_in_task, global_client_index, total_clients):\n        \"\"\"\n\n"
                "        :param task: The current task which is always a leaf task.\n        :param client_index_in_task: The task-specific index for the allocated client.\n"
                "        :param global_client_index:  The globally unique index for the allocated client across\n                                     all concurrently executed tasks.\n"
                "        :param total_clients: The total number of clients executing tasks concurrently.\n        \"\"\"\n        self.task = task\n"
                "        self.client_index_in_task = client_index_in_task\n        self.global_client_index = global_client_index\n        self.total_clients = total_clients\n")
_TA_RECORD = ("@dataclass(eq=False, repr=False)\nclass TaskAllocation:\n    task: track.Task\n    client_index_in_task: int\n    global_client_index: int\n    total_clients: int\n")
_CL_BLOCK = ("                for client_index in range(start_client_index, start_client_index + sub_task.clients):\n"
             "                    # this is the actual client that will execute the task. It may differ from the logical one in case we over-commit (i.e.\n"
             "                    # more tasks than actually available clients)\n"
             "                    physical_client_index = client_index % max_clients\n                    if sub_task.completes_parent:\n"
             "                        clients_executing_completing_task.append(physical_client_index)\n                    elif sub_task.any_completes_parent:\n"
             "                        any_task_completes_parent.append(physical_client_index)\n\n                    ta = TaskAllocation(\n                        task=sub_task,\n"
             "                        client_index_in_task=client_index - start_client_index,\n                        global_client_index=client_index,\n"
             "                        # if task represents a parallel structure this is the total number of clients\n                        # executing sub-tasks concurrently.\n"
             "                        total_clients=task.clients,\n                    )\n                    allocations[physical_client_index].append(ta)\n"
             "                start_client_index += sub_task.clients\n")
_CL_CALL = "                start_client_index = self._allocate(allocations, task, sub_task, start_client_index, clients_executing_completing_task, any_task_completes_parent)\n"
_CL_HELPER = ("    def _allocate(self, allocations, task, sub_task, first, completing, any_completing):\n        rows = len(allocations)\n        for offset in range(sub_task.clients):\n"
              "            logical = first + offset\n            row = logical % rows\n            if sub_task.completes_parent:\n                completing.append(row)\n"
              "            elif sub_task.any_completes_parent:\n                any_completing.append(row)\n"
              "            allocations[row].append(TaskAllocation(sub_task, offset, logical, task.clients))\n        return first + sub_task.clients\n\n")
_ROW_OLD = "                    physical_client_index = client_index % max_clients\n"
_ROW_CALL = "                    physical_client_index = _wrap(client_index, max_clients)\n"
_AL_HEAD = "class Allocator:\n"
_TP_OLD = ("        tasks = []\n        current_tasks = set()\n\n        allocs = self.allocations\n"
           "        # assumption: the shape of allocs is rectangular (i.e. each client contains the same number of elements)\n" + _TP_LOOPS_OLD + _TP_TEST_OLD
           + "                    # one entry per join point (except for the initial one), also if the schedule element before it is empty\n"
           "                    tasks.append(current_tasks)\n                    current_tasks = set()\n\n        return tasks\n")
_TP_COLUMNS = ("        tasks = []\n        current_tasks = set()\n        for column in list(zip(*self.allocations))[1:]:\n            if isinstance(column[0], JoinPoint):\n"
               "                tasks.append(current_tasks)\n                current_tasks = set()\n            else:\n"
               "                current_tasks.update(a.task for a in column if isinstance(a, TaskAllocation))\n        return tasks\n")
_ADD_OLD = "                        client_allocations.add(client_id, self.allocations[client_id])\n"

VARIANTS += [
    [V("h3 keep (C02-b5): per-worker counts from a divmod helper, ids as list(range(...))", "keep", _D, _RR_OLD, _SPREAD_CALL),
     V("", "keep", _D, _WA_HEAD, _SPREAD + _WA_HEAD),
     V("", "keep", _D, _IDS_OLD, "            assignment[\"workers\"].append(list(range(client_idx, client_idx + client_count_for_worker)))\n"),
     V("", "keep", _D, "    assert remaining_clients == 0\n", "    assert remaining_clients == 0\n    assert client_idx == client_count\n")],
    [V("h3 break: divmod helper drops the remainder", "break", _D, _RR_OLD, _SPREAD_CALL, "O2.4"),
     V("", "break", _D, _WA_HEAD, _SPREAD.replace("[per_bucket + 1] * leftover + [per_bucket] * (buckets - leftover)", "[per_bucket] * buckets") + _WA_HEAD)],
    [V("h3 break: divmod helper piles the remainder on the first worker", "break", _D, _RR_OLD, _SPREAD_CALL, "O2.4"),
     V("", "break", _D, _WA_HEAD, _SPREAD.replace("[per_bucket + 1] * leftover + [per_bucket] * (buckets - leftover)", "[per_bucket + leftover] + [per_bucket] * (buckets - 1)") + _WA_HEAD)],
    [V("h3 break: divmod helper yields one worker too few when clients are left over", "break", _D, _RR_OLD, _SPREAD_CALL, "O2.4"),
     V("", "break", _D, _WA_HEAD, _SPREAD.replace("(buckets - leftover)", "(buckets - leftover - 1)") + _WA_HEAD)],
    [V("h3 keep: the counting loop moved into a helper function", "keep", _D, _RR_OLD, _SPREAD_CALL),
     V("", "keep", _D, _WA_HEAD, _COUNT_LOOP + _WA_HEAD)],
    [V("h3 keep: helper result iterated in place", "keep", _D, _RR_OLD + "\n        # assign client ids to workers\n        for client_count_for_worker in clients_per_worker:\n",
       "        for client_count_for_worker in _spread_evenly(clients_on_this_host, host_config[\"cores\"]):\n"),
     V("", "keep", _D, _WA_HEAD, _SPREAD + _WA_HEAD)],
    V("h3 keep: round-robin slot through a local", "keep", _D, "            clients_per_worker[c % workers_on_this_host] += 1\n",
      "            slot = c % workers_on_this_host\n            clients_per_worker[slot] += 1\n"),
    V("h3 keep: ids handed out by a while loop (decided on the result of the function)", "keep", _D, _IDS_ADV, _IDS_WHILE),
    V("h3 break: while loop hands out one id too many", "break", _D, _IDS_ADV, _IDS_WHILE.replace("client_idx < end", "client_idx <= end"), "O2.4"),
    V("h3 keep: id counter advanced under a (vacuous) condition", "keep", _D, "            client_idx += client_count_for_worker\n",
      "            if client_count_for_worker > 0:\n                client_idx += client_count_for_worker\n"),
    V("h3 keep: remaining count recomputed from the id counter", "keep", _D, "        remaining_clients -= clients_on_this_host\n", "        remaining_clients = client_count - client_idx\n"),
    V("h3 keep (C02-b8): TaskAllocation as a dataclass", "keep", _D, _TA_INIT_OLD, _TA_RECORD),
    [V("h3 break: dataclass TaskAllocation, total clients left to a default", "break", _D, _TA_INIT_OLD, _TA_RECORD.replace("total_clients: int\n", "total_clients: int = 1\n"), "O2.3"),
     V("", "break", _D, "                        total_clients=task.clients,\n", "")],
    [V("h3 keep: client loop in a helper method that returns the next offset (decided on the matrices of representative schedules)", "keep", _D, _CL_BLOCK, _CL_CALL),
     V("", "keep", _D, _JP_HEAD, _CL_HELPER + _JP_HEAD)],
    [V("h3 break: helper method records the logical client index on the join point", "break", _D, _CL_BLOCK, _CL_CALL, "O2.7"),
     V("", "break", _D, _JP_HEAD, _CL_HELPER.replace("                completing.append(row)\n", "                completing.append(logical)\n") + _JP_HEAD)],
    [V("h3 break: helper method passes the element-wide index as task-local index", "break", _D, _CL_BLOCK, _CL_CALL, "O2.3"),
     V("", "break", _D, _JP_HEAD, _CL_HELPER.replace("TaskAllocation(sub_task, offset, logical, task.clients)", "TaskAllocation(sub_task, logical, logical, task.clients)") + _JP_HEAD)],
    [V("h3 break: helper method advances the offset by the element's clients", "break", _D, _CL_BLOCK, _CL_CALL, "O2."),
     V("", "break", _D, _JP_HEAD, _CL_HELPER.replace("return first + sub_task.clients", "return first + task.clients") + _JP_HEAD)],
    [V("h3 keep: row computed by a helper function without `%`", "keep", _D, _ROW_OLD, _ROW_CALL),
     V("", "keep", _D, _AL_HEAD, "def _wrap(i, n):\n    return i - (i // n) * n\n\n\n" + _AL_HEAD)],
    [V("h3 break: row helper wraps one row late", "break", _D, _ROW_OLD, _ROW_CALL, "O2.2"),
     V("", "break", _D, _AL_HEAD, "def _wrap(i, n):\n    return i - (i // (n + 1)) * (n + 1)\n\n\n" + _AL_HEAD)],
    V("h3 keep: per-step entries collected column by column (decided on the entries of representative schedules)", "keep", _D, _TP_OLD, _TP_COLUMNS),
    V("h3 break: column-wise entries include the initial join point", "break", _D, _TP_OLD, _TP_COLUMNS.replace("list(zip(*self.allocations))[1:]", "list(zip(*self.allocations))"), "O2.1"),
    V("h3 break: column-wise entries never reset", "break", _D, _TP_OLD, _TP_COLUMNS.replace("                tasks.append(current_tasks)\n                current_tasks = set()\n", "                tasks.append(set(current_tasks))\n"), "O2.1"),
    V("h3 keep: collected task through a local", "keep", _D, "                    current_tasks.add(allocation.task)\n", "                    task = allocation.task\n                    current_tasks.add(task)\n"),
    V("h3 keep: row count through a helper method", "keep", _D, _CLIENTS_OLD, "        return max(1, self._widest())\n\n    def _widest(self):\n        return max((task.clients for task in self.schedule), default=0)\n"),
    V("h3 break: row count through a helper method, no floor for empty elements", "break", _D, _CLIENTS_OLD,
      "        return self._widest()\n\n    def _widest(self):\n        return max((task.clients for task in self.schedule), default=1)\n", "O2.7"),
    V("h3 keep: Parallel.clients sums in a helper method", "keep", _T, "            num_clients = 0\n            for task in self.tasks:\n                num_clients += task.clients\n            return num_clients\n",
      "            return self._sub_task_clients()\n\n    def _sub_task_clients(self):\n        return sum(t.clients for t in self.tasks)\n"),
    V("h3 keep: matrix row through a local, add() by keyword", "keep", _D, _ADD_OLD, "                        row = self.allocations[client_id]\n                        client_allocations.add(tasks=row, client_id=client_id)\n"),
    V("h3 break: the worker's row instead of the client's", "break", _D, _ADD_OLD, "                        row = self.allocations[worker_id]\n                        client_allocations.add(client_id, row)\n", "O2.5"),
    V("h3 keep: per-step entries initialised to an empty list in the constructor", "keep", _D, "        self.tasks_per_join_point = None\n", "        self.tasks_per_join_point = []\n"),
]

# ---- hardening round 4: the worker start-up of Driver.start_benchmark cut into helper methods (benign/C02-b11) ---------------------------------------------------------
_SW_CREATE = "                    worker = self.driver_actor.create_client(host, self.config, worker_id)\n\n"
_SW_SETUP = "                    client_allocations = ClientAllocations()\n                    worker_client_contexts = {}\n"
_SW_LOOP_HEAD = "                    for client_id in clients:\n"
_SW_LOOP_BODY = ("                        client_allocations.add(client_id, self.allocations[client_id])\n"
                 "                        self.clients_per_worker[client_id] = worker_id\n"
                 "                        client_context = ClientContext(client_id=client_id, parent_worker_id=worker_id)\n\n"
                 "                        if create_api_keys:\n"
                 "                            resp = self.create_api_key(self.default_sync_es_client, client_id)\n"
                 "                            client_context.api_key = ApiKey(id=resp[\"id\"], secret=resp[\"api_key\"])\n\n"
                 "                        worker_client_contexts[client_id] = client_context\n"
                 "                        self.client_contexts[worker_id] = worker_client_contexts\n")
_SW_START = ("                    self.driver_actor.start_worker(\n"
             "                        worker, worker_id, self.config, self.track, client_allocations, client_contexts=worker_client_contexts\n                    )\n")
_SW_APPEND = "                    self.workers.append(worker)\n"
_SW_INC = "                    worker_id += 1\n"
_SW_BLOCK = _SW_CREATE + _SW_SETUP + _SW_LOOP_HEAD + _SW_LOOP_BODY + _SW_START
_SW_NEXT = "    def joinpoint_reached(self, worker_id, worker_local_timestamp, task_allocations):\n"


def _dedent(text, by):
    return "".join(line[by:] if line.strip() else line for line in text.splitlines(True))


_SW_CALL = "                    worker = self._start_worker(host, worker_id, clients, create_api_keys)\n"
_SW_HELPER = ("    def _start_worker(self, host, worker_id, client_ids, create_api_keys):\n"
              + _dedent(_SW_BLOCK, 12).replace("for client_id in clients:", "for client_id in client_ids:") + "        return worker\n\n")
_SW_HELPER_APPENDS = _SW_HELPER.replace("        return worker\n", "        self.workers.append(worker)\n")
_SW_LOOP_CALL = "                    client_allocations, worker_client_contexts = self._allocations_of(worker_id, clients, create_api_keys)\n"
_SW_LOOP_HELPER = ("    def _allocations_of(self, worker, client_ids, create_api_keys):\n"
                   + _dedent(_SW_SETUP + _SW_LOOP_HEAD + _SW_LOOP_BODY, 12).replace("for client_id in clients:", "for client_id in client_ids:").replace("worker_id", "worker")
                   .replace("parent_worker=", "parent_worker_id=")  # (the keyword of ClientContext keeps its name: only the local is renamed)
                   + "        return client_allocations, worker_client_contexts\n\n")
_SW_BODY_CALL = "                        self._register_client(client_allocations, worker_client_contexts, worker_id, client_id, create_api_keys)\n"
_SW_BODY_HELPER = ("    def _register_client(self, allocations_of_worker, contexts_of_worker, worker, client, with_api_key):\n"
                   + _dedent(_SW_LOOP_BODY, 16).replace("worker_client_contexts", "contexts_of_worker").replace("client_allocations", "allocations_of_worker")
                   .replace("client_id=client_id", "client_id=client").replace("[client_id]", "[client]").replace("(client_id, ", "(client, ").replace(", client_id)", ", client)")
                   .replace("parent_worker_id=worker_id", "parent_worker_id=worker").replace("= worker_id\n", "= worker\n").replace("[worker_id]", "[worker]")
                   .replace("if create_api_keys:", "if with_api_key:") + "\n")
_SW_GUARD_OLD = "                if len(clients) > 0:\n" + "                    self.logger.debug(\"Allocating worker [%d] on [%s] with [%d] clients.\", worker_id, host, len(clients))\n" + _SW_BLOCK + _SW_APPEND + _SW_INC
_SW_GUARD_NEW = "                if len(clients) == 0:\n                    continue\n" + _dedent(_SW_GUARD_OLD.split("\n", 1)[1], 4)

VARIANTS += [
    [V("h4 keep (C02-b11): the start-up of one worker extracted into a method that returns the worker", "keep", _D, _SW_BLOCK, _SW_CALL),
     V("", "keep", _D, _SW_NEXT, _SW_HELPER + _SW_NEXT)],
    [V("h4 break: extracted start-up hands over the matrix row of the worker id", "break", _D, _SW_BLOCK, _SW_CALL, "O2.5"),
     V("", "break", _D, _SW_NEXT, _SW_HELPER.replace("self.allocations[client_id]", "self.allocations[worker_id]") + _SW_NEXT)],
    [V("h4 break: extracted start-up is given the next worker id", "break", _D, _SW_BLOCK, _SW_CALL.replace("host, worker_id, clients", "host, worker_id + 1, clients"), "O2.5"),
     V("", "break", _D, _SW_NEXT, _SW_HELPER + _SW_NEXT)],
    [V("h4 break: extracted start-up called with host and worker id swapped", "break", _D, _SW_BLOCK, _SW_CALL.replace("host, worker_id, clients", "worker_id, host, clients"), "O2.5"),
     V("", "break", _D, _SW_NEXT, _SW_HELPER + _SW_NEXT)],
    [V("h4 break: extracted start-up records the clients under the client count", "break", _D, _SW_BLOCK, _SW_CALL, "O2.5"),
     V("", "break", _D, _SW_NEXT, _SW_HELPER.replace("self.clients_per_worker[client_id] = worker_id", "self.clients_per_worker[worker_id] = client_id") + _SW_NEXT)],
    [V("h4 break: extracted start-up, worker id advanced outside the guard", "break", _D, _SW_BLOCK + _SW_APPEND + _SW_INC, _SW_CALL + _SW_APPEND + _SW_INC[4:], "O2.5"),
     V("", "break", _D, _SW_NEXT, _SW_HELPER + _SW_NEXT)],
    [V("h4 keep: the extracted start-up appends the worker to the list itself", "keep", _D, _SW_BLOCK + _SW_APPEND, _SW_CALL.replace("worker = ", "")),
     V("", "keep", _D, _SW_NEXT, _SW_HELPER_APPENDS + _SW_NEXT)],
    [V("h4 break: the extracted start-up appends the worker, the id is advanced for every worker slot", "break", _D, _SW_BLOCK + _SW_APPEND + _SW_INC, _SW_CALL.replace("worker = ", "") + _SW_INC[4:], "O2.5"),
     V("", "break", _D, _SW_NEXT, _SW_HELPER_APPENDS + _SW_NEXT)],
    [V("h4 keep: the client loop extracted into a method that returns the allocations and the contexts", "keep", _D, _SW_SETUP + _SW_LOOP_HEAD + _SW_LOOP_BODY, _SW_LOOP_CALL),
     V("", "keep", _D, _SW_NEXT, _SW_LOOP_HELPER + _SW_NEXT)],
    [V("h4 break: extracted client loop is given the length of the worker list plus one", "break", _D, _SW_SETUP + _SW_LOOP_HEAD + _SW_LOOP_BODY,
       _SW_LOOP_CALL.replace("(worker_id, clients", "(worker_id + 1, clients"), "O2.5"),
     V("", "break", _D, _SW_NEXT, _SW_LOOP_HELPER + _SW_NEXT)],
    [V("h4 keep: the body of the client loop extracted into a method", "keep", _D, _SW_LOOP_BODY, _SW_BODY_CALL),
     V("", "keep", _D, _SW_NEXT, _SW_BODY_HELPER + _SW_NEXT)],
    [V("h4 break: extracted loop body called with client and worker id swapped", "break", _D, _SW_LOOP_BODY, _SW_BODY_CALL.replace("worker_id, client_id,", "client_id, worker_id,"), "O2.5"),
     V("", "break", _D, _SW_NEXT, _SW_BODY_HELPER + _SW_NEXT)],
    [V("h4 break: extracted loop body hands over the first row of the matrix", "break", _D, _SW_LOOP_BODY, _SW_BODY_CALL, "O2.5"),
     V("", "break", _D, _SW_NEXT, _SW_BODY_HELPER.replace("self.allocations[client]", "self.allocations[0]") + _SW_NEXT)],
    V("h4 keep: workers without clients skipped by a guard clause", "keep", _D, _SW_GUARD_OLD, _SW_GUARD_NEW),
    V("h4 break: guard clause, worker id advanced before the guard", "break", _D, _SW_GUARD_OLD,
      "                worker_id += 1\n" + _SW_GUARD_NEW.replace(_dedent(_SW_INC, 4), ""), "O2.5"),
]

# the worker id by another construction than a counter; helpers of other kinds (nested function, early return, two levels, result appended directly)
_SW_LOOPS_OLD = ("        worker_id = 0\n        for assignment in worker_assignments:\n            host = assignment[\"host\"]\n            for clients in assignment[\"workers\"]:\n"
                 "                # don't assign workers without any clients\n" + _SW_GUARD_OLD)
_SW_ENUM = ("        non_empty = [(assignment[\"host\"], clients) for assignment in worker_assignments for clients in assignment[\"workers\"] if len(clients) > 0]\n"
            "        for worker_id, (host, clients) in enumerate(non_empty):\n" + _dedent(_SW_GUARD_OLD.split("\n", 1)[1].replace(_SW_INC, ""), 8))
_SW_LEN_DROP = [V("", "keep", _D, "        worker_id = 0\n        for assignment in worker_assignments:\n", "        for assignment in worker_assignments:\n"),
                V("", "keep", _D, _SW_APPEND + _SW_INC, _SW_APPEND)]
_SW_HELPER_GUARDED = _SW_HELPER.replace("        worker = self.driver_actor.create_client", "        if not client_ids:\n            return None\n        worker = self.driver_actor.create_client")
_SW_HELPER_OUTER = _SW_HELPER.replace(_dedent(_SW_SETUP + _SW_LOOP_HEAD + _SW_LOOP_BODY, 12).replace("for client_id in clients:", "for client_id in client_ids:"),
                                      "        client_allocations, worker_client_contexts = self._allocations_of(worker_id, client_ids, create_api_keys)\n")
_SW_NESTED = ("        def start(host, worker_id, client_ids):\n" + _dedent(_SW_BLOCK, 8).replace("for client_id in clients:", "for client_id in client_ids:") + "            return worker\n\n")

VARIANTS += [
    V("h4 keep: worker id as the index of an enumerate loop over the non-empty worker slots", "keep", _D, _SW_LOOPS_OLD, _SW_ENUM),
    V("h4 break: enumerate loop over the non-empty worker slots starts at 1", "break", _D, _SW_LOOPS_OLD, _SW_ENUM.replace("enumerate(non_empty)", "enumerate(non_empty, start=1)"), "O2.5"),
    [V("h4 keep: worker id as the length of the worker list, taken in the block of the append", "keep", _D, "                    self.logger.debug(\"Allocating worker [%d] on",
       "                    worker_id = len(self.workers)\n                    self.logger.debug(\"Allocating worker [%d] on")] + _SW_LEN_DROP,
    [V("h4 keep: worker id as the length of the worker list, taken before the skip of empty workers", "keep", _D, "                # don't assign workers without any clients\n",
       "                worker_id = len(self.workers)\n")] + _SW_LEN_DROP,
    [V("h4 break: the length of the worker list taken once per host", "break", _D, "            host = assignment[\"host\"]\n            for clients in assignment[\"workers\"]:\n",
       "            host = assignment[\"host\"]\n            worker_id = len(self.workers)\n            for clients in assignment[\"workers\"]:\n", "O2.5")] + _SW_LEN_DROP,
    [V("h4 keep: the result of the extracted start-up appended directly", "keep", _D, _SW_BLOCK + _SW_APPEND,
       "                    self.workers.append(self._start_worker(host, worker_id, clients, create_api_keys))\n"),
     V("", "keep", _D, _SW_NEXT, _SW_HELPER + _SW_NEXT)],
    [V("h4 keep: extracted start-up with an early return for an empty client list, arguments by keyword", "keep", _D, _SW_BLOCK,
       "                    worker = self._start_worker(host=host, client_ids=clients, worker_id=worker_id, create_api_keys=create_api_keys)\n"),
     V("", "keep", _D, _SW_NEXT, _SW_HELPER_GUARDED + _SW_NEXT)],
    [V("h4 keep: extracted start-up that delegates the client loop to a second method", "keep", _D, _SW_BLOCK, _SW_CALL),
     V("", "keep", _D, _SW_NEXT, _SW_HELPER_OUTER + _SW_LOOP_HELPER + _SW_NEXT)],
    [V("h4 break: two levels of helpers, the inner one is given the next worker id", "break", _D, _SW_BLOCK, _SW_CALL, "O2.5"),
     V("", "break", _D, _SW_NEXT, _SW_HELPER_OUTER.replace("_allocations_of(worker_id,", "_allocations_of(worker_id + 1,") + _SW_LOOP_HELPER + _SW_NEXT)],
    [V("h4 keep: the start-up of one worker as a function nested in start_benchmark", "keep", _D, _SW_BLOCK, "                    worker = start(host, worker_id, clients)\n"),
     V("", "keep", _D, "        worker_id = 0\n        for assignment in worker_assignments:\n", _SW_NESTED + "        worker_id = 0\n        for assignment in worker_assignments:\n")],
    [V("h4 break: nested start-up function records the clients under the host", "break", _D, _SW_BLOCK, "                    worker = start(host, worker_id, clients)\n", "O2.5"),
     V("", "break", _D, "        worker_id = 0\n        for assignment in worker_assignments:\n",
       _SW_NESTED.replace("self.clients_per_worker[client_id] = worker_id", "self.clients_per_worker[client_id] = host") + "        worker_id = 0\n        for assignment in worker_assignments:\n")],
]

# the whole loop over the worker assignments moved out of start_benchmark: the worker id then lives in the helper
_SW_WHOLE = _SW_LOOPS_OLD + "\n"
_SW_WHOLE_HELPER = "    def _start_workers(self, worker_assignments, create_api_keys):\n" + _SW_LOOPS_OLD + "\n"
_SW_PER_HOST_HELPER = ("    def _start_workers_on(self, assignment, create_api_keys):\n        worker_id = 0\n        host = assignment[\"host\"]\n"
                       + _dedent(_SW_LOOPS_OLD.split("            host = assignment[\"host\"]\n", 1)[1], 4) + "\n")

VARIANTS += [
    [V("h4 keep: the loop over the worker assignments extracted into a method (the id counter lives in the helper)", "keep", _D, _SW_WHOLE,
       "        self._start_workers(worker_assignments, create_api_keys)\n\n"),
     V("", "keep", _D, _SW_NEXT, _SW_WHOLE_HELPER + _SW_NEXT)],
    [V("h4 break: extracted loop over the worker assignments advances the id for every worker slot", "break", _D, _SW_WHOLE,
       "        self._start_workers(worker_assignments, create_api_keys)\n\n", "O2.5"),
     V("", "break", _D, _SW_NEXT, _SW_WHOLE_HELPER.replace(_SW_APPEND + _SW_INC, _SW_APPEND + _SW_INC[4:]) + _SW_NEXT)],
    [V("h4 break: per-host helper starts the worker id at 0 for every host", "break", _D, _SW_WHOLE,
       "        for assignment in worker_assignments:\n            self._start_workers_on(assignment, create_api_keys)\n\n", "O2.5"),
     V("", "break", _D, _SW_NEXT, _SW_PER_HOST_HELPER + _SW_NEXT)],
]

# ---- strengthening round 5 (seeds C02-m14, C02-m15): the start-up of the race decided on values (O2.9 steps walked, O2.10 clients handed to the workers) -------------------
_STEPS_OLD = "        self.number_of_steps = len(allocator.join_points) - 1\n        self.tasks_per_join_point = allocator.tasks_per_joinpoint\n"
_FIN_OLD = "        return self.current_step == self.number_of_steps\n"
_WL_OLD = "        worker_id = 0\n        for assignment in worker_assignments:\n            host = assignment[\"host\"]\n            for clients in assignment[\"workers\"]:\n"

VARIANTS += [
    V("s5 break (seed C02-m14): the number of steps counts the non-empty per-step entries only", "break", _D, _STEPS_OLD,
      "        self.tasks_per_join_point = allocator.tasks_per_joinpoint\n"
      "        self.number_of_steps = len([tasks for tasks in self.tasks_per_join_point if len(tasks) > 0])\n", "O2.9"),
    V("s5 break: the number of steps counts the distinct task sets between the join points", "break", _D, _STEPS_OLD,
      "        self.tasks_per_join_point = allocator.tasks_per_joinpoint\n"
      "        self.number_of_steps = len({frozenset(tasks) for tasks in self.tasks_per_join_point})\n", "O2.9"),
    V("s5 break: the number of steps includes the initial join point (the race never completes)", "break", _D, _STEPS_OLD,
      "        self.number_of_steps = len(allocator.join_points)\n        self.tasks_per_join_point = allocator.tasks_per_joinpoint\n", "O2.9"),
    V("s5 break: completion predicate holds one step early", "break", _D, _FIN_OLD, "        return self.current_step >= self.number_of_steps - 1\n", "O2.9"),
    V("s5 break: the driver drops the per-step entries of empty elements (entries shifted against the steps)", "break", _D, _STEPS_OLD,
      "        self.number_of_steps = len(allocator.join_points) - 1\n        self.tasks_per_join_point = [tasks for tasks in allocator.tasks_per_joinpoint if tasks]\n", "O2.9"),
    V("s5 keep: the number of steps is the number of per-step entries (one per join point behind the initial one)", "keep", _D, _STEPS_OLD,
      "        self.tasks_per_join_point = allocator.tasks_per_joinpoint\n        self.number_of_steps = len(self.tasks_per_join_point)\n"),
    V("s5 keep: the number of steps as the number of join points behind the initial one", "keep", _D, _STEPS_OLD,
      "        closing_join_points = allocator.join_points[1:]\n        self.number_of_steps = len(closing_join_points)\n        self.tasks_per_join_point = allocator.tasks_per_joinpoint\n"),
    V("s5 keep: completion predicate spelled with >=", "keep", _D, _FIN_OLD, "        return self.current_step >= self.number_of_steps\n"),
    V("s5 break (seed C02-m15): worker assignments regrouped by host name before the workers are started", "break", _D, _WL_OLD,
      "        workers_per_host = {assignment[\"host\"]: assignment[\"workers\"] for assignment in worker_assignments}\n        worker_id = 0\n"
      "        for host, workers in workers_per_host.items():\n            for clients in workers:\n", "O2.10"),
    V("s5 break: one worker assignment per distinct host", "break", _D, _WL_OLD,
      "        worker_id = 0\n        for assignment in {a[\"host\"]: a for a in worker_assignments}.values():\n            host = assignment[\"host\"]\n            for clients in assignment[\"workers\"]:\n", "O2.10"),
    V("s5 break: workers with a single client are not started", "break", _D, "                if len(clients) > 0:\n", "                if len(clients) > 1:\n", "O2.10"),
    V("s5 break: only the workers of the first load driver host are started", "break", _D, _WL_OLD,
      "        worker_id = 0\n        for assignment in worker_assignments[:1]:\n            host = assignment[\"host\"]\n            for clients in assignment[\"workers\"]:\n", "O2.10"),
    V("s5 break: every worker is created on the first load driver host (more workers than cores there)", "break", _D, "            host = assignment[\"host\"]\n",
      "            host = worker_assignments[0][\"host\"]\n", "O2.10"),
    V("s5 break: the last client of every worker is left out", "break", _D, "                    for client_id in clients:\n", "                    for client_id in clients[:-1] or clients[:1]:\n", "O2.10"),
    V("s5 keep: worker assignments regrouped as a list of (host, workers) pairs", "keep", _D, _WL_OLD,
      "        workers_per_host = [(assignment[\"host\"], assignment[\"workers\"]) for assignment in worker_assignments]\n        worker_id = 0\n"
      "        for host, workers in workers_per_host:\n            for clients in workers:\n"),
    V("s5 keep: worker assignments regrouped in a dict keyed by the position in the host list", "keep", _D, _WL_OLD,
      "        workers_per_entry = {position: (assignment[\"host\"], assignment[\"workers\"]) for position, assignment in enumerate(worker_assignments)}\n        worker_id = 0\n"
      "        for host, workers in workers_per_entry.values():\n            for clients in workers:\n"),
]

# ---- round 6 (seed C02-m16): the allocation rows a started worker receives cover exactly the clients assigned to it (O2.10 all-ids, read through the row view's own reader; the
# ---- per-client statement is also held by O2.5 'each client gets its own matrix row') -----------------------------------------------------------------------------------------
_CL_HEAD = "                    client_allocations = ClientAllocations()\n                    worker_client_contexts = {}\n                    for client_id in clients:\n"
_CL_ADD = "                        client_allocations.add(client_id, self.allocations[client_id])\n"
_CL_CTX = "                        worker_client_contexts[client_id] = client_context\n"
_CL_PUB = "                        self.client_contexts[worker_id] = worker_client_contexts\n"

VARIANTS += [
    [V("s6 break (seed C02-m16): the allocation row is added behind the per-client loop (once per worker, for its last client)", "break", _D, _CL_HEAD + _CL_ADD, _CL_HEAD, "O2.10"),
     V("", "break", _D, _CL_CTX + _CL_PUB, _CL_CTX + _CL_ADD[4:] + _CL_PUB[4:])],
    V("s6 break: the row view of a worker is created anew for every client (only the last client's row is left)", "break", _D, _CL_HEAD + _CL_ADD,
      _CL_HEAD.replace("                    client_allocations = ClientAllocations()\n", "") + "                        client_allocations = ClientAllocations()\n" + _CL_ADD, "O2.10"),
    V("s6 break: allocation rows are only added for the first client of a worker", "break", _D, _CL_ADD,
      "                        if client_id == clients[0]:\n    " + _CL_ADD, "O2.10"),
    V("s6 keep: the client contexts of a worker are published once behind the per-client loop (loop invariant; the worker has at least one client)", "keep", _D,
      _CL_CTX + _CL_PUB, _CL_CTX + _CL_PUB[4:]),
    V("s6 keep: the allocation row is looked up before it is added", "keep", _D, _CL_ADD,
      "                        row = self.allocations[client_id]\n                        client_allocations.add(client_id, row)\n"),
]
