"""C02 — every task gets exactly its clients; clients are partitioned over workers (DESIGN.md section 4, C02)."""
from __future__ import annotations

import ast

from sa import source
from sa.cfg import cfg_of, guards, facts, holds
from sa.source import AnchorMissing, dotted, inline, inline_node, is_self_attr, last_attr, local_defs, params_of, short, u, walk_body
from sa.sym import atoms_of, comparison, parse_expr, rat_equal

_D = "esrally/driver/driver.py"
_T = "esrally/track/track.py"


def _builder(drv):
    for f in drv.functions():
        names = {last_attr(c.func) for c in source.calls_in(f)}
        if "JoinPoint" in names and "TaskAllocation" in names:
            return f
    raise AnchorMissing("matrix builder (function constructing both JoinPoint and TaskAllocation)")


def step_entry_agreement(chk, drv, rid):
    """O2.1 (also used by C11/O11.4): the builder's join-point emission and the per-step entry emission are controlled by the same conditions."""
    if rid not in chk.rules:
        chk.rule(rid, "steps are derived from the join points and indexed into the per-step task sets: join-point emission (builder) and entry emission (tasks_per_joinpoint) must be "
                 "controlled by the same conditions: one entry per non-initial join-point column, independent of whether the element was empty unless the builder skips empty elements too", 3,
                 "a schedule with an element left empty (by filters): fewer entries than steps -> IndexError in progress reporting / wrong task names")
    AL = drv.cls("Allocator")
    tp = drv.methods(AL).get("tasks_per_joinpoint")
    b = _builder(drv)
    if tp is None:
        raise AnchorMissing("Allocator.tasks_per_joinpoint")
    # accumulator: local assigned set()
    acc = None
    for n in walk_body(tp):
        if isinstance(n, ast.Assign) and isinstance(n.targets[0], ast.Name) and isinstance(n.value, ast.Call) and dotted(n.value.func) == "set" and not n.value.args:
            acc = n.targets[0].id
    if acc is None:
        raise AnchorMissing("accumulator set in tasks_per_joinpoint")
    apps = [n for n in walk_body(tp) if isinstance(n, ast.Call) and last_attr(n.func) == "append" and n.args and u(n.args[0]) == acc]
    if not apps:
        raise AnchorMissing("append of the accumulated task set in tasks_per_joinpoint")
    a = apps[0]
    loops = [x for x in source.ancestors(a) if isinstance(x, ast.For)]
    inner = loops[0] if loops else None
    outer = loops[-1] if loops else None
    idxvar = outer.target.id if outer is not None and isinstance(outer.target, ast.Name) else None
    clientvar = inner.target.id if inner is not None and inner is not outer and isinstance(inner.target, ast.Name) else None
    conds = {"isjp": False, "nonempty": False, "first_row": False, "not_initial": False, "unknown": []}
    for t, pol in guards(a):
        for at in (atoms_of(t) if pol else [t]):
            txt = u(at)
            if not pol:
                # in the else-arm of the TaskAllocation test: fine
                if "isinstance" in txt and "TaskAllocation" in txt:
                    continue
                conds["unknown"].append(f"not ({txt})")
                continue
            if "isinstance" in txt and "JoinPoint" in txt:
                conds["isjp"] = True
            elif txt in (f"len({acc}) > 0", acc, f"len({acc}) != 0", f"len({acc}) >= 1"):
                conds["nonempty"] = True
            elif clientvar and txt in (f"{clientvar} == 0", f"0 == {clientvar}"):
                conds["first_row"] = True
            elif idxvar and txt in (f"{idxvar} > 0", f"{idxvar} != 0", f"{idxvar} >= 1", f"0 < {idxvar}"):
                conds["not_initial"] = True
            else:
                # a comparison of the column index (or the row) with a constant is decided on values: it must mean exactly "not the initial column" (resp. "the first row")
                from sa import minieval as _me
                vec = None
                var = next((v_ for v_ in (idxvar, clientvar) if v_ and isinstance(at, ast.Compare) and {x.id for x in ast.walk(at) if isinstance(x, ast.Name)} == {v_}), None)
                if var:
                    try:
                        vec = [bool(_me.ev(at, {var: k})) for k in range(5)]
                    except _me.CannotEval:
                        vec = None
                if vec is not None and var == idxvar:
                    if vec == [False, True, True, True, True]:
                        conds["not_initial"] = True
                    else:
                        conds["wrong_idx"] = txt
                elif vec is not None and var == clientvar:
                    if vec == [True, False, False, False, False]:
                        conds["first_row"] = True
                    else:
                        conds["wrong_row"] = txt
                else:
                    conds["unknown"].append(txt)
    for k_, what in (("wrong_idx", "every join-point column except the initial one (column 0)"), ("wrong_row", "exactly one row (the first)")):
        if conds.get(k_):
            chk.ob(rid, f"an entry is emitted for {what}", False, a, f"`{conds[k_]}` selects other columns / rows: an element left empty at the start of the schedule gets no entry, entries are shifted against the steps",
                   key=f"esrally/driver/driver.py:Allocator.tasks_per_joinpoint:{k_}")
    if conds["unknown"]:
        chk.unknown(rid, f"entry emission in tasks_per_joinpoint is controlled by unrecognised condition(s) {conds['unknown']}", a)
        return
    chk.ob(rid, "an entry is emitted only at a join-point column", conds["isjp"], a, f"guards: {[(u(t), p) for t, p in guards(a)]}")
    # builder side: is the join-point broadcast inside the schedule loop conditional on the element being non-empty?
    sched_loops = [n for n in walk_body(b) if isinstance(n, ast.For) and is_self_attr(n.iter, "schedule")]
    if not sched_loops:
        raise AnchorMissing("schedule loop in the matrix builder")
    L = sched_loops[0]
    jp_assign = [n for n in ast.walk(L) if isinstance(n, ast.Assign) and isinstance(n.value, ast.Call) and last_attr(n.value.func) == "JoinPoint"]
    builder_cond = []
    if jp_assign:
        builder_cond = [(u(t), pol) for t, pol in guards(jp_assign[0], stop=L)]
    cont = [n for n in L.body if isinstance(n, ast.If) and any(isinstance(x, ast.Continue) for x in n.body)]
    builder_skips_empty = bool(builder_cond) or bool(cont)
    ok = conds["nonempty"] == builder_skips_empty
    chk.ob(rid, "join points and per-step entries are emitted under the same emptiness condition", ok, a,
           f"builder emits a join point per element {'only if non-empty' if builder_skips_empty else 'unconditionally'}; entries are emitted {'only for non-empty task sets' if conds['nonempty'] else 'for every join point'}"
           + ("" if ok else " -> number of steps (join points - 1) and number of entries disagree for a schedule with an empty element"),
           key=f"{_D}:Allocator.tasks_per_joinpoint:entry-vs-joinpoint")
    once = conds["nonempty"] or conds["first_row"] or (clientvar is None)
    chk.ob(rid, "one entry per join-point column (not one per client row)", once, a, "" if once else "entry appended for every client row of the join-point column")
    init_skip = conds["nonempty"] or conds["not_initial"]
    chk.ob(rid, "the initial join point yields no entry", init_skip, a, "" if init_skip else "an entry is emitted for the artificial first join point: entries are shifted by one step")
    resets = [n for n in walk_body(tp) if isinstance(n, ast.Assign) and isinstance(n.targets[0], ast.Name) and n.targets[0].id == acc and source.parent(n) is source.parent(source.enclosing_stmt(a))]
    chk.ob(rid, "accumulator reset after each entry", bool(resets), a, "")
    adds = [n for n in walk_body(tp) if isinstance(n, ast.Call) and u(n.func) == f"{acc}.add"]
    ok = bool(adds) and any(pol and "TaskAllocation" in u(t) for t, pol in guards(adds[0])) and u(adds[0].args[0]).endswith(".task")
    chk.ob(rid, "task allocations are collected into the current entry", ok, adds[0] if adds else tp, "")
    # steps derived from join points
    D = drv.cls("Driver")
    sb = drv.methods(D).get("start_benchmark")
    ok = sb is not None and any(isinstance(n, ast.Assign) and any(is_self_attr(t, "tasks_per_join_point") for t in n.targets) and u(n.value).endswith(".tasks_per_joinpoint") for n in walk_body(sb))
    chk.ob(rid, "driver takes its per-step entries from the allocator", ok, sb if sb is not None else D, "")
    up = drv.methods(D).get("update_progress_message")
    ok = up is not None and any(isinstance(n, ast.Subscript) and is_self_attr(n.value, "tasks_per_join_point") and is_self_attr(n.slice, "current_step") for n in walk_body(up))
    chk.ob(rid, "progress reporting indexes the entries by the current step", ok, up if up is not None else D, "")


def client_floor_rule(chk, rid, drv):
    """Allocator.clients == max(1, max client count over ALL schedule elements): the floor of one row must hold for a NON-empty schedule whose elements are all empty as well
    (`max(gen, default=1)` only covers the empty schedule) — shared with C11 (filters can empty every element)."""
    AL2 = drv.cls("Allocator")
    clf = drv.methods(AL2).get("clients")
    if clf is None:
        raise AnchorMissing("Allocator.clients")
    rets = [n for n in walk_body(clf) if isinstance(n, ast.Return) and n.value is not None]
    mx_ = [n for n in walk_body(clf) if isinstance(n, ast.Call) and dotted(n.func) == "max"]
    all_elems = floor = False
    detail = ""
    lp_ = [n for n in walk_body(clf) if isinstance(n, ast.For) and is_self_attr(n.iter, "schedule")]
    if lp_ and mx_ and len(rets) == 1 and isinstance(rets[0].value, ast.Name):
        acc = rets[0].value.id
        lv = lp_[0].target.id if isinstance(lp_[0].target, ast.Name) else None
        upd = [n for n in ast.walk(lp_[0]) if isinstance(n, ast.Assign) and u(n.targets[0]) == acc and isinstance(n.value, ast.Call) and dotted(n.value.func) == "max"]
        all_elems = len(upd) == 1 and not guards(upd[0], stop=lp_[0]) and not any(isinstance(x, (ast.Break, ast.Continue, ast.Return)) for x in ast.walk(lp_[0])) \
            and {u(a) for a in upd[0].value.args} == {acc, f"{lv}.clients"}
        inits = [n for n in clf.body if isinstance(n, ast.Assign) and u(n.targets[0]) == acc and isinstance(n.value, ast.Constant) and isinstance(n.value.value, int)]
        floor = len(inits) == 1 and inits[0].value.value >= 1 and clf.body.index(inits[0]) < clf.body.index(lp_[0])
        detail = f"loop form: {acc} starts at {u(inits[0].value) if inits else '?'}"
    elif len(rets) == 1 and isinstance(rets[0].value, ast.Call) and dotted(rets[0].value.func) == "max":
        outer = rets[0].value
        consts = [a for a in outer.args if isinstance(a, ast.Constant) and isinstance(a.value, int) and a.value >= 1]
        inner = [a for a in outer.args if not isinstance(a, ast.Constant)]
        floor = bool(consts) and len(outer.args) >= 2
        all_elems = any("self.schedule" in u(a) and ".clients" in u(a) and not any(isinstance(x, ast.comprehension) and x.ifs for x in ast.walk(a)) and "[" not in u(a).replace("[]", "") for a in (inner or outer.args))
        detail = f"expression form: {short(outer, 70)}" + ("" if floor else " — `default=` only applies to an EMPTY schedule; a schedule whose elements are all empty yields 0 rows")
    chk.ob(rid, "row count == max client count over all schedule elements", all_elems, clf, detail, key="esrally/driver/driver.py:Allocator.clients:max-over-all")
    chk.ob(rid, "row count is at least 1 for every schedule (also a non-empty one whose elements are all empty)", floor, clf, detail, key="esrally/driver/driver.py:Allocator.clients:floor")


def allocation_totals(chk, rid, drv):
    """TaskAllocation(... global_client_index=i, total_clients=<element>.clients) in the allocation builder: the values the ramp-up slot of a client is computed from
    (shared with C05)."""
    b = _builder(drv)
    L = [n for n in walk_body(b) if isinstance(n, ast.For) and is_self_attr(n.iter, "schedule")][0]
    elem = L.target.id
    tac = [n for n in ast.walk(L) if isinstance(n, ast.Call) and last_attr(n.func) == "TaskAllocation"]
    if not tac:
        raise AnchorMissing("TaskAllocation(...) in the allocation builder")
    ta_init = drv.methods(drv.cls("TaskAllocation"))["__init__"]
    bd = source.bind_args(tac[0], ta_init)
    cl = source.enclosing(tac[0], ast.For)
    i = cl.target.id if cl is not None and isinstance(cl.target, ast.Name) else None
    chk.ob(rid, "allocation: total clients == the schedule element's client count", u(bd.get("total_clients")) == f"{elem}.clients", tac[0], f"total_clients={u(bd.get('total_clients'))}",
           key="esrally/driver/driver.py:Allocator.allocations:total-clients")
    chk.ob(rid, "allocation: global client index == the element-wide client index", i is not None and u(bd.get("global_client_index")) == i, tac[0], f"global_client_index={u(bd.get('global_client_index'))}",
           key="esrally/driver/driver.py:Allocator.allocations:global-index")
    # task-local index == i - s where s is the element-wide index of the sub-task's first client (advanced by the sub-task's client count): contiguous 0..k-1 per sub-task,
    # which is what the partitioning of co-located clients relies on (a modulo hands out a rotated range)
    cit = bd.get("client_index_in_task")
    ok = False
    if isinstance(cit, ast.BinOp) and isinstance(cit.op, ast.Sub) and i is not None and u(cit.left) == i and isinstance(cit.right, ast.Name):
        sv = cit.right.id
        sub_loop = source.enclosing(cl, ast.For)
        adv = [n for n in ast.walk(L) if isinstance(n, ast.AugAssign) and isinstance(n.op, ast.Add) and u(n.target) == sv]
        ok = len(adv) == 1 and sub_loop is not None and isinstance(sub_loop.target, ast.Name) and u(adv[0].value) == f"{sub_loop.target.id}.clients" \
            and any(isinstance(n, ast.Assign) and u(n.targets[0]) == sv and source.is_const(n.value, 0) for n in L.body)
    chk.ob(rid, "allocation: task-local client index == element-wide index minus the index of the sub-task's first client", ok, tac[0], f"client_index_in_task={u(cit) if cit is not None else None}",
           key="esrally/driver/driver.py:Allocator.allocations:task-local-index")


def joinpoint_lists_reset(chk, rid, drv):
    """The two client lists handed to a schedule element's closing JoinPoint (clients of the completing task / of `any` tasks) are fresh empty lists per element:
    a list created outside the per-element loop makes every later join point inherit an earlier element's completing clients (shared with C01)."""
    b = _builder(drv)
    L = [n for n in walk_body(b) if isinstance(n, ast.For) and is_self_attr(n.iter, "schedule")][0]
    jpc = [n for n in ast.walk(L) if isinstance(n, ast.Call) and last_attr(n.func) == "JoinPoint"]
    if not jpc or len(jpc[0].args) < 3:
        raise AnchorMissing("JoinPoint(id, completing clients, any-completing clients) in the per-element loop of the allocation builder")
    inner = [n for n in L.body if isinstance(n, ast.For)]
    for a in jpc[0].args[1:3]:
        lst = u(a)
        ini = [n for n in L.body if isinstance(n, ast.Assign) and u(n.targets[0]) == lst and isinstance(n.value, ast.List) and not n.value.elts]
        ok = len(ini) == 1 and bool(inner) and L.body.index(ini[0]) < L.body.index(inner[0])
        chk.ob(rid, f"join-point client list `{lst}` starts empty for each schedule element", ok, ini[0] if ini else L,
               "" if ok else "not re-created inside the per-element loop: later join points inherit the completing clients of an earlier element",
               key=f"esrally/driver/driver.py:Allocator.allocations:fresh-list:{jpc[0].args[1:3].index(a)}")


def _ev_num(expr, env):
    """sa.minieval.ev plus what minieval lacks for bound arithmetic: min()/max() of SEVERAL arguments and math.ceil / math.floor. The calls are reduced
    innermost-first to constants (their arguments are evaluated by minieval), the rest of the expression is evaluated by minieval. CannotEval propagates."""
    import math

    from sa import minieval as me

    class R(ast.NodeTransformer):
        def visit_Call(self, n):
            self.generic_visit(n)
            d = dotted(n.func)
            if d in ("min", "max") and len(n.args) >= 2 and not n.keywords and not any(isinstance(a, ast.Starred) for a in n.args):
                vals = [me.ev(a, env) for a in n.args]
                if all(isinstance(v, (int, float)) and not isinstance(v, bool) for v in vals):
                    return ast.copy_location(ast.Constant(value=(min if d == "min" else max)(vals)), n)
            if d in ("math.ceil", "math.floor", "ceil", "floor") and len(n.args) == 1 and not n.keywords:
                v = me.ev(n.args[0], env)
                if isinstance(v, (int, float)) and not isinstance(v, bool):
                    return ast.copy_location(ast.Constant(value=(math.ceil if d.endswith("ceil") else math.floor)(v)), n)
            return n

    return me.ev(R().visit(source.clone(expr)), env)


# representative (element's client count e, row count R) pairs: the row count is the maximum over all elements (O2.7), so only e <= R occurs; e >= 1 inside the client loop
_ER_PAIRS = [(e, r) for r in range(1, 6) for e in range(1, r + 1)]


def _bound_values(bound, defs, rows_texts, elem):
    """Value of a wrap bound (a modulus / divisor in the per-element loop of the matrix builder) for every representative (e, R): single-assignment locals are inlined, every
    sub-expression that IS the row count (by data flow) stands for R, `<element>.clients` for e. -> (inlined text, [(e, R, value)]); CannotEval when it reads anything else."""
    from sa import minieval as me

    class S(ast.NodeTransformer):
        def visit(self, n):
            if isinstance(n, ast.expr) and u(n) in rows_texts:
                return ast.Name(id="__rows__", ctx=ast.Load())
            return self.generic_visit(n)

    # as written (`len(<matrix>)`) and again after inlining (`max_clients` -> `self.clients`)
    tree = S().visit(inline_node(S().visit(source.clone(bound)), defs))
    out = []
    for e, r in _ER_PAIRS:
        v = _ev_num(tree, {"__rows__": r, elem: me.Record(clients=e)})
        if isinstance(v, bool) or not isinstance(v, (int, float)):
            raise me.CannotEval(f"{u(bound)}: not a number")
        out.append((e, r, v))
    return u(inline_node(bound, defs)), out


def _is_element_count(bound, defs, rows_texts, elem) -> bool:
    """the bound is, for every representative (e, R), the element's own client count (which never exceeds the row count)"""
    from sa import minieval as me

    try:
        return all(v == e for e, _, v in _bound_values(bound, defs, rows_texts, elem)[1])
    except me.CannotEval:
        return False


def run(chk):
    repo = chk.repo
    drv, trk = repo.module(_D), repo.module(_T)
    chk.use(drv, trk)
    chk.explanation = (
        "Decides the allocation arithmetic by shape: join-point / entry agreement; matrix rows addressed modulo the row count (the same modulus for tasks and padding) and, decided on "
        "representative (element clients, row count) values, whether that modulus and the padding bound are the element's own client count (O2.8, client cap of a parallel element); per-task "
        "client ranges telescope (range(s, s+n), s += n, task-local index i - s); worker partition tiles 0..n-1 contiguously (range(c, c+k), c += k), per-host share = "
        "min(ceil(n/hosts), remaining) with remaining decreased by the same amount, round-robin per core; worker ids are list positions; a parallel element's client count is "
        "computed on demand from its current sub-tasks."
    )
    chk.not_decided = "rectangularity of the matrix for all shapes (None-padding arithmetic), the per-host ceil split summing to the total for all inputs (guarded by a run-time assert), balance across hosts."
    step_entry_agreement(chk, drv, "O2.1")
    b = _builder(drv)
    g = cfg_of(b)
    defs = local_defs(b)

    matrix, rowcount = None, None
    for n in walk_body(b):
        if isinstance(n, ast.Assign) and isinstance(n.value, ast.BinOp) and isinstance(n.value.op, ast.Mult) and isinstance(n.value.left, ast.List) and isinstance(n.targets[0], ast.Name):
            matrix, rowcount = n.targets[0].id, n.value.right
    if matrix is None:
        raise AnchorMissing("matrix allocation in the builder")
    rc_text = inline(rowcount, defs)
    L = [n for n in walk_body(b) if isinstance(n, ast.For) and is_self_attr(n.iter, "schedule")][0]
    elem = L.target.id

    # ---- O2.2 row index reduced -------------------------------------------------------------------------------------------------------
    chk.rule("O2.2", "every row subscript of the matrix inside the per-client loop is `<client index> % <row count>` (or `% <the element's own client count>`, which never exceeds the "
             "row count: see O2.8), and the None padding wraps at the same modulus", 3,
             "over-committed parallel element inside a schedule with a wider element: rows addressed modulo the wrong count -> ragged matrix / IndexError")
    rows_texts = {rc_text, f"len({matrix})"}
    row_mods = []  # (append to a matrix row inside the client loops, the `i % m` its row index is defined as or None)
    ta_apps = []
    for n in ast.walk(L):
        if isinstance(n, ast.Call) and last_attr(n.func) == "append" and isinstance(n.func, ast.Attribute) and isinstance(n.func.value, ast.Subscript) and u(n.func.value.value) == matrix:
            ta_apps.append(n)
    ldefs = {}
    for n in ast.walk(L):
        if isinstance(n, ast.Assign) and len(n.targets) == 1 and isinstance(n.targets[0], ast.Name):
            ldefs.setdefault(n.targets[0].id, []).append(n.value)
    n_checked = 0
    for a in ta_apps:
        idx = a.func.value.slice
        argv = a.args[0]
        loop = source.enclosing(a, ast.For)
        if loop is L or loop is None:
            continue
        if isinstance(loop.iter, ast.Call) and last_attr(loop.iter.func) == "range" and len(loop.iter.args) in (1, 2) and inline(loop.iter.args[-1], defs) == rc_text \
                and isinstance(idx, ast.Name) and isinstance(loop.target, ast.Name) and idx.id == loop.target.id:
            # index is a loop variable bounded above by the row count (join-point broadcast / None padding)
            continue
        n_checked += 1
        d = ldefs.get(idx.id, [None])[0] if isinstance(idx, ast.Name) else idx
        is_mod = isinstance(d, ast.BinOp) and isinstance(d.op, ast.Mod)
        # in range either way: reduced modulo the row count itself, or modulo a bound decided (on values) to be the element's own client count, which is at most the row count
        ok = is_mod and (inline(d.right, defs) == rc_text or _is_element_count(d.right, defs, rows_texts, elem))
        row_mods.append((a, d if is_mod else None, d))
        chk.ob("O2.2", f"row subscript of `{short(a, 50)}`", ok, a, f"index `{u(idx)}` = `{u(d) if d is not None else '?'}`; row count = {rc_text}"
               + ("" if ok else " — not reduced modulo the row count (nor modulo the element's own client count)"))
    chk.ob("O2.2", "row subscripts located", n_checked >= 1, L, f"{n_checked} non-broadcast row subscript(s)")
    mods = [n for n in ast.walk(L) if isinstance(n, ast.BinOp) and isinstance(n.op, ast.Mod)]
    ok = bool(mods) and all(inline(m.right, defs) == rc_text for m in mods)
    if not ok and mods and row_mods and all(d is not None for _, d, _ in row_mods):
        # rows that wrap at the element's own client count: every other modulus of the loop (the padding) must then be that same bound
        sub_ = {inline(d.right, defs) for _, d, _ in row_mods}
        ok = len(sub_) == 1 and all(_is_element_count(d.right, defs, rows_texts, elem) for _, d, _ in row_mods) and all(inline(m.right, defs) in sub_ for m in mods)
    chk.ob("O2.2", "all moduli in the schedule loop are the row count", ok, mods[0] if mods else L, f"{sorted({u(m.right) for m in mods})}")

    # ---- O2.3 per-task tiling ----------------------------------------------------------------------------------------------------------------
    chk.rule("O2.3", "for each sub-task the client loop is range(s, s + <sub-task>.clients) and s is advanced by the same <sub-task>.clients after the loop; task-local index == i - s; "
             "global index == i; total clients == <element>.clients; s starts at 0 for each element", 6,
             "parallel element with two tasks: a client index of the second task is used twice or never")
    subloops = [n for n in ast.walk(L) if isinstance(n, ast.For) and n is not L and u(n.iter) == elem]
    if not subloops:
        raise AnchorMissing("loop over the sub-tasks of a schedule element")
    SL = subloops[0]
    sub = SL.target.id
    cl = [n for n in SL.body if isinstance(n, ast.For) and isinstance(n.iter, ast.Call) and last_attr(n.iter.func) == "range" and len(n.iter.args) == 2]
    if not cl:
        raise AnchorMissing("client loop range(s, s + n) in the sub-task loop")
    CL = cl[0]
    s0, s1 = CL.iter.args
    svar = u(s0)
    ok = isinstance(s0, ast.Name) and rat_equal(s1, parse_expr(f"{svar} + {sub}.clients"))
    chk.ob("O2.3", "client loop == range(s, s + sub_task.clients)", ok, CL, u(CL.iter))
    adv = [n for n in SL.body if isinstance(n, ast.AugAssign) and u(n.target) == svar]
    ok = len(adv) == 1 and isinstance(adv[0].op, ast.Add) and u(adv[0].value) == f"{sub}.clients" and SL.body.index(adv[0]) > SL.body.index(CL)
    chk.ob("O2.3", "s += sub_task.clients after the client loop (same count)", ok, adv[0] if adv else SL, short(adv[0], 50) if adv else "")
    inits = [n for n in L.body if isinstance(n, ast.Assign) and u(n.targets[0]) == svar and source.is_const(n.value, 0)]
    ok = len(inits) == 1 and L.body.index(inits[0]) < L.body.index(SL)
    chk.ob("O2.3", "s starts at 0 for each schedule element", ok, inits[0] if inits else L, "")
    tac = [n for n in ast.walk(CL) if isinstance(n, ast.Call) and last_attr(n.func) == "TaskAllocation"]
    if not tac:
        raise AnchorMissing("TaskAllocation(...) in the client loop")
    ta_init = drv.methods(drv.cls("TaskAllocation"))["__init__"]
    bd = source.bind_args(tac[0], ta_init)
    i = CL.target.id
    chk.ob("O2.3", "task := the sub-task", u(bd.get("task")) == sub, tac[0], "")
    chk.ob("O2.3", "task-local client index == i - s", bd.get("client_index_in_task") is not None and rat_equal(bd["client_index_in_task"], parse_expr(f"{i} - {svar}")), tac[0], u(bd.get("client_index_in_task")))
    chk.ob("O2.3", "global client index == i", u(bd.get("global_client_index")) == i, tac[0], "")
    chk.ob("O2.3", "total clients == the element's client count", u(bd.get("total_clients")) == f"{elem}.clients", tac[0], "")
    from rules.C05 import partition_call_rule

    partition_call_rule(chk, "O2.3", drv)
    other_s = [n for n in ast.walk(SL) if isinstance(n, (ast.Assign, ast.AugAssign)) and u(n.targets[0] if isinstance(n, ast.Assign) else n.target) == svar and n not in adv]
    chk.ob("O2.3", "s not written elsewhere inside the sub-task loop", not other_s, other_s[0] if other_s else SL, "")

    # ---- O2.7 completing clients / widest element ----------------------------------------------------------------------------------------------------
    chk.rule("O2.7", "the clients recorded on a join point as executing the completing task (or an `any` task) are the PHYSICAL row indices of exactly those sub-tasks; the row count is the "
             "maximum client count over all schedule elements (at least 1)", 4,
             "completed-by waits for the wrong clients (over-committed element), or the matrix has fewer rows than the widest element")
    rec = []
    for n in ast.walk(CL):
        if isinstance(n, ast.Call) and last_attr(n.func) == "append" and isinstance(n.func, ast.Attribute) and isinstance(n.func.value, ast.Name) and n.func.value.id != matrix and n.args:
            rec.append(n)
    jpc = [n for n in ast.walk(L) if isinstance(n, ast.Call) and last_attr(n.func) == "JoinPoint"]
    jpa = [u(a) for a in jpc[0].args[1:3]] if jpc else []
    physd = None
    for n in ast.walk(CL):
        if isinstance(n, ast.Assign) and isinstance(n.value, ast.BinOp) and isinstance(n.value.op, ast.Mod) and isinstance(n.targets[0], ast.Name):
            physd = n.targets[0].id
    flags = {}
    for r_ in rec:
        gs_ = guards(r_, stop=CL)
        flag = [u(t) for t, pol in gs_ if pol]
        flags[u(r_.func.value)] = (flag, u(r_.args[0]))
    ok = len(jpa) == 2 and jpa[0] in flags and jpa[1] in flags and flags[jpa[0]][0] == [f"{sub}.completes_parent"] and f"{sub}.any_completes_parent" in flags[jpa[1]][0] \
        and flags[jpa[0]][1] == physd and flags[jpa[1]][1] == physd
    chk.ob("O2.7", "completing / any-completing clients recorded by physical index under the sub-task's own flag", ok, rec[0] if rec else CL, f"{flags}")
    joinpoint_lists_reset(chk, "O2.7", drv)
    client_floor_rule(chk, "O2.7", drv)

    # ---- O2.4 worker partition tiles ---------------------------------------------------------------------------------------------------------------------
    chk.rule("O2.4", "worker assignment: client ids come from range(c, c + k) with c += k (same k) afterwards, c starts at 0 and is written nowhere else; per-host share == "
             "min(ceil(n / hosts), remaining) and remaining -= that share; worker slots per host == its core count; per-host split is round-robin count[i % slots] += 1", 8,
             "client ids lost/duplicated or ids >= n handed out (e.g. 5 clients on 4 hosts), more than one worker per core, uneven worker loads")
    wa = drv.func("calculate_worker_assignments")
    hosts_p, count_p = params_of(wa)
    wdefs = local_defs(wa)
    ids = [n for n in walk_body(wa) if isinstance(n, ast.For) and isinstance(n.iter, ast.Call) and last_attr(n.iter.func) == "range" and len(n.iter.args) == 2
           and any(isinstance(x, ast.Call) and last_attr(x.func) == "append" and u(x.args[0]) == (n.target.id if isinstance(n.target, ast.Name) else "") for x in ast.walk(n))]
    if not ids:
        raise AnchorMissing("id loop range(c, c + k) in calculate_worker_assignments")
    IL = ids[0]
    c0, c1 = IL.iter.args
    cvar = u(c0)
    kexpr = None
    if isinstance(c1, ast.BinOp) and isinstance(c1.op, ast.Add):
        kexpr = u(c1.right) if u(c1.left) == cvar else (u(c1.left) if u(c1.right) == cvar else None)
    chk.ob("O2.4", "ids from range(c, c + k)", kexpr is not None, IL, u(IL.iter))
    par = source.parent(IL)
    sibs = par.body if hasattr(par, "body") else []
    adv = [n for n in sibs if isinstance(n, ast.AugAssign) and u(n.target) == cvar]
    ok = len(adv) == 1 and isinstance(adv[0].op, ast.Add) and u(adv[0].value) == kexpr and sibs.index(adv[0]) > sibs.index(IL)
    chk.ob("O2.4", "c += k after the id loop (same k)", ok, adv[0] if adv else IL, "")
    cw = [n for n in walk_body(wa) if isinstance(n, (ast.Assign, ast.AugAssign)) and u(n.targets[0] if isinstance(n, ast.Assign) else n.target) == cvar]
    ok = len(cw) == 2 and any(isinstance(n, ast.Assign) and source.is_const(n.value, 0) and source.parent(n) is wa for n in cw)
    chk.ob("O2.4", "c starts at 0, no other writer", ok, cw[0] if cw else wa, f"{len(cw)} writer(s)")
    ok = not guards(IL, stop=source.enclosing(IL, ast.For)) and len(IL.body) == 1
    chk.ob("O2.4", "every id in the range is assigned (no filter)", ok, IL, "")
    # k iterates the per-worker counts
    kl = source.enclosing(IL, ast.For)
    ok = kl is not None and isinstance(kl.target, ast.Name) and kl.target.id == kexpr
    cpw = u(kl.iter) if kl is not None else None
    chk.ob("O2.4", "k ranges over the per-worker client counts", ok, kl if kl is not None else IL, f"for {kexpr} in {cpw}")
    # round robin
    rr = [n for n in walk_body(wa) if isinstance(n, ast.AugAssign) and isinstance(n.target, ast.Subscript) and u(n.target.value) == cpw]
    ok = False
    slots = None
    if rr:
        sl = rr[0].target.slice
        lp = source.enclosing(rr[0], ast.For)
        ok = isinstance(sl, ast.BinOp) and isinstance(sl.op, ast.Mod) and isinstance(lp.target, ast.Name) and u(sl.left) == lp.target.id and source.is_const(rr[0].value, 1) and isinstance(rr[0].op, ast.Add) \
            and isinstance(lp.iter, ast.Call) and last_attr(lp.iter.func) == "range" and len(lp.iter.args) == 1 and not guards(rr[0], stop=lp)
        slots = u(sl.right) if ok else None
        share = u(lp.iter.args[0]) if ok else None
    chk.ob("O2.4", "round-robin: count[i % slots] += 1 for i in range(share)", ok, rr[0] if rr else wa, "")
    hl = [n for n in walk_body(wa) if isinstance(n, ast.For) and u(n.iter) == hosts_p]
    hdefs = {}
    if hl:
        for n in ast.walk(hl[0]):
            if isinstance(n, ast.Assign) and len(n.targets) == 1 and isinstance(n.targets[0], ast.Name):
                hdefs[n.targets[0].id] = n.value
    if slots:
        sd = hdefs.get(slots)
        ok = sd is not None and isinstance(sd, ast.Subscript) and source.is_const(sd.slice, "cores") and u(sd.value) == (hl[0].target.id if hl else "")
        chk.ob("O2.4", "worker slots per host == the host's core count", ok, sd if sd is not None else wa, u(sd) if sd is not None else "")
        cd = hdefs.get(cpw)
        ok = cd is not None and isinstance(cd, ast.BinOp) and isinstance(cd.op, ast.Mult) and u(cd.right) == slots and isinstance(cd.left, ast.List) and source.is_const(cd.left.elts[0], 0)
        chk.ob("O2.4", "one counter per worker slot", ok, cd if cd is not None else wa, "")
        shd = hdefs.get(share)
        ok = False
        rem = None
        if isinstance(shd, ast.Call) and dotted(shd.func) == "min" and len(shd.args) == 2:
            a0, a1 = shd.args
            per = [x for x in (a0, a1) if isinstance(x, ast.Name) and x.id in wdefs and isinstance(wdefs[x.id], ast.Call) and dotted(wdefs[x.id].func) == "math.ceil"]
            remc = [x for x in (a0, a1) if x not in per]
            if len(per) == 1 and len(remc) == 1 and isinstance(remc[0], ast.Name):
                ce = wdefs[per[0].id].args[0]
                ok = rat_equal(inline_node(ce, wdefs), parse_expr(f"{count_p} / len({hosts_p})"))
                rem = remc[0].id
        chk.ob("O2.4", "per-host share == min(ceil(n / hosts), remaining)", ok, shd if shd is not None else wa, u(shd) if shd is not None else "no min(...)")
        if rem:
            dec = [n for n in ast.walk(hl[0]) if isinstance(n, ast.AugAssign) and u(n.target) == rem]
            ok = len(dec) == 1 and isinstance(dec[0].op, ast.Sub) and u(dec[0].value) == share
            chk.ob("O2.4", "remaining -= share (the same amount that was assigned)", ok, dec[0] if dec else wa, "")
            ri = [n for n in walk_body(wa) if isinstance(n, ast.Assign) and u(n.targets[0]) == rem]
            ok = len(ri) == 1 and u(ri[0].value) == count_p
            chk.ob("O2.4", "remaining starts at the client count", ok, ri[0] if ri else wa, "")

    # ---- O2.5 worker ids are positions -------------------------------------------------------------------------------------------------------------------
    chk.rule("O2.5", "the counter passed as worker id is incremented exactly on the paths that append to the worker list (ids == list positions); each client is recorded under that worker id", 3,
             "a host with more cores than clients: worker ids skip, the driver addresses the wrong arrival entry")
    D = drv.cls("Driver")
    sb = drv.methods(D)["start_benchmark"]
    apps = [n for n in walk_body(sb) if isinstance(n, ast.Call) and u(n.func) == "self.workers.append"]
    incs = [n for n in walk_body(sb) if isinstance(n, ast.AugAssign) and isinstance(n.target, ast.Name) and source.is_const(n.value, 1)]
    ok = len(apps) == 1 and len(incs) == 1 and source.parent(source.enclosing_stmt(apps[0])) is source.parent(incs[0])
    wid = incs[0].target.id if incs else None
    chk.ob("O2.5", "worker id += 1 in the same block as workers.append", ok, incs[0] if incs else sb, "")
    wi = [n for n in walk_body(sb) if isinstance(n, ast.Assign) and u(n.targets[0]) == wid]
    chk.ob("O2.5", "worker id starts at 0", len(wi) == 1 and source.is_const(wi[0].value, 0), wi[0] if wi else sb, "")
    cc = [n for n in walk_body(sb) if isinstance(n, ast.Call) and last_attr(n.func) == "create_client"]
    chk.ob("O2.5", "the counter is the id given to the created worker", bool(cc) and u(cc[0].args[-1]) == wid, cc[0] if cc else sb, "")
    cpw_ = [n for n in walk_body(sb) if isinstance(n, ast.Assign) and isinstance(n.targets[0], ast.Subscript) and is_self_attr(n.targets[0].value, "clients_per_worker")]
    chk.ob("O2.5", "clients_per_worker[client] := this worker id", bool(cpw_) and u(cpw_[0].value) == wid, cpw_[0] if cpw_ else sb, "")
    al = [n for n in walk_body(sb) if isinstance(n, ast.Call) and last_attr(n.func) == "add" and "client_allocations" in u(n.func)]
    ok = bool(al) and len(al[0].args) == 2 and isinstance(al[0].args[1], ast.Subscript) and u(al[0].args[1].slice) == u(al[0].args[0])
    chk.ob("O2.5", "each client gets its own matrix row", ok, al[0] if al else sb, "")

    # ---- O2.6 parallel client count --------------------------------------------------------------------------------------------------------------------
    chk.rule("O2.6", "a parallel element's client count is the explicit value when not None, else the sum over its CURRENT sub-tasks (computed on demand, not cached at construction)", 2,
             "filters remove sub-tasks of an uncapped parallel element: stale client count creates clients without tasks")
    PA = trk.cls("Parallel")
    pc = trk.methods(PA).get("clients")
    ok = False
    detail = ""
    if pc is not None:
        rets = [n for n in walk_body(pc) if isinstance(n, ast.Return)]
        expl = [r for r in rets if is_self_attr(r.value) and holds(r, f"{u(r.value)} is not None")]
        reads_tasks = any(is_self_attr(n, "tasks") for n in walk_body(pc))
        sums = [n for n in walk_body(pc) if (isinstance(n, ast.AugAssign) and u(n.value).endswith(".clients")) or (isinstance(n, ast.Call) and dotted(n.func) == "sum")]
        ok = bool(expl) and reads_tasks and bool(sums)
        detail = f"explicit-return={bool(expl)} reads self.tasks={reads_tasks} sums={bool(sums)}"
    chk.ob("O2.6", "Parallel.clients == explicit value or sum over current sub-tasks", ok, pc if pc is not None else PA, detail)
    pinit = trk.methods(PA).get("__init__")
    cached = [n for n in walk_body(pinit) if isinstance(n, (ast.Assign, ast.AugAssign)) and any(isinstance(x, ast.Attribute) and x.attr == "clients" and not is_self_attr(x) for x in ast.walk(n.value))]
    chk.ob("O2.6", "no client sum cached at construction", not cached, cached[0] if cached else pinit, "")
    # the explicit value is the one given at construction: no method of the class (or anything else in the package) rewrites it
    expl_attr = u(expl[0].value).split(".", 1)[1] if pc is not None and expl else None
    if expl_attr:
        wr = []
        for m_ in repo.all_modules():
            for n in ast.walk(m_.tree):
                tg = n.targets if isinstance(n, ast.Assign) else ([n.target] if isinstance(n, (ast.AugAssign, ast.AnnAssign)) else [])
                for t in tg:
                    for x in ast.walk(t):
                        if isinstance(x, ast.Attribute) and x.attr == expl_attr and isinstance(x.ctx, ast.Store):
                            wr.append((m_, n))
        bad = [(m_, n) for m_, n in wr if not (source.enclosing_func(n) is pinit)]
        chk.ob("O2.6", f"the explicit client count (`{expl_attr}`) is written only at construction", bool(wr) and not bad, bad[0][1] if bad else pinit,
               "" if not bad else f"rewritten in {bad[0][0].relpath}:{source.qualname(bad[0][1])}: `{short(bad[0][1], 60)}`", key=f"esrally/track/track.py:Parallel:{expl_attr}:writers")

    # ---- O2.8 an element occupies only its own clients (F45) -----------------------------------------------------------------------------------------
    chk.rule("O2.8", "a schedule element occupies exactly the clients it requests: the matrix row of an element-wide client index is that index modulo the ELEMENT's own client count "
             "(<element>.clients, at most the row count) and the None padding completes rounds of that same count; wrapping at the schedule-wide row count only honours the client "
             "cap of a parallel element that happens to be the widest element of the schedule", 2,
             "a parallel element that caps its clients (`clients: N` below the sum of its sub-tasks' clients) next to a wider schedule element: its sub-tasks are spread over up to "
             "<row count> clients and run concurrently instead of in rounds of N (more load than requested; total_clients / ramp-up still computed from N)")
    from sa import minieval as _me

    def _first_other(vals):
        # a witness (e, R, value) with value != e; the capped pair of the item (2 clients next to a 4-client element) is shown when it is one
        return next(((e_, r_, v_) for e_, r_, v_ in sorted(vals, key=lambda t: (t[:2] != (2, 4),)) if v_ != e_), None)

    if not row_mods:
        raise AnchorMissing("row subscript of the task allocations in the client loop of the matrix builder")
    for k_, (a, d, raw) in enumerate(row_mods):
        key_ = f"{_D}:Allocator.allocations:element-modulus" + ("" if k_ == 0 else f":{k_}")
        if d is None:
            if isinstance(raw, ast.Name) and raw.id == i:
                # the logical (element-wide) index itself: the element is spread over as many rows as its sub-tasks have clients in total
                chk.ob("O2.8", "the row of a client wraps at the element's own client count", False, a, f"row index `{u(a.func.value.slice)}` is the unreduced element-wide client index `{i}`", key=key_)
            else:
                chk.unknown("O2.8", f"row index `{u(a.func.value.slice)}` = `{u(raw) if raw is not None else '?'}` is not of the form `<client index> % <bound>`", a)
            continue
        try:
            txt, vals = _bound_values(d.right, defs, rows_texts, elem)
        except _me.CannotEval as x:
            chk.unknown("O2.8", f"modulus `{u(d.right)}` of the row subscript is not an expression over the row count and `{elem}.clients` ({x})", d)
            continue
        w = _first_other(vals)
        chk.ob("O2.8", "the row of a client wraps at the element's own client count", w is None, d,
               f"modulus `{u(d.right)}` = {txt}" + ("" if w is None else f": an element with {w[0]} client(s) in a schedule whose widest element has {w[1]} wraps at {w[2]}, "
                                                    f"i.e. is spread over up to {w[2]} clients instead of {w[0]}"), key=key_)
    # every other wrap / round computation on the element's client indices (modulus, divisor) inside the per-element loop: the None padding
    taken = {id(d) for _, d, _ in row_mods if d is not None}
    idx_names = {svar, i}
    bounds = [n for n in ast.walk(L) if isinstance(n, ast.BinOp) and isinstance(n.op, (ast.Mod, ast.Div, ast.FloorDiv)) and id(n) not in taken
              and idx_names & {x.id for x in ast.walk(inline_node(n.left, defs)) if isinstance(x, ast.Name)}]
    wrong, undecided = [], []
    for n in bounds:
        try:
            txt, vals = _bound_values(n.right, defs, rows_texts, elem)
        except _me.CannotEval as x:
            undecided.append((n, str(x)))
            continue
        w = _first_other(vals)
        if w is not None:
            wrong.append((n, txt, w))
    if undecided:
        chk.unknown("O2.8", f"padding bound `{u(undecided[0][0])}` is not an expression over the row count and `{elem}.clients` ({undecided[0][1]})", undecided[0][0])
    if wrong or not undecided:
        chk.ob("O2.8", "the None padding completes rounds of the element's own client count", not wrong, wrong[0][0] if wrong else (bounds[0] if bounds else L),
               (f"{len(bounds)} wrap bound(s) on the element's client total outside the row subscript: {sorted({u(n) for n in bounds})}" if not wrong else
                f"`{u(wrong[0][0])}` wraps at {wrong[0][1]}: for an element with {wrong[0][2][0]} client(s) in a schedule whose widest element has {wrong[0][2][1]} the bound is "
                f"{wrong[0][2][2]}; {len(wrong)} of {len(bounds)} bound(s) differ from the element's client count"),
               key=f"{_D}:Allocator.allocations:element-padding-bound")


from sa.selftest import V  # noqa: E402

VARIANTS = [
    V("F2: entries skip empty elements", "break", _D, "                elif isinstance(allocation, JoinPoint) and client == 0 and idx > 0:", "                elif isinstance(allocation, JoinPoint) and len(current_tasks) > 0:", "O2.1"),
    V("entry per client row", "break", _D, "                elif isinstance(allocation, JoinPoint) and client == 0 and idx > 0:", "                elif isinstance(allocation, JoinPoint) and idx > 0:", "O2.1"),
    V("entry for the initial join point", "break", _D, "                elif isinstance(allocation, JoinPoint) and client == 0 and idx > 0:", "                elif isinstance(allocation, JoinPoint) and client == 0:", "O2.1"),
    V("drop % max_clients", "break", _D, "                    physical_client_index = client_index % max_clients", "                    physical_client_index = client_index", "O2.2"),
    V("seed m1: wrap at the element's clients", "break", _D, "                    physical_client_index = client_index % max_clients", "                    physical_client_index = client_index % task.clients", "O2.2"),
    V("offset advanced by the element's clients", "break", _D, "                start_client_index += sub_task.clients", "                start_client_index += task.clients", "O2.3"),
    V("task-local index is the global one", "break", _D, "                        client_index_in_task=client_index - start_client_index,", "                        client_index_in_task=client_index,", "O2.3"),
    V("client_idx += 1", "break", _D, "            client_idx += client_count_for_worker", "            client_idx += 1", "O2.4"),
    V("seed m2: last host takes the remainder", "break", _D, "        clients_on_this_host = min(clients_per_host, remaining_clients)", "        clients_on_this_host = clients_per_host if host_config is not host_configs[-1] else remaining_clients", "O2.4"),
    V("floor instead of ceil", "break", _D, "    clients_per_host = math.ceil(client_count / host_count)", "    clients_per_host = math.floor(client_count / host_count)", "O2.4"),
    V("worker id incremented outside the guard", "break", _D, "                    self.workers.append(worker)\n                    worker_id += 1", "                    self.workers.append(worker)\n                worker_id += 1", "O2.5"),
    V("seed m3: parallel client sum cached", "break", _T, "        if self._clients is not None:\n            return self._clients\n        else:\n            num_clients = 0\n            for task in self.tasks:\n                num_clients += task.clients\n            return num_clients",
      "        return self._clients", "O2.6"),
    V("completing clients recorded by logical index", "break", _D, "                        clients_executing_completing_task.append(physical_client_index)", "                        clients_executing_completing_task.append(client_index)", "O2.7"),
    V("row count from the first element", "break", _D, "        for task in self.schedule:\n            max_clients = max(max_clients, task.clients)\n        return max_clients", "        for task in self.schedule[:1]:\n            max_clients = max(max_clients, task.clients)\n        return max_clients", "O2.7"),
    # preserving
    V("physical index via helper local", "keep", _D, "                    physical_client_index = client_index % max_clients", "                    rows = max_clients\n                    physical_client_index = client_index % rows"),
    V("entries emitted after the client loop", "keep", _D,
      "                if isinstance(allocation, TaskAllocation):\n                    current_tasks.add(allocation.task)\n                elif isinstance(allocation, JoinPoint) and client == 0 and idx > 0:\n                    # one entry per join point (except for the initial one), also if the schedule element before it is empty\n                    tasks.append(current_tasks)\n                    current_tasks = set()\n",
      "                if isinstance(allocation, TaskAllocation):\n                    current_tasks.add(allocation.task)\n            if isinstance(allocs[0][idx], JoinPoint) and idx > 0:\n                tasks.append(current_tasks)\n                current_tasks = set()\n"),
    V("sum() in Parallel.clients", "keep", _T, "            num_clients = 0\n            for task in self.tasks:\n                num_clients += task.clients\n            return num_clients", "            return sum(task.clients for task in self.tasks)"),
]
