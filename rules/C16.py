"""C16 — retryable operations retry exactly as configured (DESIGN.md section 4, C16).

The retry wrapper is decided END TO END on representative values: the statements of Retry.__call__ (and of every helper method / module function it calls, with arguments bound to
parameters) are abstractly interpreted for a representative parameter dict and constructor flag up to the attempt loop (`world`), then ONE iteration of the loop body is interpreted for
one outcome of the delegate (an exception class placed in the REAL, parsed library hierarchy, or a representative result) — `attempt`. No role is read off a name: which local carries
which setting, how the last attempt is recognised, where the result is tested and which helper does it are all irrelevant, only the values that reach the loop bound, the tests, the
sleep and the return count. Nothing of the repository is executed: `minieval.ev` evaluates the extracted expressions, the small interpreter below only sequences statements.

Hardening round 3: the settings may live in an OBJECT of another class of the module that the call builds itself (dataclass / NamedTuple with the generated constructor - fields bound in
declaration order, declared defaults, __post_init__ -, a class with its own __init__, collections.namedtuple, SimpleNamespace, TypedDict), built directly or by a class / static method
(alternative constructor) or module function; its methods, coroutine methods and properties are followed like helpers of the wrapper. The attempt's exception may be classified by
`isinstance` (in one broad handler or a helper) instead of by except clauses: decided in the same parsed library hierarchy. Registered runners are classified by what they ARE (instance of
the wrapper class or a subclass, through an alias or a factory function) instead of by the spelling `Retry(...)`.

Hardening round 4: WHAT the attempt loop runs over is a value computed at the loop, not the spelling `range(...)`: a range, itertools.count() (no end), enumerate of those, chosen in the loop
header, into a local before the loop, by a conditional expression or by a helper; the target may be a tuple. Where the attempt numbers have no end in sight the call is bounded all the same
if at some attempt every outcome class ends it (the last-attempt test alone enforces the bound): that attempt is searched among the first _SEARCH ones on the same evaluated iterations.
A `while` loop that keeps its own count is evaluated by REPLAYING the earlier iterations (with outcomes that are retried) before the one that is judged, so the counter - wherever it is
advanced, whichever way it counts - is part of the evaluation. (Not decided for these two shapes: a cap beyond the first _SEARCH attempts.) O16.6 follows super().params() and gives a verdict
"does not forward" only when every key of the returned mapping is visible.

Strengthening round 5 (O16.7): "as configured" includes what applies when the task configures NOTHING. The documentation states the defaults (section **Retries**) and, in an operation's own
section, where that operation departs from them (get-async-search waits until success unless retry-until-success is set to false). What applies at run time is decided by how the wrapper is
BUILT where the operation is registered: the constructor arguments of the registration (through an alias / functools.partial / a factory function / the super().__init__ chain of a subclass)
are bound to the constructor's parameters and the wrapper's code is evaluated, with these settings, on a task without retry parameters."""
from __future__ import annotations

import ast
import itertools
import operator
import re
import sys

from sa import source
from sa.classes import ClassTable, decorator_names, is_logging_stmt
from sa.exc import Hierarchy, handler_type_names
from sa.minieval import CannotEval, Record, ev as mev
from sa.source import AnchorMissing, FUNC_TYPES, dotted, last_attr, local_defs, params_of, short, u, walk_body

_R = "esrally/driver/runner.py"

# outcome classes of one attempt: (label, raised class, status code or None, retryable as timeout/connection error?)
RAISED = [
    ("socket timeout", "socket.timeout", None, True),
    ("connection error", "elasticsearch.ConnectionError", None, True),
    ("TLS error (a connection error)", "elasticsearch.SSLError", None, True),
    ("connection timeout", "elasticsearch.ConnectionTimeout", None, True),
    ("HTTP 408", "elasticsearch.ApiError", 408, True),
    ("HTTP 404 (NotFoundError)", "elasticsearch.NotFoundError", 404, False),
    ("HTTP 400", "elasticsearch.BadRequestError", 400, False),
    ("HTTP 500 (generic ApiError)", "elasticsearch.ApiError", 500, False),
    ("serialization error (other transport error)", "elasticsearch.SerializationError", None, False),
    ("sniffing error (other transport error)", "elastic_transport.SniffingError", None, False),
    ("generic transport error", "elasticsearch.TransportError", None, False),
    ("KeyError (not a transport error)", "KeyError", None, False),
]

_SEARCH = 8  # attempts among which a bound that only the last-attempt test enforces is searched (the representative parameter sets ask for at most 6 attempts)

RETRY_KEYS = {"retries", "retry-until-success", "retry-wait-period", "retry-on-timeout", "retry-on-error"}


# ------------------------------------------------------------------------------------------------------------------------------------------------------
# a small statement sequencer over minieval (local helper; a candidate for sa/): straight-line code, if, try/except/else/finally, return, raise, helper calls

class Unrecognised(Exception):
    """a construct was located but its shape is none of the recognised ones: reported as 'not recognised', never as a verdict"""


class _Signal(Exception):
    pass


class _Return(_Signal):
    def __init__(self, value):
        self.value = value


class _Jump(_Signal):
    def __init__(self, kind):
        self.kind = kind


class _StopAt(_Signal):
    """the anchor statement (the attempt loop) was reached; env is the frame it lives in"""

    def __init__(self, env):
        self.env = env


class _Raised(_Signal):
    """an exception propagates: cls is the dotted library class of the attempt's outcome (None: an exception the analysed code created itself, `node` is the raise)"""

    def __init__(self, cls, rec, node=None):
        self.cls, self.rec, self.node = cls, rec, node


class _Self(Record):
    """the wrapper instance: fields are the attributes its constructor sets from its parameters"""


class _Coro:
    """the value of calling an async function: nothing happens until it is awaited"""

    def __init__(self, thunk):
        self.thunk = thunk


class _Cls:
    """a class of the analysed module used as a value: the `cls` of a classmethod, a constructor"""

    def __init__(self, ci):
        self.ci = ci


class _Obj(Record):
    """an instance of a class of the analysed module that the analysed code builds itself (a settings object: dataclass, NamedTuple, class with __init__): fields are what its
    constructor stores, whatever they are called"""

    def __init__(self, ci, **fields):
        super().__init__(**fields)
        self.ci, self.frozen, self.is_tuple = ci, False, False


class _Count:
    """the value of itertools.count(start, step): attempt numbers without end"""

    def __init__(self, start=0, step=1):
        self.start, self.step = start, step


class _Enum:
    """the value of enumerate(<attempt numbers>, start)"""

    def __init__(self, seq, start=0):
        self.seq, self.start = seq, start


class _Seq:
    """what an attempt loop `for <target> in <iterable>` runs over, as a value: n elements (None: without end), at(i) the element of iteration index i"""

    def __init__(self, n, at):
        self.n, self.at = n, at


def _as_seq(v):
    if isinstance(v, range):
        n = max(0, (v.stop - v.start + v.step - 1) // v.step) if v.step > 0 else max(0, (v.start - v.stop - v.step - 1) // -v.step)  # (len() overflows beyond sys.maxsize)
        return _Seq(n, lambda i: v.start + i * v.step)
    if isinstance(v, _Count):
        return _Seq(None, lambda i: v.start + i * v.step)
    if isinstance(v, (list, tuple)):
        return _Seq(len(v), lambda i: v[i])
    if isinstance(v, _Enum):
        inner = _as_seq(v.seq)
        return _Seq(inner.n, lambda i: (v.start + i, inner.at(i)))
    raise CannotEval(f"the attempt loop runs over a {type(v).__name__}: neither a range, nor a counter, nor a literal sequence")


def _is_int(v):
    return isinstance(v, int) and not isinstance(v, bool)


_OPAQUE = object()
_DATACLASS = ("dataclass", "dataclasses.dataclass")
_PROPERTY = ("property", "cached_property", "functools.cached_property")
_FACTORIES = {"dict": dict, "list": list, "set": set, "tuple": tuple}
_AUG = {ast.Add: operator.add, ast.Sub: operator.sub, ast.Mult: operator.mul}
_DICT_METHODS = ("pop", "setdefault", "update", "clear", "copy", "popitem")
# the logging configuration is an ENVIRONMENT INPUT of the wrapper (logging.json is user-editable; an embedding without Rally's set-up runs at Python's default WARNING): a query of the
# logger's level has more than one possible answer, and the property must hold under each. Everything is evaluated at the stock level first and - where a query was consulted - again at the others.
_LOG_LEVELS = {"NOTSET": 0, "DEBUG": 10, "INFO": 20, "WARNING": 30, "WARN": 30, "ERROR": 40, "CRITICAL": 50, "FATAL": 50}
_LOG_STOCK = 20  # Rally's stock configuration: INFO
_LOG_OTHER = (10, 30, 60)  # everything enabled / Python's default / nothing enabled


def _plain(v, depth=0):
    """a comparable rendering of a representative value (objects the call built by their fields)"""
    if isinstance(v, Record) and depth < 4:
        return (type(v).__name__, tuple(sorted((k, _plain(x, depth + 1)) for k, x in v.fields.items())))
    if isinstance(v, dict) and depth < 4:
        return ("dict", tuple(sorted((repr(k), _plain(x, depth + 1)) for k, x in v.items())))
    if isinstance(v, (list, tuple)) and depth < 4:
        return (type(v).__name__, tuple(_plain(x, depth + 1) for x in v))
    if v is None or isinstance(v, (bool, int, float, str, range)):
        return repr(v)
    return type(v).__name__


class Interp:
    def __init__(self, rn, tab, ci, H, delegate_attrs):
        self.rn, self.tab, self.ci, self.H = rn, tab, ci, H
        self.delegate_attrs = set(delegate_attrs)
        self.modfuncs = {n.name: n for n in rn.tree.body if isinstance(n, FUNC_TYPES)}
        self.modclasses = {c.name: c for c in tab.classes if any(c.node is x for x in rn.tree.body)}
        self.globals = {}
        for nm, tgt in rn.imports.items():
            if tgt == "sys":
                self.globals[nm] = Record(maxsize=sys.maxsize)
            elif tgt == "sys.maxsize":
                self.globals[nm] = sys.maxsize
        self.event = None
        self.stop_node = None
        self.force = None  # (try node, handler): select this handler whatever is raised (dead-arm tables)
        self.depth = 0
        self._n = 0
        self._hnames = {}
        self.unknown_classes = []
        self._raw = None
        self.log_level = _LOG_STOCK  # the answer of the environment for this evaluation
        self.log_queries = []  # the level queries consulted since the caller cleared the list
        self._logger_attrs = None
        self._root = None
        self.reset()

    def reset(self):
        self.ncalls, self.sleeps, self.effects, self.selected, self.exc_stack = 0, [], [], None, []

    # -- expressions ---------------------------------------------------------------------------------------------------------------------------
    def bind(self, env, value):
        self._n += 1
        nm = f"__h{self._n}"
        env[nm] = value
        return ast.Name(id=nm, ctx=ast.Load())

    def full_name(self, f, env):
        d = dotted(f)
        if not d:
            return None
        head, _, rest = d.partition(".")
        if head in env:
            return None
        base = self.rn.imports.get(head, head)
        return base + ("." + rest if rest else "")

    def xev(self, e, env):
        """value of an extracted expression on the representative values in env; calls of helper methods / module functions are followed (arguments bound to parameters),
        `await` runs the awaited helper / the delegate / the sleep. CannotEval: not decidable here (the caller reports 'not recognised')."""
        try:
            return mev(e, env)
        except CannotEval:
            pass
        prev, self._root = self._root, e
        try:
            return self._xev(e, env)
        finally:
            self._root = prev

    def asked(self, n):
        """record a query of the logging configuration (n: node of the working copy of the expression under evaluation) by its node in the analysed tree"""
        t = u(n)
        orig = next((x for x in ast.walk(self._root) if type(x) is type(n) and getattr(x, "lineno", None) is not None and u(x) == t), n) if self._root is not None else n
        self.log_queries.append(orig)

    def _xev(self, e, env):
        interp = self

        class Sub(ast.NodeTransformer):
            def visit_Call(self, n):
                self.generic_visit(n)
                r = interp.call(n, env)
                return n if r is None else interp.bind(env, r[0])

            def visit_Attribute(self, n):
                self.generic_visit(n)
                r = interp.attribute(n, env) if isinstance(n.ctx, ast.Load) else None
                return n if r is None else interp.bind(env, r[0])

            def visit_Await(self, n):
                self.generic_visit(n)
                v = n.value
                if isinstance(v, ast.Name) and v.id.startswith("__h") and isinstance(env.get(v.id), _Coro):
                    return interp.bind(env, env[v.id].thunk())
                return n

        c = Sub().visit(source.clone(e))
        ast.fix_missing_locations(c)
        return mev(c, env)

    def is_logger(self, e, env):
        """does this expression denote a logger: logging.getLogger(...), the logging module / its root logger, a name or attribute of the wrapper bound to logging.getLogger(...) (in a constructor of
        the MRO, at class or module level), or - as for logging statements - a name that says so"""
        def get_logger(x):
            return isinstance(x, ast.Call) and (self.full_name(x.func, {}) or "") in ("logging.getLogger", "logging.getLoggerClass")
        if get_logger(e):
            return True
        d = dotted(e) or ""
        if d and self.rn.imports.get(d.split(".")[0]) == "logging" and d.split(".")[0] not in env and d.count(".") <= 1:
            return d.count(".") == 0 or d.endswith(".root")
        if isinstance(e, ast.Name) and e.id not in env:
            return get_logger(self.rn.module_constant(e.id)) or "log" in e.id.lower()
        if isinstance(e, ast.Attribute) and isinstance(e.value, ast.Name) and isinstance(env.get(e.value.id), (_Self, _Cls)):
            if self._logger_attrs is None:
                self._logger_attrs = set()
                for c in self.tab.mro(self.ci):
                    for n in ast.walk(c.node):
                        if isinstance(n, ast.Assign) and get_logger(n.value):
                            self._logger_attrs |= {t.attr if isinstance(t, ast.Attribute) else t.id for t in n.targets if isinstance(t, (ast.Attribute, ast.Name))}
            return e.attr in self._logger_attrs or "logger" in e.attr.lower()
        if isinstance(e, ast.Name):
            return "logger" in e.id.lower() and not isinstance(env.get(e.id), (Record, dict, list, tuple, int, float, str))
        return False

    def level_of(self, e, env):
        d = dotted(e) or ""
        if d.count(".") == 1 and self.rn.imports.get(d.split(".")[0]) == "logging" and d.split(".")[1] in _LOG_LEVELS:
            return _LOG_LEVELS[d.split(".")[1]]
        if isinstance(e, ast.Name) and e.id not in env and self.rn.imports.get(e.id, "").startswith("logging.") and self.rn.imports[e.id].split(".")[1] in _LOG_LEVELS:
            return _LOG_LEVELS[self.rn.imports[e.id].split(".")[1]]
        v = mev(e, env)
        if not _is_int(v):
            raise CannotEval(f"logging level {u(e)[:30]}")
        return v

    def _attempt(self):
        self.ncalls += 1
        if self.event is None:
            raise CannotEval("the delegate is called outside an attempt")
        if self.event[0] == "raise":
            raise _Raised(self.event[1], self.event[2])
        return self.event[1]

    def call(self, n, env):
        """(value,) of a call the sequencer interprets itself, None for everything else (left to minieval)"""
        f = n.func
        try:
            if isinstance(f, ast.Attribute) and f.attr in ("isEnabledFor", "getEffectiveLevel") and not n.keywords and self.is_logger(f.value, env):
                # a query of the logging configuration: answered by the level this evaluation runs under (the caller evaluates under every level once a query was consulted)
                if f.attr == "isEnabledFor" and len(n.args) == 1:
                    lvl = self.level_of(n.args[0], env)
                    self.asked(n)
                    return (lvl >= self.log_level,)
                if f.attr == "getEffectiveLevel" and not n.args:
                    self.asked(n)
                    return (self.log_level,)
                return None
            if isinstance(f, ast.Attribute) and isinstance(f.value, ast.Name) and isinstance(env.get(f.value.id), _Self):
                if f.attr in self.delegate_attrs:
                    return (_Coro(self._attempt),)
                m = self.tab.method(self.ci, f.attr)
                return None if m is None else (self.invoke(m, n, env, env[f.value.id]),)
            if isinstance(f, ast.Attribute) and isinstance(f.value, ast.Name) and f.value.id == self.ci.name and f.value.id not in env:
                m = self.tab.method(self.ci, f.attr)
                if m is not None:
                    return (self.invoke(m, n, env, None if "classmethod" not in decorator_names(m) else next((v for v in env.values() if isinstance(v, _Self)), None)),)
            if isinstance(f, ast.Attribute):
                # a method of an object the analysed code built itself (settings object), a class / static method of another class of the module (alternative constructor)
                recv = self.peek(f.value, env)
                if isinstance(recv, _Obj):
                    m = self.tab.method(recv.ci, f.attr) if recv.ci is not None else None
                    if m is not None and not set(decorator_names(m)) & set(_PROPERTY):
                        return (self.invoke(m, n, env, None if "staticmethod" in decorator_names(m) else (_Cls(recv.ci) if "classmethod" in decorator_names(m) else recv)),)
                    return None
                kls = recv.ci if isinstance(recv, _Cls) else self.class_named(f.value, env)
                if kls is not None:
                    m = self.tab.method(kls, f.attr)
                    if m is not None:
                        return (self.invoke(m, n, env, _Cls(kls) if "classmethod" in decorator_names(m) else None),)
            if isinstance(f, ast.Name):
                kls = env[f.id].ci if isinstance(env.get(f.id), _Cls) else self.class_named(f, env)
                if kls is not None:
                    return (self.construct(kls, n, env),)
                nt = self.rn.module_constant(f.id) if f.id not in env and f.id not in self.rn.imports else None
                if isinstance(nt, ast.Call) and last_attr(nt.func) == "namedtuple" and len(nt.args) == 2 and all(k.arg == "defaults" for k in nt.keywords):
                    return (self.construct_namedtuple(nt, n, env),)
            if (self.full_name(f, env) or "").split(".")[-1] == "SimpleNamespace" and not n.args and all(k.arg for k in n.keywords):
                return (_Obj(None, **{k.arg: mev(k.value, env) for k in n.keywords}),)
            if isinstance(f, ast.Name) and f.id not in env:
                if f.id in self.modfuncs:
                    return (self.invoke(self.modfuncs[f.id], n, env, None),)
                if f.id == "dict" and len(n.args) <= 1 and all(k.arg for k in n.keywords):
                    base = mev(n.args[0], env) if n.args else {}
                    if isinstance(base, dict):
                        return ({**base, **{k.arg: mev(k.value, env) for k in n.keywords}},)
                if f.id == "range" and 1 <= len(n.args) <= 3 and not n.keywords:
                    # the attempt numbers as a VALUE: the loop may run over a local / a helper result / a conditional expression that was chosen earlier
                    args = [mev(a, env) for a in n.args]
                    if all(_is_int(a) for a in args) and not (len(args) == 3 and args[2] == 0):
                        return (range(*args),)
                    raise CannotEval(f"range arguments {args}")
                if f.id == "enumerate" and 1 <= len(n.args) <= 2 and all(k.arg == "start" for k in n.keywords) and len(n.args) + len(n.keywords) <= 2:
                    vals = [mev(a, env) for a in n.args] + [mev(k.value, env) for k in n.keywords]
                    if isinstance(vals[0], (range, _Count, list, tuple)) and all(_is_int(a) for a in vals[1:]):
                        return (_Enum(*vals),)
                    raise CannotEval(f"enumerate over {type(vals[0]).__name__}")
                if f.id == "getattr" and len(n.args) in (2, 3) and not n.keywords:
                    obj, name = mev(n.args[0], env), mev(n.args[1], env)
                    if isinstance(obj, Record) and isinstance(name, str):
                        if name in obj.fields:
                            return (obj.fields[name],)
                        if len(n.args) == 3:
                            return (mev(n.args[2], env),)
                if f.id == "isinstance" and len(n.args) == 2 and (dotted(n.args[1]) or "").split(".")[-1] in ("Mapping", "MutableMapping"):
                    return (isinstance(mev(n.args[0], env), dict),)
                if f.id == "isinstance" and len(n.args) == 2 and not n.keywords:
                    # the exception of this attempt tested against library classes (classification by isinstance in one broad handler / in a helper instead of by except clauses):
                    # decided in the same parsed hierarchy that selects the except clause
                    obj = self.peek(n.args[0], env)
                    cur = next((r for r in self.exc_stack if obj is not None and r.rec is obj and r.cls is not None), None)
                    if cur is not None:
                        t = n.args[1]
                        if isinstance(t, ast.Name) and t.id not in self.rn.imports and t.id not in env:
                            t = self.rn.module_constant(t.id) or t
                        names = handler_type_names(ast.ExceptHandler(type=t, name=None, body=[]), module=self.rn)
                        unknown = [nm for nm in names if not self.H.known(nm)]
                        if unknown:
                            raise CannotEval(f"isinstance against {unknown[0]}, which is not in the parsed library hierarchy")
                        return (self.H.catches(names, cur.cls),)
            if self.full_name(f, env) == "itertools.count" and len(n.args) + len(n.keywords) <= 2 and all(k.arg in ("start", "step") for k in n.keywords):
                got = dict(zip(("start", "step"), [mev(a, env) for a in n.args]))
                if any(k.arg in got for k in n.keywords):
                    raise CannotEval("itertools.count(): argument given twice")
                got.update({k.arg: mev(k.value, env) for k in n.keywords})
                if all(_is_int(a) for a in got.values()) and got.get("step", 1) != 0:
                    return (_Count(**got),)
                raise CannotEval(f"itertools.count arguments {got}")
            if self.full_name(f, env) == "asyncio.sleep":
                vals = [mev(a, env) for a in n.args] + [mev(k.value, env) for k in n.keywords]
                return (_Coro(lambda: self.sleeps.append((vals, n))),)
            if isinstance(f, ast.Attribute) and f.attr in _DICT_METHODS and not n.keywords:
                recv = mev(f.value, env)
                if isinstance(recv, dict):
                    args = [mev(a, env) for a in n.args]
                    try:
                        return (getattr(recv, f.attr)(*args),)
                    except (KeyError, TypeError, ValueError) as x:
                        raise CannotEval(f"{u(n)[:60]}: {type(x).__name__}")
        except CannotEval:
            return None
        return None

    def peek(self, e, env):
        """the value of a receiver expression if it is computable without following calls, else None"""
        if isinstance(e, ast.Name):
            return env.get(e.id)
        try:
            return mev(e, env)
        except CannotEval:
            return None

    def class_named(self, e, env):
        """the top-level class of the analysed module that a bare name denotes (None: bound locally, or no such class)"""
        if isinstance(e, ast.Name) and e.id not in env and e.id not in self.rn.imports:
            return self.modclasses.get(e.id)
        return None

    def raw_body(self, c):
        """the class body as written: the parse-time normalisation turns `x: T = v` into `x = v`, but only ANNOTATED class attributes are fields of a dataclass / NamedTuple"""
        if self._raw is None:
            self._raw = {(n.name, n.lineno): n for n in ast.walk(ast.parse(c.module.text)) if isinstance(n, ast.ClassDef)}
        raw = self._raw.get((c.node.name, c.node.lineno))
        if raw is None:
            raise CannotEval(f"class {c.name} not found in the unnormalised source")
        return raw.body

    def data_fields(self, kls):
        """[(field, default expr | None, init?)] of a dataclass / NamedTuple in definition order (base classes first), None for any other class"""
        out, is_data = {}, False
        for c in reversed(self.tab.mro(kls)):
            decos = [d for d in c.node.decorator_list if (dotted(d.func if isinstance(d, ast.Call) else d) or "") in _DATACLASS]
            if not decos and "NamedTuple" not in c.base_names:
                continue
            is_data = True
            for st in self.raw_body(c):
                if isinstance(st, ast.AnnAssign) and isinstance(st.target, ast.Name):
                    ann = u(st.annotation)
                    if "ClassVar" in ann:
                        continue
                    if "InitVar" in ann:
                        raise CannotEval(f"InitVar field {st.target.id}")
                    out[st.target.id] = st.value
        return list(out.items()) if is_data else None

    def is_frozen(self, kls):
        for c in self.tab.mro(kls):
            if "NamedTuple" in c.base_names:
                return True
            for d in c.node.decorator_list:
                if isinstance(d, ast.Call) and (dotted(d.func) or "") in _DATACLASS and any(k.arg == "frozen" and isinstance(k.value, ast.Constant) and k.value.value is True for k in d.keywords):
                    return True
        return False

    def construct_namedtuple(self, nt, n, env):
        """the value of `T(...)` for a module-level `T = namedtuple("T", <literal field names>[, defaults=...])`"""
        names = mev(nt.args[1], {})
        names = names.replace(",", " ").split() if isinstance(names, str) else list(names)
        dflt = list(mev(nt.keywords[0].value, dict(self.globals))) if nt.keywords else []
        if any(isinstance(x, ast.Starred) for x in n.args) or any(k.arg is None for k in n.keywords) or len(n.args) > len(names) or len(dflt) > len(names):
            raise CannotEval("star arguments")
        given = {nm: mev(x, env) for nm, x in zip(names, n.args)}
        for k in n.keywords:
            if k.arg in given or k.arg not in names:
                raise CannotEval(f"keyword {k.arg}")
            given[k.arg] = mev(k.value, env)
        for nm, d in zip(names[len(names) - len(dflt):], dflt):
            given.setdefault(nm, d)
        if any(nm not in given for nm in names):
            raise CannotEval("namedtuple field without a value")
        obj = _Obj(None, **{nm: given[nm] for nm in names})
        obj.frozen = obj.is_tuple = True
        return obj

    def construct(self, kls, n, env):
        """the object that `Class(...)` builds: its own __init__ interpreted on a fresh object, or the generated constructor of a dataclass / NamedTuple (arguments bound to the declared
        fields in definition order, declared defaults for the rest, then __post_init__)"""
        if any("TypedDict" in c.base_names for c in self.tab.mro(kls)):
            if n.args or any(k.arg is None for k in n.keywords):
                raise CannotEval("TypedDict built from something else than keywords")
            return {k.arg: mev(k.value, env) for k in n.keywords}
        obj = _Obj(kls)
        init = self.tab.method(kls, "__init__")
        if init is not None:
            if isinstance(init, ast.AsyncFunctionDef):
                raise CannotEval("async __init__")
            self.invoke(init, n, env, obj)
            obj.frozen = self.is_frozen(kls)
            return obj
        spec = self.data_fields(kls)
        if spec is None:
            raise CannotEval(f"constructor of {kls.name}")
        if any(isinstance(x, ast.Starred) for x in n.args) or any(k.arg is None for k in n.keywords):
            raise CannotEval("star arguments")
        params, later = [], {}
        for name, d in spec:
            if isinstance(d, ast.Call) and (dotted(d.func) or "").split(".")[-1] == "field":
                kw = {k.arg: k.value for k in d.keywords}
                if "default" in kw:
                    d = kw["default"]
                elif "default_factory" in kw:
                    fac = kw["default_factory"]
                    d = ("factory", fac)
                else:
                    d = None
                if "init" in kw and not (isinstance(kw["init"], ast.Constant) and kw["init"].value is True):
                    later[name] = d
                    continue
            params.append((name, d))
        if len(n.args) > len(params):
            raise CannotEval(f"too many arguments for {kls.name}(...)")
        given = {name: mev(x, env) for (name, _), x in zip(params, n.args)}
        for k in n.keywords:
            if k.arg in given or k.arg not in [p for p, _ in params]:
                raise CannotEval(f"keyword {k.arg} of {kls.name}(...)")
            given[k.arg] = mev(k.value, env)

        def default(name, d):
            if d is None:
                raise CannotEval(f"{kls.name}(...) without a value for {name}")
            if isinstance(d, tuple):
                fac = d[1]
                if isinstance(fac, ast.Name) and fac.id in _FACTORIES:
                    return _FACTORIES[fac.id]()
                if isinstance(fac, ast.Lambda) and not fac.args.args:
                    return mev(fac.body, dict(self.globals))
                raise CannotEval(f"default factory of {name}")
            return mev(d, dict(self.globals))

        for name, d in params:
            obj.fields[name] = given[name] if name in given else default(name, d)
        for name, d in later.items():
            if d is not None:
                obj.fields[name] = default(name, d)
        post = self.tab.method(kls, "__post_init__")
        if post is not None:
            self.invoke(post, ast.Call(func=n.func, args=[], keywords=[]), env, obj)
        obj.frozen = self.is_frozen(kls)
        obj.is_tuple = any("NamedTuple" in c.base_names for c in self.tab.mro(kls))
        return obj

    def attribute(self, n, env):
        """(value,) of an attribute read that is not a stored field: a property of the wrapper / of a settings object (interpreted), a class-level attribute with a computable value"""
        if n.attr in _LOG_LEVELS and isinstance(n.value, ast.Name) and n.value.id not in env and self.rn.imports.get(n.value.id) == "logging":
            return (_LOG_LEVELS[n.attr],)
        if n.attr == "level" and self.is_logger(n.value, env) and not isinstance(self.peek(n.value, env), (Record, dict)):
            self.asked(n)
            return (self.log_level,)
        recv = self.peek(n.value, env)
        if isinstance(recv, Record) and n.attr in recv.fields:
            return None
        kls = recv.ci if isinstance(recv, (_Obj, _Cls)) else (self.ci if isinstance(recv, _Self) else None)
        if kls is None:
            return None
        try:
            m = self.tab.method(kls, n.attr)
            if m is not None:
                if isinstance(recv, _Cls) or not set(decorator_names(m)) & set(_PROPERTY):
                    return None
                return (self.invoke(m, ast.Call(func=n, args=[], keywords=[]), env, recv),)
            for c in self.tab.mro(kls):
                for st in c.node.body:
                    tgt = st.targets[0] if isinstance(st, ast.Assign) and len(st.targets) == 1 else (st.target if isinstance(st, ast.AnnAssign) and st.value is not None else None)
                    if isinstance(tgt, ast.Name) and tgt.id == n.attr:
                        return (mev(st.value, dict(self.globals)),)
        except CannotEval:
            return None
        return None

    def invoke(self, func, n, env, bound):
        """interpret a helper: arguments of the call bound to its parameters (defaults for the rest)"""
        if self.depth >= 5:
            raise CannotEval("helper nesting")
        a = func.args
        pos = [x.arg for x in a.posonlyargs + a.args]
        frame = dict(self.globals)
        if bound is not None and "staticmethod" not in decorator_names(func) and pos:
            frame[pos[0]] = bound
            pos = pos[1:]
        if any(isinstance(x, ast.Starred) for x in n.args) or any(k.arg is None for k in n.keywords) or len(n.args) > len(pos):
            raise CannotEval("star arguments")
        for p, x in zip(pos, n.args):
            frame[p] = mev(x, env)
        kwonly = [x.arg for x in a.kwonlyargs]
        for k in n.keywords:
            if k.arg not in pos and k.arg not in kwonly:
                raise CannotEval(f"keyword {k.arg}")
            frame[k.arg] = mev(k.value, env)
        allpos = a.posonlyargs + a.args
        for p, d in zip(allpos[len(allpos) - len(a.defaults):], a.defaults):
            if p.arg not in frame:
                frame[p.arg] = mev(d, dict(self.globals))
        for p, d in zip(a.kwonlyargs, a.kw_defaults):
            if d is not None and p.arg not in frame:
                frame[p.arg] = mev(d, dict(self.globals))
        if any(p not in frame for p in pos + kwonly):
            raise CannotEval("unbound parameter")

        def thunk():
            self.depth += 1
            try:
                self.exec_block(func.body, frame)
                return None
            except _Return as r:
                return r.value
            finally:
                self.depth -= 1

        return _Coro(thunk) if isinstance(func, ast.AsyncFunctionDef) else thunk()

    # -- statements ----------------------------------------------------------------------------------------------------------------------------
    def assign(self, t, v, env):
        if isinstance(t, ast.Name):
            env[t.id] = v
        elif isinstance(t, (ast.Tuple, ast.List)):
            if isinstance(v, _Obj) and v.is_tuple:
                v = tuple(v.fields.values())  # a named tuple unpacks in field order
            if not isinstance(v, (tuple, list)) or len(v) != len(t.elts) or any(isinstance(x, ast.Starred) for x in t.elts):
                raise CannotEval(f"unpacking into {u(t)[:40]}")
            for x, y in zip(t.elts, v):
                self.assign(x, y, env)
        elif isinstance(t, ast.Attribute) and isinstance(t.value, ast.Name) and isinstance(env.get(t.value.id), _Self):
            env[t.value.id].fields[t.attr] = v  # a store on the wrapper (judged by its own obligation): later reads in this call see it
            self.effects.append(t)
        elif isinstance(t, ast.Attribute) and isinstance(self.peek(t.value, env), _Obj):
            obj = self.peek(t.value, env)
            if obj.frozen:
                raise CannotEval(f"store on a frozen instance: {u(t)[:40]}")
            obj.fields[t.attr] = v  # an object the call built itself: local state of this call
        elif isinstance(t, ast.Subscript):
            box = mev(t.value, env)
            if not isinstance(box, (dict, list)):
                raise CannotEval(f"store into {u(t)[:40]}")
            try:
                box[mev(t.slice, env)] = v
            except (KeyError, IndexError, TypeError) as x:
                raise CannotEval(f"{u(t)[:40]}: {type(x).__name__}")
        else:
            raise CannotEval(f"assignment target {u(t)[:40]}")

    def exec_block(self, stmts, env):
        for s in stmts:
            self.exec_stmt(s, env)

    def exec_stmt(self, s, env):
        if s is self.stop_node:
            raise _StopAt(env)
        if isinstance(s, (ast.Import, ast.ImportFrom, ast.Pass, ast.Global, ast.Nonlocal, ast.Assert) + FUNC_TYPES + (ast.ClassDef,)) or is_logging_stmt(s):
            return
        if isinstance(s, ast.Expr):
            if isinstance(s.value, ast.Constant):
                return
            try:
                self.xev(s.value, env)
            except CannotEval:
                self.effects.append(s.value)  # an effect this analysis does not interpret (metrics call, ...): it neither returns nor raises here
            return
        if isinstance(s, ast.Assign):
            try:
                v = self.xev(s.value, env)
            except CannotEval:
                # a value this analysis cannot compute (a tuple of exception classes, an object, ...): the names it is bound to are unknown from here on - only a USE of them is undecidable
                names = [x for t in s.targets for x in ([t] if isinstance(t, ast.Name) else (t.elts if isinstance(t, (ast.Tuple, ast.List)) else [None]))]
                if not all(isinstance(x, ast.Name) for x in names):
                    raise
                for x in names:
                    env.pop(x.id, None)
                return
            for t in s.targets:
                self.assign(t, v, env)
            return
        if isinstance(s, ast.AnnAssign):
            if s.value is not None:
                self.assign(s.target, self.xev(s.value, env), env)
            return
        if isinstance(s, ast.AugAssign):
            if isinstance(s.target, ast.Name) and type(s.op) in _AUG:
                if s.target.id not in env:
                    raise CannotEval(f"unbound name {s.target.id}")
                try:
                    env[s.target.id] = _AUG[type(s.op)](env[s.target.id], self.xev(s.value, env))
                except TypeError as x:
                    raise CannotEval(f"{u(s)[:60]}: {x}")
                return
            if isinstance(s.target, ast.Attribute) and isinstance(s.target.value, ast.Name) and isinstance(env.get(s.target.value.id), _Self):
                rec = env[s.target.value.id]
                if s.target.attr in rec.fields and type(s.op) in _AUG:
                    try:
                        rec.fields[s.target.attr] = _AUG[type(s.op)](rec.fields[s.target.attr], self.xev(s.value, env))
                    except TypeError as x:
                        raise CannotEval(f"{u(s)[:60]}: {x}")
                self.effects.append(s.target)  # e.g. a counter the decision logic never reads
                return
            if isinstance(s.target, ast.Attribute) and isinstance(self.peek(s.target.value, env), _Obj) and type(s.op) in _AUG:
                try:
                    self.assign(s.target, _AUG[type(s.op)](self.xev(ast.Attribute(value=s.target.value, attr=s.target.attr, ctx=ast.Load()), env), self.xev(s.value, env)), env)
                except TypeError as x:
                    raise CannotEval(f"{u(s)[:60]}: {x}")
                return
            raise CannotEval(f"augmented assignment {u(s)[:60]}")
        if isinstance(s, ast.If):
            self.exec_block(s.body if self.xev(s.test, env) else s.orelse, env)
            return
        if isinstance(s, ast.Return):
            raise _Return(self.xev(s.value, env) if s.value is not None else None)
        if isinstance(s, ast.Raise):
            cur = self.exc_stack[-1] if self.exc_stack else None
            if s.exc is None:
                if cur is None:
                    raise CannotEval("bare raise outside a handler")
                raise cur
            if cur is not None and isinstance(s.exc, ast.Name) and env.get(s.exc.id) is cur.rec:
                raise cur
            raise _Raised(None, None, s)
        if isinstance(s, (ast.Break, ast.Continue)):
            raise _Jump("break" if isinstance(s, ast.Break) else "continue")
        if isinstance(s, ast.Try):
            self.exec_try(s, env)
            return
        raise CannotEval(f"statement kind {type(s).__name__} at line {getattr(s, 'lineno', '?')}")

    def hnames(self, h):
        """dotted class names of an except clause; a name bound once (locally or at module level) to a tuple of classes stands for that tuple"""
        if id(h) not in self._hnames:
            t, hh = h.type, h
            if isinstance(t, ast.Name) and t.id not in self.rn.imports:
                f = source.enclosing_func(h)
                d = (local_defs(f).get(t.id) if f is not None else None) or self.rn.module_constant(t.id)
                if isinstance(d, ast.Tuple):
                    hh = ast.ExceptHandler(type=d, name=h.name, body=[])
            names = handler_type_names(hh, module=self.rn)
            for nm in names:
                if not self.H.known(nm):
                    self.unknown_classes.append((nm, h))
            self._hnames[id(h)] = names
        return self._hnames[id(h)]

    def exec_try(self, s, env):
        try:
            try:
                self.exec_block(s.body, env)
            except _Raised as r:
                if not s.handlers:
                    raise
                if r.cls is None:
                    raise CannotEval("an exception created inside a try with handlers")
                hit = None
                forced = self.force is not None and self.force[0] is s
                for h in s.handlers:
                    names = self.hnames(h)
                    if (forced and self.force[1] is h) or (not forced and self.H.catches(names, r.cls)):
                        hit = (h, names)
                        break
                if hit is None:
                    raise
                self.selected = hit
                if hit[0].name:
                    env[hit[0].name] = r.rec
                self.exc_stack.append(r)
                try:
                    self.exec_block(hit[0].body, env)
                finally:
                    self.exc_stack.pop()
            else:
                self.exec_block(s.orelse, env)
        finally:
            if s.finalbody:
                self.exec_block(s.finalbody, env)


class Out:
    """outcome of one attempt: kind in retry | return | raise | raise-other | break-out"""

    def __init__(self, kind, value=None, sleeps=(), ncalls=0, selected=None, note=""):
        self.kind, self.value, self.sleeps, self.ncalls, self.selected, self.note = kind, value, list(sleeps), ncalls, selected, note

    def text(self):
        t = {"retry": "goes on to the next attempt", "return": "returns", "raise": "re-raises the attempt's exception", "raise-other": "raises a different exception"}.get(self.kind, self.kind)
        return t + (f" ({self.note})" if self.note else "") + (f" after {len(self.sleeps)} sleep(s)" if self.sleeps else "")


def _own_objects(values):
    """[(object, copy of its fields)] for every _Obj reachable from these values"""
    seen, out, work = set(), [], list(values)
    while work:
        v = work.pop()
        if id(v) in seen:
            continue
        seen.add(id(v))
        if isinstance(v, _Obj):
            out.append((v, dict(v.fields)))
            work += list(v.fields.values())
        elif isinstance(v, (list, tuple)):
            work += list(v)
        elif isinstance(v, dict):
            work += list(v.values())
    return out


def _closure(tab, ci, modfuncs, root):
    """functions reachable from root through self.m() / Class.m() / module f() calls"""
    seen, out, work = set(), [], [root]
    while work:
        f = work.pop()
        if id(f) in seen:
            continue
        seen.add(id(f))
        out.append(f)
        for n in walk_body(f):
            if isinstance(n, ast.Call):
                g = None
                if isinstance(n.func, ast.Attribute) and isinstance(n.func.value, ast.Name) and n.func.value.id in ("self", "cls", ci.name, (params_of(f) or [""])[0]):
                    g = tab.method(ci, n.func.attr)
                elif isinstance(n.func, ast.Name):
                    g = modfuncs.get(n.func.id)
                if g is not None:
                    work.append(g)
    return out


def _registrations(rn, reg, fname="register_runner"):
    """every registration `register_runner(<operation type>, <runner>, ...)` that register_default_runners performs, as (operation type expr, runner expr, site): direct calls, calls in a loop over a
    literal table (dict.items(), dict keys with table[key], list / tuple of pairs) with the loop variables substituted, and calls made by a local / module-level helper function with its
    parameters substituted. Second value: what could not be expanded (text, node)."""
    defs = local_defs(reg)
    regdef = next((n for n in rn.tree.body if isinstance(n, FUNC_TYPES) and n.name == fname), None)
    out, unknown = [], []

    def table(e):
        e = defs.get(e.id, e) if isinstance(e, ast.Name) else e
        return e

    def rows_of(loop):
        it, tgt = loop.iter, loop.target
        if isinstance(it, ast.Call) and isinstance(it.func, ast.Attribute) and it.func.attr == "items" and not it.args:
            d = table(it.func.value)
            if isinstance(d, ast.Dict) and all(k is not None for k in d.keys) and isinstance(tgt, ast.Tuple) and len(tgt.elts) == 2 and all(isinstance(x, ast.Name) for x in tgt.elts):
                return [{tgt.elts[0].id: k, tgt.elts[1].id: v} for k, v in zip(d.keys, d.values)]
            return None
        if isinstance(it, ast.Call) and dotted(it.func) in ("list", "tuple", "sorted", "iter") and len(it.args) == 1:
            it = it.args[0]
        d = table(it)
        if isinstance(d, ast.Dict) and all(k is not None for k in d.keys) and isinstance(tgt, ast.Name):
            return [{tgt.id: k} for k in d.keys]
        if isinstance(d, (ast.List, ast.Tuple, ast.Set)):
            if isinstance(tgt, ast.Name):
                return [{tgt.id: e} for e in d.elts]
            if isinstance(tgt, ast.Tuple) and all(isinstance(x, ast.Name) for x in tgt.elts) and all(isinstance(e, (ast.Tuple, ast.List)) and len(e.elts) == len(tgt.elts) for e in d.elts):
                return [{x.id: y for x, y in zip(tgt.elts, e.elts)} for e in d.elts]
        return None

    def lookup(e):
        """table[key] with a literal table -> the entry"""

        class T(ast.NodeTransformer):
            def visit_Subscript(self, n):
                self.generic_visit(n)
                d = defs.get(n.value.id) if isinstance(n.value, ast.Name) else n.value
                if isinstance(d, ast.Dict):
                    for k, v in zip(d.keys, d.values):
                        if k is not None and u(k) == u(n.slice):
                            return source.clone(v)
                return n

        return T().visit(e)

    def expand(c, binds, site, depth=0):
        """c: a call (original node); binds: name -> expr for the names bound around it"""
        loops = []
        a = source.parent(c)
        scope = source.enclosing_func(c)
        while a is not None and a is not scope:
            if isinstance(a, (ast.For, ast.AsyncFor)):
                loops.append(a)
            elif isinstance(a, (ast.While, ast.Try, ast.With, ast.If, ast.Lambda, ast.ListComp, ast.GeneratorExp, ast.DictComp, ast.SetComp)):
                unknown.append((f"registration under a {type(a).__name__}", c))
                return
            a = source.parent(a)
        envs = [dict(binds)]
        for lp in reversed(loops):
            rows = rows_of(lp)
            if rows is None:
                unknown.append((f"registration loop over `{short(lp.iter, 50)}` is not a loop over a literal table", lp))
                return
            envs = [{**e, **r} for e in envs for r in rows]
        for e in envs:
            sub = {**{k: v for k, v in defs.items() if scope is reg}, **e}
            args = [lookup(source.inline_node(x, sub)) for x in c.args]
            kws = {k.arg: lookup(source.inline_node(k.value, sub)) for k in c.keywords if k.arg}
            name = last_attr(c.func)
            if name == fname:
                names = params_of(regdef) if regdef is not None else ["operation_type", "runner"]
                got = dict(zip(names, args))
                got.update({k: v for k, v in kws.items() if k in names})
                if len(names) >= 2 and names[0] in got and names[1] in got:
                    out.append((got[names[0]], got[names[1]], site or c))
                else:
                    unknown.append(("registration call without operation type and runner", c))
            else:
                helper = helpers.get(name)
                if helper is None or depth >= 2:
                    continue
                hb = source.bind_args(ast.Call(func=c.func, args=args, keywords=[ast.keyword(arg=k, value=v) for k, v in kws.items()]), helper, skip_self=False)
                a_ = helper.args
                allpos = a_.posonlyargs + a_.args
                for p, d in zip(allpos[len(allpos) - len(a_.defaults):], a_.defaults):
                    hb.setdefault(p.arg, d)
                for inner in source.calls_in(helper, local=True):
                    if last_attr(inner.func) == fname or last_attr(inner.func) in helpers:
                        expand(inner, hb, site or c, depth + 1)

    # helper functions that register: nested in register_default_runners or at module level, called from it
    cands = {n.name: n for n in list(rn.tree.body) + list(reg.body) if isinstance(n, FUNC_TYPES) and n is not reg and n.name != fname}
    helpers = {nm: f for nm, f in cands.items() if any(last_attr(c.func) == fname for c in source.calls_in(f, local=True))}
    for c in source.calls_in(reg, local=True):
        if isinstance(c.func, (ast.Name, ast.Attribute)) and (last_attr(c.func) == fname or (isinstance(c.func, ast.Name) and c.func.id in helpers)):
            expand(c, {}, None)
    return out, unknown


def run(chk):
    repo = chk.repo
    rn = repo.module(_R)
    chk.use(rn, "docs/track.rst")
    H = Hierarchy()
    chk.trusted.append("library exception hierarchy parsed from " + ", ".join(sorted(__import__('os').path.basename(p) for p in H.files)))
    chk.explanation = (
        "Decides the attempt loop of the retry wrapper as a decision table evaluated end to end on representative values: the wrapper's code up to the attempt loop (helper methods followed, "
        "arguments bound to parameters) is interpreted for representative parameter dicts and constructor flags, then one iteration of the loop body for each outcome class of one attempt "
        "(12 exception classes placed in the real, parsed library hierarchy, and 5 kinds of return value) at a non-last and at the last attempt under each combination of "
        "(retry-on-timeout, retry-on-error); the handler that Python would select is located through the hierarchy; the outcome (next attempt after one awaited sleep of the configured period / "
        "the attempt's own exception / the attempt's own result) must equal the documented classification. Also the attempt bound (retries + 1 iterations, unbounded with retry-on-error forced "
        "under retry-until-success; the attempt numbers are the VALUE the loop runs over - a range, an unbounded counter, a `while` loop replayed from its start), the parameter defaults, that the caller's parameter dict and the shared wrapper are left alone, which operations are wrapped, that their parameter "
        "sources hand the retry settings on, and that each registered wrapper - built as its registration builds it - gives a task without retry parameters the documented defaults "
        "(retry-until-success on only where the operation's documentation section says it waits by default)."
    )
    chk.not_decided = ("timing of sleeps, behaviour of the delegate, operations wrapped by plugins; for a loop without a visible end of the attempt numbers (unbounded counter, `while`): "
                       f"a cap on the attempts beyond the first {_SEARCH}.")
    R = rn.cls("Retry")
    call = rn.methods(R).get("__call__")
    if call is None:
        raise AnchorMissing("Retry.__call__")
    tab = ClassTable(repo, [_R])
    ci = next((c for c in tab.by_name.get("Retry", []) if c.node is R), None)
    if ci is None:
        raise AnchorMissing("class Retry")
    pnames = params_of(call)
    if len(pnames) < 3:
        raise AnchorMissing("Retry.__call__(self, es, params): the parameter dict")
    pv = pnames[-1]  # the parameter dict is the last parameter of __call__(self, es, params)

    # roles by data flow: attributes a constructor in the MRO sets from one of its parameters; the delegate is the one of them that is CALLED, the others are constructor settings
    ctor_attr = {}  # attr -> (class, parameter, default expr or None)
    for c in tab.mro(ci):
        init = c.methods.get("__init__")
        if init is None:
            continue
        a = init.args
        allpos = a.posonlyargs + a.args
        dflt = {p.arg: d for p, d in zip(allpos[len(allpos) - len(a.defaults):], a.defaults)}
        dflt.update({p.arg: d for p, d in zip(a.kwonlyargs, a.kw_defaults) if d is not None})
        for n in walk_body(init):
            if isinstance(n, ast.Assign) and len(n.targets) == 1 and source.is_self_attr(n.targets[0]) and isinstance(n.value, ast.Name) and n.value.id in [x.arg for x in allpos + a.kwonlyargs]:
                ctor_attr.setdefault(n.targets[0].attr, (c, n.value.id, dflt.get(n.value.id)))
    modfuncs = {n.name: n for n in rn.tree.body if isinstance(n, FUNC_TYPES)}
    closure = _closure(tab, ci, modfuncs, call)

    def self_name(f):
        return (params_of(f) or [None])[0] if "staticmethod" not in decorator_names(f) else None

    called = {n.func.attr for f in closure for n in walk_body(f) if isinstance(n, ast.Call) and isinstance(n.func, ast.Attribute) and isinstance(n.func.value, ast.Name)
              and n.func.value.id == self_name(f) and n.func.attr in ctor_attr}
    if not called:
        raise AnchorMissing("call of the delegate (an attribute the constructor sets from a parameter) in Retry.__call__ or its helpers")
    sites = [n for f in closure for n in walk_body(f) if isinstance(n, ast.Call) and isinstance(n.func, ast.Attribute) and isinstance(n.func.value, ast.Name)
             and n.func.value.id == self_name(f) and n.func.attr in called]
    settings = {}
    for attr, (c, p, d) in ctor_attr.items():
        if attr not in called and d is not None:
            try:
                settings[attr] = mev(d, {})
            except CannotEval:
                pass

    # the attempt loop: the outermost loop around the delegate call (through helper calls)
    def callers_of(f):
        return [n for g in closure for n in walk_body(g) if isinstance(n, ast.Call) and ((isinstance(n.func, ast.Attribute) and isinstance(n.func.value, ast.Name)
                and n.func.value.id in ("self", "cls", ci.name, self_name(g)) and tab.method(ci, n.func.attr) is f) or (isinstance(n.func, ast.Name) and modfuncs.get(n.func.id) is f))]

    def find_loop(node, depth=0):
        f = source.enclosing_func(node)
        loops = [a for a in source.ancestors(node) if isinstance(a, (ast.For, ast.While, ast.AsyncFor)) and source.enclosing_func(a) is f]
        if loops:
            return loops[-1]
        if depth < 4 and f is not None and f is not call:
            for c in callers_of(f):
                lp = find_loop(c, depth + 1)
                if lp is not None:
                    return lp
        return None

    L = next((lp for lp in (find_loop(s_) for s_ in sites) if lp is not None), None)
    if L is None:
        raise AnchorMissing("attempt loop around the delegate call")
    # what the loop runs over is a VALUE computed at the loop (a range, an unbounded counter, chosen directly / into a local / by a helper): evaluated per world below, not read off the spelling
    # A `while` loop keeps its own count: every evaluated attempt then REPLAYS the earlier iterations (with outcomes that are retried) from the state at the loop, so whatever the loop
    # carries from one attempt to the next (the counter, wherever it is advanced) is part of the evaluation.
    is_for = isinstance(L, ast.For)
    if not isinstance(L, (ast.For, ast.While)):
        raise AnchorMissing(f"the attempt loop is neither a `for` loop over attempt numbers nor a `while` loop: {short(L, 60)}")
    target_names = {n.id for n in ast.walk(L.target) if isinstance(n, ast.Name)} if is_for else set()
    if is_for and (not target_names or not all(isinstance(n, (ast.Name, ast.Tuple, ast.List)) for n in ast.walk(L.target) if not isinstance(n, ast.expr_context))):
        raise AnchorMissing(f"the target of the attempt loop is not a local (or a tuple of locals): {short(L, 60)}")
    FL = source.enclosing_func(L)
    if FL is not call:
        # the loop lives in a helper: its result must be what __call__ returns
        cs = callers_of(FL)
        for c in cs:
            st = source.enclosing_stmt(c)
            if not (source.enclosing_func(c) is call and isinstance(st, ast.Return) and (st.value is c or (isinstance(st.value, ast.Await) and st.value.value is c))
                    and not any(isinstance(a, (ast.Try, ast.For, ast.While, ast.With, ast.AsyncWith)) for a in source.ancestors(c) if source.enclosing_func(a) is call or a is call)):
                raise AnchorMissing("the attempt loop lives in a helper whose result is not returned directly by Retry.__call__")
        if not cs:
            raise AnchorMissing("caller of the helper with the attempt loop")
    holder = source.parent(L)
    block = next((b for b in (getattr(holder, fld, None) for fld in ("body", "orelse", "finalbody")) if isinstance(b, list) and any(x is L for x in b)), None)
    if block is None or not any(x is L for x in source.flat(FL.body)):
        raise AnchorMissing("the attempt loop is nested in another statement")
    tail = block[[i for i, x in enumerate(block) if x is L][0] + 1:]

    def contains_delegate(node, depth=0):
        for n in ast.walk(node):
            if any(n is s_ for s_ in sites):
                return True
            if isinstance(n, ast.Call) and depth < 4:
                g = None
                if isinstance(n.func, ast.Attribute) and isinstance(n.func.value, ast.Name) and n.func.value.id in ("self", "cls", ci.name):
                    g = tab.method(ci, n.func.attr)
                elif isinstance(n.func, ast.Name):
                    g = modfuncs.get(n.func.id)
                if g is not None and g in closure and any(contains_delegate(st, depth + 1) for st in g.body):
                    return True
        return False

    trys = [n for f in closure for n in walk_body(f) if isinstance(n, ast.Try) and n.handlers and any(contains_delegate(st) for st in n.body)]
    trys = [t for t in trys if any(a is L for a in source.ancestors(t)) or source.enclosing_func(t) is not FL]
    if not trys:
        raise AnchorMissing("try around the delegate call in the attempt loop")
    T = trys[-1] if len(trys) > 1 and all(any(a is trys[0] for a in source.ancestors(t)) for t in trys[1:]) else trys[0]  # the innermost of nested ones

    interp = Interp(rn, tab, ci, H, called)
    for h in T.handlers:
        interp.hnames(h)

    # ---- worlds: the wrapper's own code up to the attempt loop, on representative parameters ----------------------------------------------------
    class World:
        pass

    worlds = {}

    def world(params, ctor=None, lvl=_LOG_STOCK):
        """the frame at the attempt loop for this parameter dict and these constructor settings (attr -> value), evaluated at this logging level"""
        k = (repr(sorted(params.items())), repr(sorted((ctor or {}).items())), lvl)
        if k in worlds:
            return worlds[k]
        outer, interp.log_level = interp.log_level, lvl
        try:
            return world_(params, ctor, lvl, k)
        finally:
            interp.log_level = outer

    def world_(params, ctor, lvl, k):
        w = World()
        w.lvl, w.ctor, w.alts = lvl, ctor, {}
        w.before, w.params = dict(params), dict(params)
        w.rec = _Self(**{**settings, **(ctor or {})})

        def frame(rec, pdict):
            env = {**interp.globals, pnames[0]: rec, **{p: _OPAQUE for p in pnames[1:-1]}, pv: pdict}
            interp.reset()
            interp.event, interp.stop_node, interp.force = None, L, None
            try:
                interp.exec_block(call.body, env)
            except _StopAt as s_:
                return s_.env
            except _Signal as s_:
                raise CannotEval(f"the attempt loop is not reached for params={params}: {type(s_).__name__[1:].lower()}")
            finally:
                interp.stop_node = None
            raise CannotEval(f"the attempt loop is not reached for params={params}")

        def seq_of(env):
            return _as_seq(interp.xev(L.iter, env)) if is_for else _Seq(None, None)

        interp.log_queries = []
        w.env = frame(w.rec, w.params)
        w.seq = seq_of(w.env)
        w.asked = list(interp.log_queries)
        for q in w.asked:
            query_sites[id(q)] = q
        w.fill, w.dead = [], None
        if w.seq.n is not None and w.seq.n < sys.maxsize // 2:
            w.n, w.unbounded = w.seq.n, False
        else:
            # no end of the attempt numbers in sight (an unbounded counter, sys.maxsize elements give or take an off-by-one, a `while` loop): the call is bounded all the same if at some
            # attempt EVERY outcome ends it (the last-attempt test alone enforces the bound, the loop test fails afterwards); searched among the first attempts, on the same evaluated
            # iterations as everything else
            w.n, w.unbounded = sys.maxsize, True
            for pos in range(_SEARCH):
                if all(attempt(w, pos, ev_, probe=True).kind != "retry" for ev_ in probes()):
                    w.n, w.unbounded = pos + 1, False
                    break
        worlds[k] = w
        if w.asked and lvl == _LOG_STOCK:
            # (O16.8) the code up to the loop consulted the logging configuration: the attempt numbers, the wrapper and the caller's dict at the loop must be the same under every answer
            # (a local that merely remembers the answer may differ: every attempt is compared below in the frame of its own level)
            def view(x):
                return {"the number of attempts": "unbounded" if x.unbounded else x.n, "the attempt numbers": [x.seq.at(i) for i in range(min(x.n, 3))] if is_for else None,
                        "the wrapper": _plain(x.rec), "the caller's parameter dict": _plain(x.params)}
            for other in _LOG_OTHER:
                w.alts[other] = w2 = world(params, ctor, other)
                diff = [k_ for k_, v in view(w).items() if view(w2)[k_] != v]
                if diff:
                    diverge(w.asked[0], f"params={params}: at the attempt loop {diff[0]} is {view(w)[diff[0]]} at logging level {_LOG_STOCK} and {view(w2)[diff[0]]} at level {other}")
        return w

    observed_calls = []
    divergences, query_sites = [], {}  # (O16.8) [(query node, text)], id -> node of every level query consulted

    def diverge(node, text):
        if not any(n is node and t == text for n, t in divergences):
            divergences.append((node, text))

    def attempt(w, pos, event, force=None, probe=False):
        """outcome of the attempt at iteration index pos of world w when the delegate produces `event`: evaluated at the stock logging level; if that evaluation consulted the logging
        configuration, evaluated again at the other levels and compared (O16.8) - the tables judge the stock outcome, the comparison judges that it is THE outcome"""
        outer, interp.log_level = interp.log_level, w.lvl
        try:
            interp.log_queries = []
            o = attempt_at(w, pos, event, force, probe)
            asked = list(interp.log_queries)
            for q in asked:
                query_sites[id(q)] = q
            if w.lvl == _LOG_STOCK and (asked or w.alts):
                def view(x):
                    return (x.kind, x.note, "the attempt's own result" if x.value is event[1] and event[0] == "return" else _plain(x.value), [_plain(s_[0]) for s_ in x.sleeps], x.ncalls)
                for lvl in _LOG_OTHER:
                    w2 = w.alts.get(lvl, w)
                    if w2.n != w.n:
                        continue  # (reported where the frames are compared)
                    interp.log_level = lvl
                    o2 = attempt_at(w2, pos, event, force, True)
                    asked += [q for q in interp.log_queries if not any(q is x for x in asked)]
                    if view(o) != view(o2):
                        what = f"{event[1]} raised" if event[0] == "raise" else f"result {event[1]!r}"
                        diverge((asked or w.asked)[0], f"attempt {pos + 1} of {'an unbounded number' if w.unbounded else w.n}, {what}, params={w.before}: at logging level {_LOG_STOCK} it {o.text()} "
                                f"(sleeps {[s_[0] for s_ in o.sleeps]}, {o.ncalls} call(s) of the delegate), at level {lvl} it {o2.text()} (sleeps {[s_[0] for s_ in o2.sleeps]}, {o2.ncalls} call(s))")
        finally:
            interp.log_level = outer
        return o

    def fill_to(w, pos):
        """(`while` loop) outcomes for the attempts before iteration index pos that make the loop go on: the first retried one of a few retryable outcome classes, per world"""
        if pos > _SEARCH:
            raise CannotEval(f"attempt {pos + 1} of a `while` loop is beyond the {_SEARCH + 1} replayed attempts")
        while len(w.fill) < pos:
            i = len(w.fill)
            if w.dead is not None:
                raise CannotEval(f"attempt {w.dead + 1} is never reached: no outcome of attempt {w.dead} is retried")
            for cand in probes()[:2] + [exc_event("elasticsearch.ConnectionTimeout", None), exc_event("elasticsearch.ApiError", 408)]:
                if attempt(w, i, cand, probe=True).kind == "retry":
                    w.fill.append(cand)
                    break
            else:
                w.dead = i + 1

    def attempt_at(w, pos, event, force=None, probe=False):
        """outcome of the attempt at iteration index pos of world w when the delegate produces `event`, at the logging level the interpreter is set to"""
        if not 0 <= pos < w.n:
            raise CannotEval(f"no attempt number {pos + 1}")
        if not is_for:
            fill_to(w, pos)
        env = dict(w.env)
        kept = dict(w.rec.fields)
        own = _own_objects(w.env.values())  # objects the call built before the loop: every evaluated iteration starts from their state at the loop

        def goes_on():
            """after an iteration that neither returned nor raised: is there another one?"""
            if is_for:
                return not (w.seq.n is not None and pos == w.seq.n - 1)  # (the attempt numbers end here: the iteration falls out of the loop)
            interp.event = None
            return bool(interp.xev(L.test, env))

        def run_(stmts):
            try:
                interp.exec_block(stmts, env)
                return Out("fall")
            except _Jump as j:
                return Out("break-out" if j.kind == "break" else "retry")
            except _Return as r_:
                return Out("return", r_.value)
            except _Raised as r_:
                return Out("raise" if r_.cls is not None else "raise-other")

        try:
            if is_for:
                interp.assign(L.target, w.seq.at(pos), env)
            else:
                for i in range(pos + 1):
                    interp.reset()
                    interp.event, interp.force = None, None
                    if not interp.xev(L.test, env):
                        raise CannotEval(f"no attempt number {pos + 1}: the loop test fails after {i} attempt(s)")
                    if i < pos:
                        interp.event = w.fill[i]
                        if run_(L.body).kind not in ("fall", "retry"):
                            raise CannotEval(f"attempt {i + 1} does not go on to the next one when replayed")
            interp.reset()
            interp.event, interp.force = event, force
            o = run_(L.body)
            if o.kind == "fall":
                o = Out("retry")
            final = o.kind == "retry" and not goes_on()
            if o.kind == "break-out" or (o.kind == "retry" and final):
                note = "leaves the loop" if o.kind == "break-out" else "falls out of the loop after the last attempt"
                o = run_((list(L.orelse) if o.kind == "retry" else []) + tail)
                if o.kind in ("fall", "retry", "break-out"):
                    o = Out("return", None)
                o.note = note
        finally:
            w.rec.fields.clear()
            w.rec.fields.update(kept)
            for obj, fields in own:
                obj.fields.clear()
                obj.fields.update(fields)
        o.sleeps, o.ncalls, o.selected = list(interp.sleeps), interp.ncalls, interp.selected
        if force is None and not probe:
            observed_calls.append(o.ncalls)
        return o

    WAIT = 7.25

    def P(rot=None, roe=None, retries=2, rus=None, wait=WAIT):
        d = {"retries": retries, "retry-on-timeout": rot, "retry-on-error": roe, "retry-until-success": rus, "retry-wait-period": wait}
        return {k: v for k, v in d.items() if v is not None}

    def exc_event(cls, status):
        return ("raise", cls, Record(status_code=status, status=status, meta=Record(status=status)))

    CE = ("connection error", "elasticsearch.ConnectionError", None)

    def failed():
        return {"success": False, "weight": 1}

    # representative results of the delegate: (label, value, is dict, success)
    RET = [("dict success=True", {"success": True, "weight": 1}, True, True), ("dict success=False", {"success": False, "weight": 1}, True, False), ("non-dict result", (1, "ops"), False, True),
           ("None result", None, False, True), ("empty dict (no 'success' key)", {}, True, True)]

    def probes():
        """every outcome class of one attempt (the ones that are retried under some setting first)"""
        return [("return", failed()), exc_event(CE[1], CE[2])] + [exc_event(cls, status) for _, cls, status, _ in RAISED] + [("return", value) for _, value, _, _ in RET]

    def positions(w, last):
        if w.n == 0:
            raise CannotEval("no attempt at all")
        if last:
            return [w.n - 1]
        return sorted({0, max(0, w.n - 2)}) if w.n >= 2 else []

    # the constructor setting that stands for retry-until-success: the one that makes the loop unbounded
    flag = None
    try:
        for attr, dv in settings.items():
            if isinstance(dv, bool) and world({"retries": 0}, {attr: True}).unbounded and not world({"retries": 0}, {attr: False}).unbounded:
                flag = attr
    except CannotEval as e:
        raise AnchorMissing(f"Retry.__call__ up to the attempt loop is not evaluable on representative parameters: {e}")
    if flag is None:
        # no constructor setting makes the loop unbounded. If exactly one of them (default False) is switched ON where the default runners are registered (`Retry(<runner>, <setting>=True)`, by
        # keyword or by position), that one IS the retry-until-success setting - located by what the registration passes, and O16.1 below reports that it has no effect
        def turned_on(attr):
            c, p, _ = ctor_attr[attr]
            names = params_of(c.methods["__init__"])[1:]
            for _, v, _ in _registrations(rn, rn.func("register_default_runners"))[0]:
                if isinstance(v, ast.Call) and last_attr(v.func) == ci.name:
                    got = dict(zip(names, v.args))
                    got.update({k.arg: k.value for k in v.keywords if k.arg})
                    if isinstance(got.get(p), ast.Constant) and got[p].value is True:
                        return True
            return False

        cands = [attr for attr, dv in settings.items() if dv is False and turned_on(attr)]
        if len(cands) == 1:
            flag = cands[0]
    if flag is None:
        raise AnchorMissing("constructor setting of Retry that turns on retry-until-success")

    # ---- O16.1 attempt bound ----------------------------------------------------------------------------------------------------------------
    chk.rule("O16.1", "the attempt loop is a counted loop of retries + 1 iterations (unbounded, with retry-on-error forced, under retry-until-success); only the final iteration is treated as "
             "the last attempt; documented parameter defaults; the delegate runs once per iteration; neither the shared wrapper nor the caller's parameter dict keeps anything of the call", 7,
             "one attempt too many/few; the last attempt's failure swallowed (loop falls out returning None)")

    def decided(rule, instance, node, fn, key=None):
        """fn() -> (ok, detail); an expression that cannot be evaluated is 'not recognised', never a verdict"""
        try:
            ok, detail = fn()
        except CannotEval as e:
            chk.unknown(rule, f"{instance}: not evaluable on representative values ({e})", node)
            return None
        chk.ob(rule, instance, ok, node, detail, **({"key": key} if key else {}))
        return ok

    # the counter, what the loop runs over, and every local whose value flows into that (`attempts = range(max_attempts)` before the loop: max_attempts IS the bound, whatever reads it)
    bound_names = ({n.id for n in ast.walk(L.iter) if isinstance(n, ast.Name)} | target_names) if is_for else set()
    flows = {}  # local -> names read by the values assigned to it outside the loop
    for st in walk_body(FL):
        if isinstance(st, (ast.Assign, ast.AugAssign, ast.AnnAssign)) and getattr(st, "value", None) is not None and not any(a is L for a in source.ancestors(st)):
            for t in (st.targets if isinstance(st, ast.Assign) else [st.target]):
                pairs = list(zip(t.elts, st.value.elts)) if isinstance(t, (ast.Tuple, ast.List)) and isinstance(st.value, (ast.Tuple, ast.List)) and len(t.elts) == len(st.value.elts) else [(t, st.value)]
                for tt, vv in pairs:
                    for x in ast.walk(tt):
                        if isinstance(x, ast.Name) and isinstance(x.ctx, ast.Store):
                            flows.setdefault(x.id, set()).update(y.id for y in ast.walk(vv) if isinstance(y, ast.Name))
    work = list(bound_names)
    while work:
        for y in flows.get(work.pop(), ()):
            if y not in bound_names and y in flows and y not in params_of(FL):
                bound_names.add(y)
                work.append(y)
    # (a store on an attribute of one of these names - a settings object that carries the bound - counts as well)
    rebound = [n for st in L.body for n in ast.walk(st) if isinstance(n.ctx if isinstance(n, (ast.Name, ast.Attribute)) else None, (ast.Store, ast.Del))
               and (n.id if isinstance(n, ast.Name) else (n.value.id if isinstance(n.value, ast.Name) else None)) in bound_names]
    # (a `while` loop re-binds its counter by design: there every evaluated attempt replays the earlier iterations, so what the loop body does to the counter and the bound IS evaluated -
    # by the bound, last-attempt and classification obligations below)
    chk.ob("O16.1", "for attempt in range(...): the counter and the bound are not re-bound inside the loop", not rebound, rebound[0] if rebound else L,
           (u(L.iter) if is_for else f"while {short(L.test, 40)}: the state the loop carries from attempt to attempt is replayed, not assumed")
           + (f"; `{u(rebound[0])}` is assigned in the loop body" if rebound else ""))

    def ob_bound():
        bad = []
        for params, ctor, want in [({}, None, 1), ({"retries": 0}, None, 1), ({"retries": 1}, None, 2), ({"retries": 5}, None, 6), ({"retries": 3, "retry-until-success": False}, None, 4),
                                   ({"retries": 3, "retry-until-success": False}, {flag: True}, 4)]:
            w = world(params, ctor)
            if w.n != want:
                bad.append(f"{params}{' on a retry-until-success wrapper' if ctor else ''}: {'unbounded' if w.unbounded else w.n} attempt(s), expected {want}")
        return not bad, "; ".join(bad[:2]) or f"`{short(L.iter if is_for else L.test, 60)}` makes retries + 1 attempts for retries in (default, 0, 1, 3, 5)"

    decided("O16.1", "max_attempts == retries + 1 (default 0 retries)", L, ob_bound)

    def ob_unbounded():
        bad = []
        for params, ctor in [({"retry-until-success": True}, None), ({"retry-until-success": True, "retries": 0}, None), ({"retry-until-success": True, "retries": 3}, None),
                             ({}, {flag: True}), ({"retries": 2}, {flag: True})]:
            w = world(params, ctor)
            if not w.unbounded:
                bad.append(f"{params}{' on a retry-until-success wrapper' if ctor else ''}: {w.n} attempt(s), expected no bound")
        for params, ctor in [({"retries": 2}, None), ({"retries": 2, "retry-until-success": False}, {flag: True}), ({"retries": 2, "retry-on-error": True}, None)]:
            w = world(params, ctor)
            if w.unbounded:
                bad.append(f"{params}{' on a retry-until-success wrapper' if ctor else ''}: unbounded although retry-until-success is off")
        return not bad, "; ".join(bad[:2])

    decided("O16.1", "unbounded only under retry-until-success", L, ob_unbounded)

    def ob_forced():
        bad = []
        for params, ctor in [({"retry-until-success": True, "retry-on-error": False, "retry-wait-period": WAIT}, None), ({"retry-until-success": True, "retry-wait-period": WAIT}, None),
                             ({"retry-on-error": False, "retry-wait-period": WAIT}, {flag: True}), ({"retry-wait-period": WAIT}, {flag: True})]:
            w = world(params, ctor)
            for pos in [p_ for p_ in (0, 1) if p_ < w.n - (0 if w.unbounded else 1)]:  # (a bounded loop here is reported by the obligation above)
                o = attempt(w, pos, ("return", failed()))
                if o.kind != "retry":
                    bad.append(f"{params}{' on a retry-until-success wrapper' if ctor else ''}: an unsuccessful result {o.text()}, expected another attempt")
        return not bad, "; ".join(bad[:2])

    decided("O16.1", "retry-on-error forced under retry-until-success", L, ob_forced)

    def ob_default_roe():
        o = attempt(world(P(roe=None)), 0, ("return", failed()))
        return o.kind == "return", f"retry-on-error absent: an unsuccessful result {o.text()}; expected: returned (default False)"

    def ob_default_wait():
        bad = []
        for wait, want in ((None, 0.5), (0, 0), (0.0, 0.0), (3, 3)):
            for ev_ in (("return", failed()), exc_event(CE[1], CE[2])):
                o = attempt(world(P(rot=True, roe=True, wait=wait)), 0, ev_)
                got = [s_[0] for s_ in o.sleeps]
                if o.kind != "retry" or got != [[want]]:
                    bad.append(f"retry-wait-period {'absent' if wait is None else wait!r}: {o.text()} with sleep arguments {got}, expected one sleep({want!r})")
        return not bad, "; ".join(bad[:2])

    def ob_default_rot():
        bad = []
        for label, cls, status, retryable in RAISED:
            if retryable:
                o = attempt(world(P(rot=None)), 0, exc_event(cls, status))
                if o.kind != "retry":
                    bad.append(f"retry-on-timeout absent: {label} {o.text()}; expected another attempt (default True)")
        return not bad, "; ".join(bad[:2])

    for key_, dflt, fn in (("retry-on-error", False, ob_default_roe), ("retry-wait-period", 0.5, ob_default_wait), ("retry-on-timeout", True, ob_default_rot)):
        decided("O16.1", f"{key_} read with default {dflt}", L, fn)

    def ob_last():
        bad = []
        for retries in (2, 0, 1):
            w = world(P(rot=True, roe=True, retries=retries))
            if w.n == 0:
                return False, f"retries={retries}: no attempt at all"
            for pos in range(min(w.n, 4)):
                final = pos == w.n - 1
                for what, ev_, end in (("a connection error", exc_event(CE[1], CE[2]), "raise"), ("an unsuccessful result", ("return", failed()), "return")):
                    o = attempt(w, pos, ev_)
                    want = end if final else "retry"
                    if o.kind != want or (want == "return" and o.value is not ev_[1]):
                        bad.append(f"retries={retries}, attempt {pos + 1} of {w.n}: {what} {o.text()}; expected {'its own outcome' if final else 'another attempt'}")
        return not bad, "; ".join(bad[:2])

    decided("O16.1", "last == (attempt + 1 == max_attempts), computed before the attempt", L, ob_last)

    # the wrapper is shared by all tasks of an operation type: per-call parameters must not stick to it (an attribute that the call writes AND reads carries one call's value into the next)
    def attr_nodes(ctx):
        out = []
        for f in closure:
            sn = self_name(f)
            logs = {id(x) for st in walk_body(f) if isinstance(st, ast.stmt) and is_logging_stmt(st) for x in ast.walk(st)}
            out += [n for n in walk_body(f) if isinstance(n, ast.Attribute) and isinstance(n.ctx, ctx) and isinstance(n.value, ast.Name) and n.value.id == sn and id(n) not in logs]
        return out

    reads = {n.attr for n in attr_nodes(ast.Load)}
    stores = [n for n in attr_nodes((ast.Store, ast.Del)) if n.attr in reads]
    chk.ob("O16.1", "the call stores nothing on the (shared) wrapper", not stores, stores[0] if stores else call,
           "" if not stores else f"{short(source.enclosing_stmt(stores[0]), 70)}: one task's retry parameters leak into later tasks using the same wrapper")

    # ---- O16.2 / O16.3 outcome classification ------------------------------------------------------------------------------------------------------
    chk.rule("O16.2", "outcome classification per attempt: retry only for {socket timeout, connection error, connection timeout, HTTP 408} under retry-on-timeout and not last, and for a dict "
             "result with success false under retry-on-error and not last; every other exception class raises on all paths; non-dict or successful result returns it; "
             "the last attempt returns/raises exactly its own outcome", 60,
             "a non-retryable error is retried/swallowed, a retryable one is not retried, or the last attempt's outcome is replaced")
    chk.rule("O16.3", "every retry path awaits sleep(retry-wait-period) before the next attempt", 5, "retries hammer the cluster without waiting")
    for nm, h in interp.unknown_classes:
        chk.unknown("O16.2", f"handler names class {nm} that is not in the parsed library hierarchy", h)

    def sleeps_ok(outs):
        return all(len(o.sleeps) == 1 and o.sleeps[0][0] == [WAIT] for o in outs)

    def hname(sel):
        return f"selected handler `except {', '.join(sel[1])}`" if sel else "no handler matches: propagates"

    for label, cls, status, retryable in RAISED:
        for last, rot in itertools.product([False, True], repeat=2):
            want = "retry" if (retryable and rot and not last) else "raise"
            inst = f"{label} | last={last} retry-on-timeout={rot}"
            try:
                # evaluated at every non-last (resp. at the last) attempt of a three-attempt call, whatever retry-on-error says
                outs = [attempt(w, pos, exc_event(cls, status)) for roe in (False, True) for w in [world(P(rot=rot, roe=roe))] for pos in positions(w, last)]
            except CannotEval as e:
                chk.unknown("O16.2", f"the handling of {label} is not a decision over (last, retry-on-timeout, status): {e}", T)
                continue
            if not outs:
                chk.unknown("O16.2", f"{inst}: no such attempt", L)
                continue
            bad = [o for o in outs if o.kind != want]
            o = (bad or outs)[0]
            chk.ob("O16.2", inst, not bad, o.selected[0] if o.selected else T, f"{hname(o.selected)} -> {o.text()}; expected {want}", key=f"{_R}:Retry.__call__:{label}|{last}|{rot}")
            if not bad and want == "retry":
                ok = sleeps_ok(outs)
                chk.ob("O16.3", f"sleep before retrying after {label}", ok, o.selected[0] if o.selected else T,
                       "awaits sleep(<retry-wait-period>)" if ok else f"retries without awaiting the retry-wait-period (awaited sleeps: {[s_[0] for s_ in o.sleeps]}, configured {WAIT})",
                       key=f"{_R}:Retry.__call__:sleep:{label}|{last}|{rot}")
    # return outcomes
    for label, value, isdict, success in RET:
        for last, roe_ in itertools.product([False, True], repeat=2):
            want = "retry" if (isdict and not success and roe_ and not last) else "return"
            inst = f"{label} | last={last} retry-on-error={roe_}"
            try:
                outs = [attempt(w, pos, ("return", value)) for rot in (False, True) for w in [world(P(rot=rot, roe=roe_))] for pos in positions(w, last)]
            except CannotEval as e:
                chk.unknown("O16.2", f"result handling is not a decision over (last, retry-on-error, is dict, success): {e}", T)
                continue
            if not outs:
                chk.unknown("O16.2", f"{inst}: no such attempt", L)
                continue
            bad = [o for o in outs if o.kind != want or (want == "return" and o.value is not value)]
            o = (bad or outs)[0]
            chk.ob("O16.2", inst, not bad, T, f"{o.text()}{'' if o.kind != 'return' or o.value is value else ' something else than the result of this attempt'}; expected {want}"
                   + (" of the attempt's result" if want == "return" else ""), key=f"{_R}:Retry.__call__:{label}|{last}|{roe_}")
            if not bad and want == "retry":
                ok = sleeps_ok(outs)
                chk.ob("O16.3", f"sleep before retrying after {label}", ok, T, "" if ok else f"retries without awaiting the retry-wait-period (awaited sleeps: {[s_[0] for s_ in o.sleeps]}, configured {WAIT})",
                       key=f"{_R}:Retry.__call__:sleep:{label}|{last}|{roe_}")

    # missing 'success' key defaults to success
    def ob_nokey():
        v = {"weight": 1, "unit": "ops"}
        outs = [attempt(world(P(rot=True, roe=True)), pos, ("return", v)) for pos in (0, 1)]
        bad = [o for o in outs if o.kind != "return" or o.value is not v]
        return not bad, "" if not bad else f"a result dict without 'success' {bad[0].text()}; expected: returned"

    decided("O16.2", "a dict without 'success' counts as success", T, ob_nokey)
    # statements after the try in the loop body are part of the evaluated iteration (the tables above run the whole body); what they must not do is attempt again
    after = [st for st in L.body[next((i for i, x in enumerate(L.body) if x is T or any(a is x for a in source.ancestors(T))), len(L.body) - 1) + 1:]]
    again = [st for st in after if contains_delegate(st)]
    chk.ob("O16.2", "no statement after the try in the loop body", not again, again[0] if again else L, "" if not again else "a second call of the delegate in the same iteration")
    # nothing after the loop attempts or waits again (what it returns after `break` / exhaustion is part of the tables above)
    extra = [st for st in list(L.orelse) + tail if contains_delegate(st) or any(isinstance(n, ast.Await) for n in ast.walk(st))]
    chk.ob("O16.2", "nothing after the attempt loop", not extra, extra[0] if extra else L, "" if not extra else f"{short(extra[0], 60)}: an attempt or a wait beyond the configured bound")
    # (O16.1, judged over every attempt evaluated above)
    bad_calls = sorted({n for n in observed_calls if n != 1})
    if observed_calls:
        chk.ob("O16.1", "the delegate is called exactly once per attempt, inside the try", not bad_calls, sites[0],
               f"{len(sites)} call site(s); calls per evaluated iteration: {sorted(set(observed_calls))}")
    else:
        chk.unknown("O16.1", "no iteration of the attempt loop could be evaluated: calls of the delegate per attempt unknown", L)
    # (O16.1) the parameter dict belongs to the caller (a generic parameter source hands out the SAME dict for every invocation): whatever was evaluated above must have left it as it was
    changed = [w for w in worlds.values() if w.params != w.before]
    chk.ob("O16.1", "the wrapper leaves the caller's parameter dict unchanged", not changed, call,
           "" if not changed else f"{changed[0].before} became {changed[0].params}: later invocations with the same dict run with other retry settings")

    # ---- O16.4 shadowing -------------------------------------------------------------------------------------------------------------------------------
    # one instance per arm of the located try: the NUMBER of arms is not part of the property (identical arms merged, one broad arm that classifies by isinstance), so the floor is the
    # hand-confirmed count of the pinned tree (4) only as long as the try has that many arms; the try itself is anchored above (AnchorMissing if it is not found)
    chk.rule("O16.4", "a handler that is completely shadowed by an earlier superclass handler (dead arm) must not classify differently from its shadow", min(4, len(T.handlers)),
             "a classification that can never apply hides the intended behaviour (the decision table above is computed over the handler Python really selects)")
    handlers = [(h, interp.hnames(h)) for h in T.handlers]

    def table_of(h, names):
        rows = []
        for last, rot, is408 in itertools.product([False, True], repeat=3):
            try:
                w = world(P(rot=rot, roe=False))
                o = attempt(w, positions(w, last)[0], exc_event(names[0], 408 if is408 else 500), force=(T, h))
                rows.append(o.kind + ("+sleep" if o.sleeps else ""))
            except (CannotEval, IndexError):
                rows.append("?")
        return rows

    for i, (h, names) in enumerate(handlers):
        shadows = [(hh, pn) for hh, pn in handlers[:i] if all(H.catches(pn, nm) for nm in names)] if i else []
        if not shadows:
            chk.ob("O16.4", f"`except {', '.join(names)}` reachable", True, h, "")
            continue
        same = table_of(h, names) == table_of(*shadows[0])
        chk.ob("O16.4", f"dead arm `except {', '.join(names)}` agrees with its shadow", same, h, "shadowed by an earlier handler" + ("" if same else " that classifies differently"))
        chk.adv("O16.4", f"`except {', '.join(names)}` can never be selected (shadowed by an earlier handler)", h)

    # ---- O16.5 which operations are wrapped ------------------------------------------------------------------------------------------------------
    reg = rn.func("register_default_runners")
    regs_all, reg_unknown = _registrations(rn, reg)

    reg_defs = local_defs(reg)
    reg_funcs = {**modfuncs, **{n.name: n for n in reg.body if isinstance(n, FUNC_TYPES)}}

    def wrapping(e, depth=0):
        """what a registered runner expression is: 'retry' (an instance of the retry wrapper: Retry(...), a subclass, an alias of the class, a factory function that returns one),
        'plain' (an instance of another class of the module, built directly) or None (not recognised)"""
        if not isinstance(e, ast.Call) or depth > 3:
            return None
        f = e.func
        if isinstance(f, ast.Call) and last_attr(f.func) == "partial" and f.args and isinstance(f.args[0], (ast.Name, ast.Attribute)):
            f = f.args[0]  # (the alias already substituted by its definition: functools.partial(Retry, ...)(<runner>))
        if isinstance(f, ast.Name) and f.id not in tab.by_name and f.id not in reg_funcs:
            d = reg_defs.get(f.id) or rn.module_constant(f.id)  # an alias: retryable = Retry / functools.partial(Retry, ...)
            if isinstance(d, ast.Call) and last_attr(d.func) == "partial" and d.args:
                d = d.args[0]
            if isinstance(d, (ast.Name, ast.Attribute)):
                f = d
        name = last_attr(f) if isinstance(f, (ast.Name, ast.Attribute)) else None
        if isinstance(f, ast.Name) and name in reg_funcs:
            binds = source.bind_args(e, reg_funcs[name], skip_self=False)  # (a factory that hands its argument back unwrapped is judged on the argument)
            kinds = {wrapping(source.inline_node(st.value, binds), depth + 1) if st.value is not None else None for st in walk_body(reg_funcs[name]) if isinstance(st, ast.Return)}
            return kinds.pop() if len(kinds) == 1 else None
        cands = tab.by_name.get(name, []) if name else []
        if cands:
            return "retry" if any(c.node is R for k_ in cands for c in tab.mro(k_)) else "plain"
        return None

    def is_retry(e):
        return wrapping(e) == "retry"

    def op_name(e):
        if isinstance(e, ast.Constant) and isinstance(e.value, str):
            return e.value
        if isinstance(e, ast.Call) and isinstance(e.func, ast.Attribute) and e.func.attr == "to_hyphenated_string" and not e.args:
            e = e.func.value
        return re.sub(r"(?<!^)(?=[A-Z])", "-", u(e).split(".")[-1]).lower()

    wrapped = sorted({u(k) for k, v, _ in regs_all if is_retry(v)})
    chk.stats["retry_wrapped_operations"] = wrapped
    if len(wrapped) < 10:
        chk.adv("O16.5", f"only {len(wrapped)} operations are wrapped in Retry by register_default_runners", reg)
    chk.rule("O16.5", "every operation type whose documentation section says `This operation is retryable` is registered as Retry(<runner>) in register_default_runners", 30,
             "the documented retry properties (retries, retry-until-success, ...) are silently ignored for that operation")
    for text, node in reg_unknown:
        chk.unknown("O16.5", text, node)
    chk.use("docs/track.rst")
    doc = repo.text("docs/track.rst").splitlines()
    secs = [(i, doc[i].strip()) for i in range(len(doc) - 1) if doc[i].strip() and re.fullmatch(r"~{3,}", doc[i + 1].strip())]
    marks = [i for i, l in enumerate(doc) if "This operation is :ref:`retryable" in l]
    documented = sorted({[t for i, t in secs if i < r][-1] for r in marks if any(i < r for i, _ in secs)})
    regs = {}
    for k, v, site in regs_all:
        regs[op_name(k)] = (v, site)  # a later registration of the same operation type replaces the earlier one
    for op in documented:
        if op not in regs:
            chk.adv("O16.5", f"documented retryable operation `{op}` has no default registration under that name", reg)
            continue
        v, site = regs[op]
        kind = wrapping(v)
        if kind is None:
            chk.unknown("O16.5", f"`{op}`: the registered runner `{short(v, 60)}` is neither recognised as an instance of the retry wrapper nor as a directly built runner", site)
            continue
        chk.ob("O16.5", f"`{op}` (documented as retryable) is registered through Retry", kind == "retry", site, f"registered runner: {short(v, 70)}", key=f"{_R}:register_default_runners:retry:{op}")

    # ---- O16.6 the retry settings reach the wrapper ----------------------------------------------------------------------------------------------------------
    chk.rule("O16.6", "for every operation documented as retryable the registered parameter source hands the task's own parameters (and with them retries, retry-until-success, "
             "retry-wait-period, retry-on-timeout, retry-on-error) on to the runner: params() forwards self._params (or every retry key)", 30,
             "the operation is wrapped in Retry but always makes exactly one attempt, whatever the track configures")
    pr = repo.module("esrally/track/params.py")
    chk.use(pr)
    ptab = ClassTable(repo, ["esrally/track/params.py"])
    reg_src = {}
    for c in ast.walk(pr.tree):
        if isinstance(c, ast.Call) and last_attr(c.func) == "register_param_source_for_operation" and len(c.args) == 2 and isinstance(c.args[1], ast.Name) and source.enclosing_func(c) is None:
            reg_src[op_name(c.args[0])] = c.args[1].id
    # the attribute that holds the task's parameters: the one ParamSource.__init__(self, track, params, ...) sets from its `params` parameter
    base_init = ptab.get("ParamSource").methods.get("__init__")
    bp = params_of(base_init) if base_init is not None else []
    task_attrs = {n.targets[0].attr for n in walk_body(base_init) if isinstance(n, ast.Assign) and len(n.targets) == 1 and source.is_self_attr(n.targets[0]) and isinstance(n.value, ast.Name)
                  and len(bp) >= 3 and n.value.id == bp[2]} if base_init is not None else set()
    if not task_attrs:
        raise AnchorMissing("the attribute in which ParamSource.__init__ keeps the task's parameters")

    def is_self_params(n, sn):
        # self._params used as a value: dict(self._params), p.update(self._params), {**self._params}, return self._params, copy, iteration over it / over its items()
        return isinstance(n, ast.Attribute) and isinstance(n.value, ast.Name) and n.value.id == sn and n.attr in task_attrs and isinstance(n.ctx, ast.Load) \
            and not isinstance(source.parent(n), ast.Subscript) and not (isinstance(source.parent(n), ast.Attribute) and source.parent(n).attr not in ("copy", "items")) \
            and not (isinstance(source.parent(n), ast.Call) and source.parent(n).func is n)

    def forwards(cname):
        pci = ptab.get(cname)
        f = ptab.method(pci, "params")
        if f is None:
            raise AnchorMissing(f"{cname} has no params()")
        mro = ptab.mro(pci)

        def callee(n, g):
            """the method that a call in g runs: self.m() (MRO-resolved from the registered class), super().m() (from the class after the one that defines g)"""
            if not (isinstance(n, ast.Call) and isinstance(n.func, ast.Attribute)):
                return None
            recv = n.func.value
            if isinstance(recv, ast.Name) and recv.id == (params_of(g) or [""])[0]:
                return ptab.method(pci, n.func.attr)
            if isinstance(recv, ast.Call) and isinstance(recv.func, ast.Name) and recv.func.id == "super" and not recv.args:
                at = next((i for i, c_ in enumerate(mro) if any(v is g for v in c_.methods.values())), None)
                return next((c_.methods[n.func.attr] for c_ in mro[at + 1:] if n.func.attr in c_.methods), None) if at is not None else None
            return None

        # params() together with the helper methods it calls (self.m() and super().m(), MRO-resolved)
        fs, work, seen = [], [f], set()
        while work:
            g = work.pop()
            if id(g) in seen:
                continue
            seen.add(id(g))
            fs.append(g)
            work += [m for m in (callee(n, g) for n in walk_body(g)) if m is not None]
        all_fw = any(is_self_params(n, (params_of(g) or [""])[0]) for g in fs for n in walk_body(g))
        keys = {k.value for g in fs for n in walk_body(g) if isinstance(n, ast.Dict) for k in n.keys if isinstance(k, ast.Constant)}
        keys |= {n.slice.value for g in fs for n in walk_body(g) if isinstance(n, ast.Subscript) and isinstance(n.ctx, ast.Store) and isinstance(n.slice, ast.Constant)}
        ok_ = all_fw or RETRY_KEYS <= keys
        owner = next((c_.name for c_ in mro if "params" in c_.methods), cname)
        if not ok_:
            # "does not forward" is a verdict only when every key of the returned mapping is VISIBLE (a dict display with literal keys, extended by update() with such displays / by
            # results of followed methods / by subscript stores); a result built in any other way (a function of another module, a comprehension, ...) is 'not recognised'
            def visible(v, g, depth=0):
                if depth > 4:
                    return False
                if isinstance(v, ast.Dict):
                    return all((k is not None and isinstance(k, ast.Constant)) or (k is None and visible(x, g, depth + 1)) for k, x in zip(v.keys, v.values))
                if isinstance(v, ast.Call) and isinstance(v.func, ast.Name) and v.func.id == "dict" and len(v.args) <= 1 and all(k.arg for k in v.keywords):
                    return all(visible(a, g, depth + 1) for a in v.args)
                if isinstance(v, ast.Call) and isinstance(v.func, ast.Attribute) and v.func.attr == "copy" and not v.args:
                    return visible(v.func.value, g, depth + 1)
                m = callee(v, g)
                if m is not None:
                    rets = [r for r in walk_body(m) if isinstance(r, ast.Return)]
                    return bool(rets) and all(r.value is not None and visible(r.value, m, depth + 1) for r in rets)
                if isinstance(v, ast.Name) and v.id not in params_of(g):
                    seen_def = False
                    for x in walk_body(g):
                        if not (isinstance(x, ast.Name) and x.id == v.id):
                            continue
                        par = source.parent(x)
                        if isinstance(x.ctx, ast.Store):
                            if isinstance(par, (ast.Assign, ast.AnnAssign)) and getattr(par, "value", None) is not None and (par.target if isinstance(par, ast.AnnAssign) else par.targets[0]) is x \
                                    and visible(par.value, g, depth + 1):
                                seen_def = True
                                continue
                            return False
                        if isinstance(par, ast.Return) or isinstance(par, ast.Subscript) or (isinstance(par, ast.Call) and isinstance(par.func, ast.Name) and par.func.id in ("dict", "len")):
                            continue
                        if isinstance(par, ast.Attribute) and isinstance(source.parent(par), ast.Call) and source.parent(par).func is par:
                            c_ = source.parent(par)
                            if par.attr in ("get", "items", "keys", "values", "copy") or (par.attr == "update" and all(k.arg for k in c_.keywords) and all(visible(a, g, depth + 1) for a in c_.args)):
                                continue
                        return False
                    return seen_def
                return False

            rets = [r for r in walk_body(f) if isinstance(r, ast.Return)]
            if not (rets and all(r.value is not None and visible(r.value, f, 0) for r in rets)):
                raise Unrecognised(f"how {owner}.params() builds its result is not recognised (neither the task's parameters nor the retry keys are seen to reach it, but not every key of the result is visible)")
        return ok_, f"{owner}.params() " + ("forwards self._params" if all_fw else ("names every retry key" if ok_ else f"returns only {sorted(keys, key=str)}"))

    for op in documented:
        cname = reg_src.get(op, "ParamSource")
        try:
            ok_, why = forwards(cname)
        except AnchorMissing as e:
            chk.unknown("O16.6", f"parameter source class {cname} of `{op}` not found: {e}", pr.tree)
            continue
        except Unrecognised as e:
            chk.unknown("O16.6", f"`{op}`: {e}", ptab.method(ptab.get(cname), "params"))
            continue
        chk.ob("O16.6", f"`{op}`: retry settings reach Retry through {cname}", ok_, ptab.method(ptab.get(cname), "params") or ptab.get(cname).node, why,
               key=f"esrally/track/params.py:{cname}.params:forwards-task-params:{op}")

    # ---- O16.7 the defaults that apply to a registered operation are the documented ones ----------------------------------------------------------------
    # "exactly as configured" includes what is configured when the task says NOTHING: the documentation states one set of defaults for all retryable operations (section **Retries**) and,
    # in the section of an operation, where that operation departs from it (it waits until success by default). What applies at run time is decided by how the operation's wrapper is BUILT
    # where it is registered (its constructor settings) and by the wrapper's own code: both are evaluated end to end - the constructor arguments of the registration (through an alias /
    # functools.partial / a factory function) bound to the constructor's parameters, then the wrapper's code on a task without retry parameters.
    chk.rule("O16.7", "for every operation registered through the retry wrapper, a task that sets no retry parameter gets the documented defaults: retries 0 (one attempt), retry-on-timeout on, "
             "retry-on-error off, retry-wait-period 0.5 - and retry-until-success off UNLESS the operation's own documentation section says it waits until success by default, then on "
             "(without bound, an unsuccessful result goes on to the next attempt after the wait period; switched off again by retry-until-success: false). Evaluated on the wrapper as the "
             "registration builds it (constructor settings bound to the constructor's parameters)", 30,
             "an operation silently polls once instead of until success (or for ever instead of once) although the track configures nothing")

    def doc_value(text):
        t = text.strip("`").lower()
        if t in ("true", "false"):
            return t == "true"
        try:
            return int(t)
        except ValueError:
            return float(t)

    doc_defaults = {}
    for l in doc:
        m = re.match(r"\s*\* ``(retr[\w-]+)`` \(optional, defaults? to (``[\w.]+``|[\w.]+)\)", l)
        if m and m.group(1) in RETRY_KEYS and m.group(1) not in doc_defaults:
            try:
                doc_defaults[m.group(1)] = doc_value(m.group(2))
            except ValueError:
                pass
    if set(doc_defaults) != RETRY_KEYS:
        raise AnchorMissing(f"docs/track.rst: documented default of {sorted(RETRY_KEYS - set(doc_defaults))} (`* ``<key>`` (optional, defaults to <value>)`)")

    def section_of(op):
        at = [i for i, t in secs if t == op]
        if len(at) != 1:
            return None
        end = min([i for i, _ in secs if i > at[0]] + [len(doc)])
        return doc[at[0]:end]

    def documented_until_success(op):
        """True / False: what the documentation says about retry-until-success for a task of this operation that does not set it (None: the section talks about the setting in prose
        that is not recognised). Only prose counts (``retry-until-success`` in reST literal quotes), not the JSON examples."""
        sec = section_of(op)
        prose = " ".join(l.strip() for l in (sec or []))
        if "``retry-until-success``" not in prose:
            return doc_defaults["retry-until-success"]
        m = re.search(r"``retry-until-success`` \(optional, defaults? to ``(true|false)``\)", prose)
        if m:
            return m.group(1) == "true"
        for sentence in re.split(r"(?<=[.!?])\s+", prose):
            if "``retry-until-success``" in sentence and re.search(r"``retry-until-success``\s+to\s+``false``", sentence) and re.search(r"\b(disable|turn\w* off|switch\w* off|opt out)\b", sentence):
                return True  # it has to be switched off explicitly: it is on by default
        return None

    def ctor_call(e, depth=0):
        """the constructor call of the retry wrapper that a registered runner expression amounts to (through an alias of the class, functools.partial, a factory function with its parameters
        substituted) and the class it builds; Unrecognised for any other shape"""
        if not isinstance(e, ast.Call) or depth > 3:
            raise Unrecognised(f"`{short(e, 50)}` is not a constructor call")
        f, pre_args, pre_kws = e.func, [], []
        if isinstance(f, ast.Call) and last_attr(f.func) == "partial" and f.args and isinstance(f.args[0], (ast.Name, ast.Attribute)):
            pre_args, pre_kws, f = list(f.args[1:]), list(f.keywords), f.args[0]
        if isinstance(f, ast.Name) and f.id not in tab.by_name and f.id not in reg_funcs:
            d = reg_defs.get(f.id) or rn.module_constant(f.id)
            if isinstance(d, ast.Call) and last_attr(d.func) == "partial" and d.args:
                pre_args, pre_kws, d = list(d.args[1:]), list(d.keywords), d.args[0]
            if isinstance(d, (ast.Name, ast.Attribute)):
                f = d
        name = last_attr(f) if isinstance(f, (ast.Name, ast.Attribute)) else None
        if isinstance(f, ast.Name) and name in reg_funcs:
            fn = reg_funcs[name]
            binds = source.bind_args(e, fn, skip_self=False)
            a_ = fn.args
            allpos = a_.posonlyargs + a_.args
            for p, d in list(zip(allpos[len(allpos) - len(a_.defaults):], a_.defaults)) + [(p, d) for p, d in zip(a_.kwonlyargs, a_.kw_defaults) if d is not None]:
                binds.setdefault(p.arg, d)
            rets = [st for st in walk_body(fn) if isinstance(st, ast.Return)]
            if len(rets) != 1 or rets[0].value is None or any(isinstance(x, ast.Starred) for x in e.args) or any(k.arg is None for k in e.keywords):
                raise Unrecognised(f"factory function {name}() does not return one constructor call")
            return ctor_call(source.inline_node(rets[0].value, {**{k: v_ for k, v_ in local_defs(fn).items() if k not in params_of(fn)}, **binds}), depth + 1)
        kls = next((k_ for k_ in (tab.by_name.get(name, []) if name else []) if any(c.node is R for c in tab.mro(k_))), None)
        if kls is None:
            raise Unrecognised(f"`{short(e, 50)}` does not build the retry wrapper")
        built = ast.Call(func=f, args=pre_args + list(e.args), keywords=pre_kws + list(e.keywords))
        if any(isinstance(x, ast.Starred) for x in built.args) or any(k.arg is None for k in built.keywords):
            raise Unrecognised(f"`{short(e, 50)}`: star arguments")
        return kls, built

    def ctor_settings(e):
        """attr -> value of the constructor settings (everything a constructor of the wrapper's classes stores from a parameter, except the delegate) with which the registered wrapper is
        built; the constructor of a subclass is followed through its one `super().__init__(...)` call (arguments substituted)"""
        kls, built = ctor_call(e)
        mro = tab.mro(kls)
        out, at = {}, 0
        # (only settings that some method of the wrapper reads matter: what a base class keeps for its own purposes is not part of the retry configuration)
        read = {n.attr for c_ in mro for nm, m in c_.methods.items() if nm != "__init__" for n in walk_body(m)
                if isinstance(n, ast.Attribute) and isinstance(n.ctx, ast.Load) and isinstance(n.value, ast.Name) and n.value.id == self_name(m)}
        wanted = {attr for attr in ctor_attr if attr not in called and attr in read}
        for _ in range(6):
            at = next((i for i in range(at, len(mro)) if "__init__" in mro[i].methods), None)
            if at is None:
                raise Unrecognised(f"no constructor of {kls.name} stores {sorted(wanted - set(out))[0]}")
            c, init = mro[at], mro[at].methods["__init__"]
            a_ = init.args
            if a_.kwarg or a_.vararg:
                raise Unrecognised(f"{c.name}.__init__ takes star arguments")
            names = set(params_of(init)[1:]) | {x.arg for x in a_.kwonlyargs}
            if len(built.args) > len(params_of(init)) - 1 or any(k.arg not in names for k in built.keywords):
                raise Unrecognised(f"`{short(e, 50)}`: an argument that is no parameter of {c.name}.__init__")
            bound = source.bind_args(built, init)
            allpos = a_.posonlyargs + a_.args
            for p_, d in list(zip(allpos[len(allpos) - len(a_.defaults):], a_.defaults)) + [(p_, d) for p_, d in zip(a_.kwonlyargs, a_.kw_defaults) if d is not None]:
                bound.setdefault(p_.arg, d)
            for attr in sorted(wanted - set(out)):
                oc, p_, _ = ctor_attr[attr]
                if oc is c:
                    if p_ not in bound:
                        raise Unrecognised(f"`{short(e, 50)}`: no value for `{p_}`")
                    try:
                        out[attr] = mev(bound[p_], {})
                    except CannotEval:
                        raise Unrecognised(f"`{short(e, 50)}`: the value of `{p_}` ({short(bound[p_], 30)}) is not a constant")
            if wanted <= set(out):
                return out
            # the remaining settings are stored by a constructor further up: through the one super().__init__(...) call of this one
            ups = [n for n in walk_body(init) if isinstance(n, ast.Call) and isinstance(n.func, ast.Attribute) and n.func.attr == "__init__"]
            if len(ups) != 1 or source.parent(ups[0]) not in init.body or any(isinstance(x, ast.Starred) for x in ups[0].args) or any(k.arg is None for k in ups[0].keywords):
                raise Unrecognised(f"{c.name}.__init__ does not hand on to the next constructor by one plain super().__init__(...) statement")
            up, recv = ups[0], ups[0].func.value
            sub = {**{k: v_ for k, v_ in local_defs(init).items() if k not in params_of(init)}, **bound}
            args = [source.inline_node(x, sub) for x in up.args]
            if isinstance(recv, ast.Call) and isinstance(recv.func, ast.Name) and recv.func.id == "super" and not recv.args:
                at += 1
            elif isinstance(recv, ast.Name) and any(k_.name == recv.id for k_ in mro[at + 1:]) and args:
                at, args = next(i for i in range(at + 1, len(mro)) if mro[i].name == recv.id), args[1:]  # Base.__init__(self, ...)
            else:
                raise Unrecognised(f"{c.name}.__init__: `{short(up, 40)}`")
            built = ast.Call(func=built.func, args=args, keywords=[ast.keyword(arg=k.arg, value=source.inline_node(k.value, sub)) for k in up.keywords])
        raise Unrecognised(f"constructor chain of {kls.name}")

    behaviours = {}

    def behaviour(ctor, on):
        """what is wrong (list of texts) with a wrapper built with these settings when the task sets no retry parameter and the documentation says retry-until-success is `on` by default"""
        k = (repr(sorted(ctor.items())), on)
        if k in behaviours:
            return behaviours[k]
        D, bad = doc_defaults, []
        wait = [[D["retry-wait-period"]]]

        def sleeps(o):
            return [s_[0] for s_ in o.sleeps]

        w = world({}, ctor)
        if on:
            if not w.unbounded:
                bad.append(f"a task that sets no retry parameter makes at most {w.n} attempt(s); documented: it waits until success by default")
            else:
                o = attempt(w, 0, ("return", failed()), probe=True)
                if o.kind != "retry" or sleeps(o) != wait:
                    bad.append(f"no retry parameter set: an unsuccessful result {o.text()} (sleeps {sleeps(o)}); documented: another attempt after {D['retry-wait-period']} s, until success")
            w0 = world({"retry-until-success": False}, ctor)
            if w0.unbounded or w0.n != D["retries"] + 1:
                bad.append(f"retry-until-success: false makes {'unbounded' if w0.unbounded else w0.n} attempt(s); documented: {D['retries'] + 1}")
        else:
            if w.unbounded or w.n != D["retries"] + 1:
                bad.append(f"a task that sets no retry parameter makes {'attempts without bound' if w.unbounded else f'{w.n} attempt(s)'}; documented: retry-until-success defaults to false, "
                           f"retries to {D['retries']} ({D['retries'] + 1} attempt(s))")
        w1 = world({"retries": 1}, ctor)
        if w1.unbounded or w1.n >= 2:
            o = attempt(w1, 0, exc_event(CE[1], CE[2]), probe=True)
            want = "retry" if D["retry-on-timeout"] else "raise"
            if o.kind != want or (want == "retry" and sleeps(o) != wait):
                bad.append(f"retries: 1 and nothing else set: a connection error at the first attempt {o.text()} (sleeps {sleeps(o)}); documented: retry-on-timeout defaults to "
                           f"{D['retry-on-timeout']}, retry-wait-period to {D['retry-wait-period']}")
            o = attempt(w1, 0, ("return", failed()), probe=True)
            want = "retry" if (on or D["retry-on-error"]) else "return"
            if o.kind != want:
                bad.append(f"retries: 1 and nothing else set: an unsuccessful result at the first attempt {o.text()}; documented: "
                           + ("retry-until-success is on by default and forces retry-on-error" if on else f"retry-on-error defaults to {D['retry-on-error']}"))
        behaviours[k] = bad
        return bad

    def named_elsewhere():
        """places of the package OUTSIDE the wrapper's own code that name the retry-until-success key (a parameter source / a caller that supplies a default of its own): with one of them the
        default that applies to an operation is not decided by the registration alone"""
        own = {id(n) for f in closure for n in ast.walk(f)}
        out = []
        for p in repo.package_files():
            if "retry-until-success" not in repo.text(p):
                continue
            m = repo.module(p)
            docstrings = {id(st.value) for n in ast.walk(m.tree) if isinstance(n, (ast.Module, ast.ClassDef) + FUNC_TYPES) for st in n.body[:1]
                          if isinstance(st, ast.Expr) and isinstance(st.value, ast.Constant)}
            for n in ast.walk(m.tree):
                if not (isinstance(n, ast.Constant) and isinstance(n.value, str) and "retry-until-success" in n.value) or id(n) in own or id(n) in docstrings:
                    continue
                par = source.parent(n)
                # a READ of the key supplies nothing: params.get(key[, d]) / params[key] / key in params
                if isinstance(par, ast.Call) and isinstance(par.func, ast.Attribute) and par.func.attr == "get" and par.args and par.args[0] is n:
                    continue
                if isinstance(par, ast.Subscript) and par.slice is n and isinstance(par.ctx, ast.Load):
                    continue
                if isinstance(par, ast.Compare) and par.left is n and len(par.ops) == 1 and isinstance(par.ops[0], (ast.In, ast.NotIn)):
                    continue
                if isinstance(par, ast.Expr) or is_logging_stmt(source.enclosing_stmt(n)):
                    continue
                out.append(n)
        return out

    elsewhere = None
    for op in sorted(regs):
        v, site = regs[op]
        if wrapping(v) != "retry":
            continue
        on = documented_until_success(op) if section_of(op) is not None else doc_defaults["retry-until-success"]
        if on is None:
            chk.unknown("O16.7", f"`{op}`: what its documentation section says about ``retry-until-success`` is not recognised (neither `defaults to` nor `set ... to ``false`` to disable`)", site)
            continue
        try:
            ctor = ctor_settings(v)
            bad = behaviour(ctor, on)
        except Unrecognised as e:
            chk.unknown("O16.7", f"`{op}`: how the registered wrapper is built is not recognised ({e})", site)
            continue
        except CannotEval as e:
            chk.unknown("O16.7", f"`{op}`: the registered wrapper is not evaluable on a task without retry parameters ({e})", site)
            continue
        if bad:
            if elsewhere is None:
                elsewhere = named_elsewhere()
            if elsewhere:
                chk.unknown("O16.7", f"`{op}`: {bad[0]} - but {source.loc(elsewhere[0])} names the setting outside the wrapper: where the default of this operation comes from is not recognised", site)
                continue
        chk.ob("O16.7", f"`{op}`: without retry parameters the registered wrapper applies the documented defaults (retry-until-success {'on' if on else 'off'} by default)", not bad, site,
               f"registered runner: {short(v, 70)}" + (f" built with {ctor}" if ctor else "") + ("; " + "; ".join(bad[:2]) if bad else ""),
               key=f"{_R}:register_default_runners:retry-defaults:{op}")

    # ---- O16.8 the logging configuration is an environment input ------------------------------------------------------------------------------------------
    chk.rule("O16.8", "what the wrapper does per attempt - next attempt / return / raise, the value returned, the awaited sleep(retry-wait-period), the calls of the delegate, the frame at the attempt "
             "loop - is the same under every answer of the logging configuration: a query of the logger's level (isEnabledFor / getEffectiveLevel / .level) is an environment input "
             f"(levels {(_LOG_STOCK,) + _LOG_OTHER} evaluated), logging may only decide what is logged", 1,
             "with a user-edited logging.json (or Python's default WARNING) retries happen without the wait, more or fewer attempts are made, or another result comes back")
    for q in {id(n): n for n, _ in divergences}.values():
        query_sites.setdefault(id(q), q)
    chk.ob("O16.8", "every evaluated attempt (and the code up to the attempt loop) does the same at every logging level", not divergences, divergences[0][0] if divergences else L,
           (f"{len(query_sites)} level query site(s) consulted by the evaluated attempts" if not divergences else
            f"`{short(divergences[0][0], 60)}` decides more than logging: {divergences[0][1]}" + (f" (+{len(divergences) - 1} more)" if len(divergences) > 1 else "")),
           key=f"{_R}:Retry.__call__:logging-independent")
    for q in query_sites.values():
        mine = [t for n, t in divergences if n is q]
        chk.ob("O16.8", f"level query `{short(q, 50)}` guards nothing but logging", not mine, q, "" if not mine else mine[0], key=f"{_R}:Retry.__call__:logging-independent:{short(q, 50)}")


from sa.selftest import V  # noqa: E402

_SETTINGS = ("        retry_until_success = params.get(\"retry-until-success\", self.retry_until_success)\n        if retry_until_success:\n            max_attempts = sys.maxsize\n"
             "            retry_on_error = True\n        else:\n            max_attempts = params.get(\"retries\", 0) + 1\n            retry_on_error = params.get(\"retry-on-error\", False)\n"
             "        sleep_time = params.get(\"retry-wait-period\", 0.5)\n        retry_on_timeout = params.get(\"retry-on-timeout\", True)\n")
_REPR = "    def __repr__(self, *args, **kwargs):\n        return \"retryable %s\" % repr(self.delegate)"
_REG2 = ("    register_runner(track.OperationType.ClusterHealth, Retry(ClusterHealth()), async_runner=True)\n"
         "    register_runner(track.OperationType.PutPipeline, Retry(PutPipeline()), async_runner=True)\n")
_RESULT = ("                elif isinstance(return_value, dict):\n                    if return_value.get(\"success\", True):\n"
           "                        self.logger.debug(\"%s has returned successfully\", repr(self.delegate))\n                        return return_value\n                    else:\n"
           "                        self.logger.info(\n                            \"[%s] has returned with an error: %s. Retrying in [%.2f] seconds.\",\n                            repr(self.delegate),\n"
           "                            return_value,\n                            sleep_time,\n                        )\n                        await asyncio.sleep(sleep_time)\n"
           "                else:\n                    return return_value\n")
_RESULT_NEW = ("                elif self._has_failed(return_value):\n                    self.logger.info(\"[%s] has returned with an error: %s. Retrying in [%.2f] seconds.\", repr(self.delegate), return_value, sleep_time)\n"
               "                    await asyncio.sleep(sleep_time)\n                else:\n                    return return_value\n")
_CMT = "                # we can determine success if and only if the runner returns a dict. Otherwise, we have to assume it was fine.\n"
_HAS_FAILED = "    @staticmethod\n    def _has_failed(return_value):\n        return isinstance(return_value, dict) and not return_value.get(\"success\", True)\n\n"


def _helper(retries='params.get("retries", 0) + 1', forced="True"):
    return ("    def _retry_settings(self, params):\n        if params.get(\"retry-until-success\", self.retry_until_success):\n            max_attempts = sys.maxsize\n"
            f"            retry_on_error = {forced}\n        else:\n            max_attempts = {retries}\n            retry_on_error = params.get(\"retry-on-error\", False)\n"
            "        sleep_time = params.get(\"retry-wait-period\", 0.5)\n        retry_on_timeout = params.get(\"retry-on-timeout\", True)\n"
            "        return max_attempts, retry_on_error, retry_on_timeout, sleep_time\n\n")


_DC = ("from dataclasses import dataclass\n\n\n@dataclass(frozen=True)\nclass RetrySettings:\n    max_attempts: int\n    wait_period: float\n    retry_on_timeout: bool\n    retry_on_error: bool\n\n"
       "    @classmethod\n    def from_params(cls, params, retry_until_success=False):\n        if params.get(\"retry-until-success\", retry_until_success):\n            max_attempts = sys.maxsize\n"
       "            retry_on_error = True\n        else:\n            max_attempts = params.get(\"retries\", 0) + 1\n            retry_on_error = params.get(\"retry-on-error\", False)\n"
       "        return cls(\n            max_attempts=max_attempts,\n            wait_period=params.get(\"retry-wait-period\", 0.5),\n            retry_on_timeout=params.get(\"retry-on-timeout\", True),\n"
       "            retry_on_error=retry_on_error,\n        )\n\n\n")
_POLICY = ("class RetryPolicy:\n    def __init__(self, params, unbounded_by_default):\n        self._unbounded = params.get(\"retry-until-success\", unbounded_by_default)\n"
           "        self._retries = params.get(\"retries\", 0)\n        self.on_error = True if self._unbounded else params.get(\"retry-on-error\", False)\n"
           "        self.on_timeout = params.get(\"retry-on-timeout\", True)\n        self.pause = params.get(\"retry-wait-period\", 0.5)\n\n"
           "    @property\n    def limit(self):\n        return sys.maxsize if self._unbounded else self._retries + 1\n\n"
           "    def is_last(self, attempt):\n        return attempt + 1 == self.limit\n\n\n")
_CLS = "class Retry(Runner, Delegator):\n"
_REG_GAS = "    register_runner(track.OperationType.GetAsyncSearch, Retry(GetAsyncSearch(), retry_until_success=True), async_runner=True)\n"
_REG_CH = "    register_runner(track.OperationType.ClusterHealth, Retry(ClusterHealth()), async_runner=True)\n"
_PS_OLD = ("        p = {}\n        # ensure we pass all parameters...\n        p.update(self._params)\n        p.update(\n            {\n                \"indices\": self.index_definitions,\n"
           "                \"request-params\": self.request_params,\n            }")
_NT_UNPACK = "        max_attempts, sleep_time, retry_on_timeout, retry_on_error = _retry_plan(params, self.retry_until_success)\n"


def _nt(decl, build="RetryPlan(max_attempts, params.get(\"retry-wait-period\", 0.5), params.get(\"retry-on-timeout\", True), retry_on_error)"):
    return (decl + "def _retry_plan(params, unbounded_by_default):\n    if params.get(\"retry-until-success\", unbounded_by_default):\n        max_attempts, retry_on_error = sys.maxsize, True\n"
            "    else:\n        max_attempts, retry_on_error = params.get(\"retries\", 0) + 1, params.get(\"retry-on-error\", False)\n"
            f"    return {build}\n\n\n")


_NT_CLASS = "class RetryPlan(typing.NamedTuple):\n    max_attempts: int\n    wait_period: float\n    retry_on_timeout: bool\n    retry_on_error: bool = False\n\n\n"
_NT_CALL = "RetryPlan = collections.namedtuple(\"RetryPlan\", \"max_attempts wait_period retry_on_timeout retry_on_error\")\n\n\n"
_WAIT = "    async def wait(self):\n        await asyncio.sleep(self.pause)\n\n\n"
_ARMS = r"            except \(socket\.timeout, elasticsearch\.exceptions\.ConnectionError\):.*?never retry it\n                raise e\n"
_ONE_ARM = "            except Exception as e:\n                if last_attempt or not retry_on_timeout or not self._is_timeout(e):\n                    raise\n                await asyncio.sleep(sleep_time)\n"


def _is_timeout(api="return e.status_code == 408", classes="(socket.timeout, elasticsearch.exceptions.ConnectionError, elasticsearch.exceptions.ConnectionTimeout)"):
    return ("    @staticmethod\n    def _is_timeout(e):\n        # pylint: disable=import-outside-toplevel\n        import socket\n\n        import elasticsearch\n\n"
            f"        if isinstance(e, elasticsearch.ApiError):\n            {api}\n        return isinstance(e, {classes})\n\n")


_CONN_ARM = "                if last_attempt or not policy.on_timeout:\n                    raise\n                await asyncio.sleep(policy.pause)"


def _settings_object(kind, rule, cls_text, ctor="settings = RetrySettings.from_params(params, self.retry_until_success)", names=("settings.max_attempts", "settings.retry_on_error", "settings.wait_period", "settings.retry_on_timeout"),
                     last=None, then=None):
    """the retry settings live in an object of another class of the module; the loop reads its attributes (the shape of benign/C16-b7)"""
    a, e, w, t = names
    out = [V("", kind, _R, _SETTINGS, f"        {ctor}\n", rule)]
    if last is not None:
        out.append(V("", kind, _R, "            last_attempt = attempt + 1 == max_attempts\n", f"            last_attempt = {last}\n", rule))
    out += [V("", kind, _R, r"\bmax_attempts\b", a, rule, count=2 if last is None else 1, regex=True), V("", kind, _R, r"\bretry_on_error\b", e, rule, count=1, regex=True),
            V("", kind, _R, r"\bsleep_time\b", w, rule, count=7, regex=True), V("", kind, _R, r"\bretry_on_timeout\b", t, rule, count=3, regex=True),
            V("", kind, _R, _CLS, cls_text + _CLS, rule)]
    if then is not None:
        out.append(V("", kind, _R, then[0], then[1], rule))
    return out


def _named(name, edits):
    edits[0].name = name
    return edits


def _while(name, kind, rule, init, test, first, last, end=None, then=None):
    """the attempt loop as a `while` loop that keeps its own count"""
    out = [V(name, kind, _R, "        for attempt in range(max_attempts):\n            last_attempt = attempt + 1 == max_attempts\n",
             f"        {init}\n        while {test}:\n" + (f"            {first}\n" if first else "") + f"            last_attempt = {last}\n", rule)]
    if end:
        out.append(V("", kind, _R, "                raise e\n\n    async def __aexit__", f"                raise e\n            {end}\n\n    async def __aexit__", rule))
    if then:
        out.append(V("", kind, _R, then[0], then[1], rule))
    return out


_POLICY_NAMES = ("policy.limit", "policy.on_error", "policy.pause", "policy.on_timeout")
_LOOP = "        for attempt in range(max_attempts):\n            last_attempt = attempt + 1 == max_attempts\n"


def _counted(name, kind, rule=None, none="None", unbounded="itertools.count()", bounded="range(max_attempts)", last="max_attempts is not None and attempt + 1 == max_attempts", loop="attempts", extra="", target="attempt"):
    """the attempt numbers are a value chosen before the loop: an unbounded counter under retry-until-success (no pseudo bound sys.maxsize), a range otherwise (the shape of benign/C16-b9)"""
    settings = ("        retry_until_success = params.get(\"retry-until-success\", self.retry_until_success)\n        if retry_until_success:\n"
                f"            max_attempts = {none}\n            attempts = {unbounded}\n            retry_on_error = True\n        else:\n"
                f"            max_attempts = params.get(\"retries\", 0) + 1\n            attempts = {bounded}\n            retry_on_error = params.get(\"retry-on-error\", False)\n"
                "        sleep_time = params.get(\"retry-wait-period\", 0.5)\n        retry_on_timeout = params.get(\"retry-on-timeout\", True)\n")
    return [V(name, kind, _R, "import contextvars\n", "import contextvars\nimport itertools\n", rule), V("", kind, _R, _SETTINGS, settings, rule),
            V("", kind, _R, _LOOP, f"        for {target} in {loop}:\n            last_attempt = {last}\n{extra}", rule)]

_LOG_ARM = ("                    else:\n                        self.logger.info(\n                            \"[%s] has returned with an error: %s. Retrying in [%.2f] seconds.\",\n"
            "                            repr(self.delegate),\n                            return_value,\n                            sleep_time,\n                        )\n"
            "                        await asyncio.sleep(sleep_time)\n")
_LOG_408 = ("                if e.status_code == 408:\n                    self.logger.info(\"[%s] has timed out. Retrying in [%.2f] seconds.\", repr(self.delegate), sleep_time)\n"
            "                    await asyncio.sleep(sleep_time)\n")
_LOG_TMO = "\n\n                self.logger.info(\"[%s] has timed out. Retrying in [%.2f] seconds.\", repr(self.delegate), sleep_time)\n"

VARIANTS = [
    V("F6: other transport errors swallowed", "break", _R, "                # any other transport error (e.g. a serialization error) is neither a timeout nor a connection error: never retry it\n                raise e",
      "                if last_attempt or not retry_on_timeout:\n                    raise e", "O16.2"),
    V("retries without + 1", "break", _R, "            max_attempts = params.get(\"retries\", 0) + 1", "            max_attempts = params.get(\"retries\", 0)", "O16.1"),
    V("last computed wrongly", "break", _R, "            last_attempt = attempt + 1 == max_attempts", "            last_attempt = attempt == max_attempts", "O16.1"),
    V("sleep removed from connection-error arm", "break", _R, "                if last_attempt or not retry_on_timeout:\n                    raise\n                await asyncio.sleep(sleep_time)", "                if last_attempt or not retry_on_timeout:\n                    raise", "O16.3"),
    V("408 test removed", "break", _R, "                if e.status_code == 408:\n                    self.logger.info(\"[%s] has timed out. Retrying in [%.2f] seconds.\", repr(self.delegate), sleep_time)\n                    await asyncio.sleep(sleep_time)\n                else:\n                    raise e",
      "                self.logger.info(\"[%s] has timed out. Retrying in [%.2f] seconds.\", repr(self.delegate), sleep_time)\n                await asyncio.sleep(sleep_time)", "O16.2"),
    V("unsuccessful result returned although retry-on-error", "break", _R, "                        await asyncio.sleep(sleep_time)\n                else:\n                    return return_value\n            except (socket.timeout",
      "                        return return_value\n                else:\n                    return return_value\n            except (socket.timeout", "O16.2"),
    V("superclass arm first shadows timeouts", "break", _R, "            except (socket.timeout, elasticsearch.exceptions.ConnectionError):\n                if last_attempt or not retry_on_timeout:\n                    raise\n                await asyncio.sleep(sleep_time)",
      "            except elasticsearch.exceptions.TransportError:\n                raise\n            except (socket.timeout, elasticsearch.exceptions.ConnectionError):\n                if last_attempt or not retry_on_timeout:\n                    raise\n                await asyncio.sleep(sleep_time)", "O16."),
    V("retry on timeout ignores the flag", "break", _R, "            except elasticsearch.exceptions.ConnectionTimeout as e:\n                if last_attempt or not retry_on_timeout:", "            except elasticsearch.exceptions.ConnectionTimeout as e:\n                if last_attempt:", "O16.2"),
    V("last attempt result retried", "break", _R, "                if last_attempt or not retry_on_error:\n                    return return_value", "                if not retry_on_error:\n                    return return_value", "O16.2"),
    V("default retry-on-timeout False", "break", _R, "        retry_on_timeout = params.get(\"retry-on-timeout\", True)", "        retry_on_timeout = params.get(\"retry-on-timeout\", False)", "O16.1"),
    V("bare except retries everything", "break", _R, "            except elasticsearch.exceptions.TransportError as e:\n                # any other", "            except Exception as e:\n                if not last_attempt:\n                    continue\n                # any other", "O16.2"),
    V("seed m2: parameter sticks to the shared wrapper", "break", _R, "        retry_until_success = params.get(\"retry-until-success\", self.retry_until_success)\n        if retry_until_success:", "        self.retry_until_success = params.get(\"retry-until-success\", self.retry_until_success)\n        if self.retry_until_success:", "O16.1"),
    V("seed m3: zero wait period replaced by the default", "break", _R, "        sleep_time = params.get(\"retry-wait-period\", 0.5)", "        sleep_time = params.get(\"retry-wait-period\") or 0.5", "O16.1"),
    # preserving
    V("merge the identical timeout arms", "keep", _R, "            except (socket.timeout, elasticsearch.exceptions.ConnectionError):", "            except (socket.timeout, elasticsearch.exceptions.ConnectionError, elasticsearch.exceptions.ConnectionTimeout):"),
    V("bare raise instead of raise e", "keep", _R, "                # any other transport error (e.g. a serialization error) is neither a timeout nor a connection error: never retry it\n                raise e", "                raise"),
    V("inverted 408 test", "keep", _R, "                if e.status_code == 408:\n                    self.logger.info(\"[%s] has timed out. Retrying in [%.2f] seconds.\", repr(self.delegate), sleep_time)\n                    await asyncio.sleep(sleep_time)\n                else:\n                    raise e",
      "                if e.status_code != 408:\n                    raise e\n                self.logger.info(\"[%s] has timed out. Retrying in [%.2f] seconds.\", repr(self.delegate), sleep_time)\n                await asyncio.sleep(sleep_time)"),
    # ---- refactored shapes (benign round): the same property in another spelling must stay silent, a defect INSIDE the refactored shape must still be reported
    [V("settings extracted into a helper method returning a tuple", "keep", _R, _SETTINGS, "        max_attempts, retry_on_error, retry_on_timeout, sleep_time = self._retry_settings(params)\n"),
     V("", "keep", _R, _REPR, _helper() + _REPR)],
    [V("extracted settings helper forgets the + 1", "break", _R, _SETTINGS, "        max_attempts, retry_on_error, retry_on_timeout, sleep_time = self._retry_settings(params)\n", "O16.1"),
     V("", "break", _R, _REPR, _helper(retries='params.get("retries", 0)') + _REPR)],
    [V("extracted settings helper lets retry-on-error override retry-until-success", "break", _R, _SETTINGS, "        max_attempts, retry_on_error, retry_on_timeout, sleep_time = self._retry_settings(params)\n", "O16.1"),
     V("", "break", _R, _REPR, _helper(forced='params.get("retry-on-error", True)') + _REPR)],
    [V("extracted settings helper returns the tuple in another order than the caller unpacks", "break", _R, _SETTINGS, "        max_attempts, retry_on_timeout, retry_on_error, sleep_time = self._retry_settings(params)\n", "O16."),
     V("", "break", _R, _REPR, _helper() + _REPR)],
    [V("unsuccessful-result test extracted into a static helper", "keep", _R, _RESULT, _RESULT_NEW),
     V("", "keep", _R, _REPR, _HAS_FAILED + _REPR)],
    [V("extracted result helper treats a missing 'success' as failure", "break", _R, _RESULT, _RESULT_NEW, "O16.2"),
     V("", "break", _R, _REPR, _HAS_FAILED.replace('.get("success", True)', '.get("success")') + _REPR)],
    [V("extracted result helper also fails non-dict results", "break", _R, _RESULT, _RESULT_NEW, "O16.2"),
     V("", "break", _R, _REPR, _HAS_FAILED.replace("isinstance(return_value, dict) and not", "not isinstance(return_value, dict) or not") + _REPR)],
    V("1-based attempt counter", "keep", _R, "        for attempt in range(max_attempts):\n            last_attempt = attempt + 1 == max_attempts",
      "        for attempt in range(1, max_attempts + 1):\n            last_attempt = attempt == max_attempts"),
    V("1-based attempt counter with the 0-based last-attempt test", "break", _R, "        for attempt in range(max_attempts):\n            last_attempt = attempt + 1 == max_attempts",
      "        for attempt in range(1, max_attempts + 1):\n            last_attempt = attempt + 1 == max_attempts", "O16."),
    V("1-based attempt counter that starts at 1 but still stops at max_attempts", "break", _R, "        for attempt in range(max_attempts):\n            last_attempt = attempt + 1 == max_attempts",
      "        for attempt in range(1, max_attempts):\n            last_attempt = attempt + 1 == max_attempts", "O16.1"),
    V("last attempt recognised inline, no flag", "keep", _R, "            last_attempt = attempt + 1 == max_attempts\n", "            last_attempt = max_attempts - attempt <= 1\n"),
    V("attempt loop moved into a helper coroutine", "keep", _R, "        for attempt in range(max_attempts):\n",
      "        return await self._attempts(es, params, max_attempts, retry_on_error, sleep_time, retry_on_timeout)\n\n"
      "    async def _attempts(self, es, params, max_attempts, retry_on_error, sleep_time, retry_on_timeout):\n        # pylint: disable=import-outside-toplevel\n        import socket\n\n"
      "        import elasticsearch\n\n        for attempt in range(max_attempts):\n"),
    V("attempt loop moved into a helper coroutine, two switches swapped at the call", "break", _R, "        for attempt in range(max_attempts):\n",
      "        return await self._attempts(es, params, max_attempts, retry_on_timeout, sleep_time, retry_on_error)\n\n"
      "    async def _attempts(self, es, params, max_attempts, retry_on_error, sleep_time, retry_on_timeout):\n        # pylint: disable=import-outside-toplevel\n        import socket\n\n"
      "        import elasticsearch\n\n        for attempt in range(max_attempts):\n", "O16."),
    [V("wait extracted into a helper coroutine", "keep", _R, "                if last_attempt or not retry_on_timeout:\n                    raise\n                await asyncio.sleep(sleep_time)",
       "                if last_attempt or not retry_on_timeout:\n                    raise\n                await self._pause(sleep_time)"),
     V("", "keep", _R, _REPR, "    async def _pause(self, seconds):\n        self.logger.debug(\"Waiting [%.2f] seconds.\", seconds)\n        await asyncio.sleep(seconds)\n\n" + _REPR)],
    [V("wait helper coroutine called without await", "break", _R, "                if last_attempt or not retry_on_timeout:\n                    raise\n                await asyncio.sleep(sleep_time)",
       "                if last_attempt or not retry_on_timeout:\n                    raise\n                self._pause(sleep_time)", "O16.3"),
     V("", "break", _R, _REPR, "    async def _pause(self, seconds):\n        self.logger.debug(\"Waiting [%.2f] seconds.\", seconds)\n        await asyncio.sleep(seconds)\n\n" + _REPR)],
    [V("wait helper sleeps a fixed period", "break", _R, "                if last_attempt or not retry_on_timeout:\n                    raise\n                await asyncio.sleep(sleep_time)",
       "                if last_attempt or not retry_on_timeout:\n                    raise\n                await self._pause(sleep_time)", "O16.3"),
     V("", "break", _R, _REPR, "    async def _pause(self, seconds):\n        self.logger.debug(\"Waiting [%.2f] seconds.\", seconds)\n        await asyncio.sleep(0.5)\n\n" + _REPR)],
    [V("attempt counter kept on the wrapper, never read by the call", "keep", _R, "            last_attempt = attempt + 1 == max_attempts\n", "            last_attempt = attempt + 1 == max_attempts\n            self.attempts_made += 1\n"),
     V("", "keep", _R, "        self.retry_until_success = retry_until_success\n", "        self.retry_until_success = retry_until_success\n        self.attempts_made = 0\n")],
    V("retry parameters read through a copy of the parameter dict", "keep", _R, "        retry_until_success = params.get(\"retry-until-success\", self.retry_until_success)\n",
      "        settings = dict(params)\n        retry_until_success = settings.pop(\"retry-until-success\", self.retry_until_success)\n"),
    V("log line after the try in the loop body", "keep", _R, "                raise e\n\n    async def __aexit__", "                raise e\n            self.logger.debug(\"Attempt [%d] did not succeed.\", attempt + 1)\n\n    async def __aexit__"),
    V("second delegate call after the loop", "break", _R, "                raise e\n\n    async def __aexit__", "                raise e\n        return await self.delegate(es, params)\n\n    async def __aexit__", "O16.2"),
    V("table-driven registration of retry-wrapped runners", "keep", _R, _REG2,
      "    administrative_runners = {\n        track.OperationType.ClusterHealth: ClusterHealth(),\n        track.OperationType.PutPipeline: PutPipeline(),\n    }\n"
      "    for operation_type, administrative_runner in administrative_runners.items():\n        register_runner(operation_type, Retry(administrative_runner), async_runner=True)\n"),
    V("table-driven registration that forgets the Retry wrapper", "break", _R, _REG2,
      "    administrative_runners = {\n        track.OperationType.ClusterHealth: ClusterHealth(),\n        track.OperationType.PutPipeline: PutPipeline(),\n    }\n"
      "    for operation_type, administrative_runner in administrative_runners.items():\n        register_runner(operation_type, administrative_runner, async_runner=True)\n", "O16.5"),
    V("table-driven registration over a list of pairs, one entry not wrapped", "break", _R, _REG2,
      "    for operation_type, administrative_runner in [(track.OperationType.ClusterHealth, Retry(ClusterHealth())), (track.OperationType.PutPipeline, PutPipeline())]:\n"
      "        register_runner(operation_type, administrative_runner, async_runner=True)\n", "O16.5"),
    V("registration through a local helper function", "keep", _R, _REG2,
      "    def register_retryable(operation_type, runner):\n        register_runner(operation_type, Retry(runner), async_runner=True)\n\n"
      "    register_retryable(track.OperationType.ClusterHealth, ClusterHealth())\n    register_retryable(track.OperationType.PutPipeline, PutPipeline())\n"),
    V("registration of runners built by a local factory function that wraps them", "keep", _R, _REG2,
      "    def retryable(runner):\n        return Retry(runner)\n\n"
      "    register_runner(track.OperationType.ClusterHealth, retryable(ClusterHealth()), async_runner=True)\n    register_runner(track.OperationType.PutPipeline, retryable(PutPipeline()), async_runner=True)\n"),
    V("registration of runners built by a local factory function that hands them back unwrapped", "break", _R, _REG2,
      "    def retryable(runner):\n        return runner\n\n"
      "    register_runner(track.OperationType.ClusterHealth, retryable(ClusterHealth()), async_runner=True)\n    register_runner(track.OperationType.PutPipeline, retryable(PutPipeline()), async_runner=True)\n", "O16.5"),
    V("registration through an alias of the wrapper class, operation types as documented strings", "keep", _R, _REG2,
      "    with_retries = Retry\n"
      "    register_runner(\"cluster-health\", with_retries(ClusterHealth()), async_runner=True)\n    register_runner(track.OperationType.PutPipeline.to_hyphenated_string(), with_retries(PutPipeline()), async_runner=True)\n"),
    V("settings as conditional expressions", "keep", _R, _SETTINGS.split("        sleep_time")[0],
      "        rus = params.get(\"retry-until-success\", self.retry_until_success)\n        max_attempts = sys.maxsize if rus else params.get(\"retries\", 0) + 1\n"
      "        retry_on_error = rus or params.get(\"retry-on-error\", False)\n"),
    V("settings as conditional expressions, retry-on-error may switch the forced retry off", "break", _R, _SETTINGS.split("        sleep_time")[0],
      "        rus = params.get(\"retry-until-success\", self.retry_until_success)\n        max_attempts = sys.maxsize if rus else params.get(\"retries\", 0) + 1\n"
      "        retry_on_error = params.get(\"retry-on-error\", rus)\n", "O16.1"),
    V("result handling as merged guard clause", "keep", _R, _RESULT, "                if not isinstance(return_value, dict) or return_value.get(\"success\", True):\n                    return return_value\n"
      "                await asyncio.sleep(sleep_time)\n"),
    V("result handling as merged guard clause, wait forgotten", "break", _R, _RESULT, "                if not isinstance(return_value, dict) or return_value.get(\"success\", True):\n                    return return_value\n", "O16.3"),
    [V("result handling in the else clause of the try", "keep", _R, "                if last_attempt or not retry_on_error:\n                    return return_value\n" + _CMT + _RESULT, ""),
     V("", "keep", _R, "                raise e\n\n    async def __aexit__", "                raise e\n            else:\n                if last_attempt or not retry_on_error:\n                    return return_value\n"
       "                if not isinstance(return_value, dict) or return_value.get(\"success\", True):\n                    return return_value\n                await asyncio.sleep(sleep_time)\n\n    async def __aexit__")],
    [V("success leaves the loop with break, the result is returned after the loop", "keep", _R, _RESULT, "                if not isinstance(return_value, dict) or return_value.get(\"success\", True):\n                    break\n"
       "                await asyncio.sleep(sleep_time)\n"),
     V("", "keep", _R, "                if last_attempt or not retry_on_error:\n                    return return_value\n", "                if last_attempt or not retry_on_error:\n                    break\n"),
     V("", "keep", _R, "                raise e\n\n    async def __aexit__", "                raise e\n        return return_value\n\n    async def __aexit__")],
    [V("success leaves the loop with break, but None is returned after the loop", "break", _R, _RESULT, "                if not isinstance(return_value, dict) or return_value.get(\"success\", True):\n                    break\n"
       "                await asyncio.sleep(sleep_time)\n", "O16.2"),
     V("", "break", _R, "                if last_attempt or not retry_on_error:\n                    return return_value\n", "                if last_attempt or not retry_on_error:\n                    break\n")],
    [V("handler classes in a local tuple", "keep", _R, "        for attempt in range(max_attempts):\n", "        connection_problems = (socket.timeout, elasticsearch.exceptions.ConnectionError)\n        for attempt in range(max_attempts):\n"),
     V("", "keep", _R, "            except (socket.timeout, elasticsearch.exceptions.ConnectionError):", "            except connection_problems:")],
    V("the last attempt's transport error is wrapped in another exception", "break", _R,
      "                # any other transport error (e.g. a serialization error) is neither a timeout nor a connection error: never retry it\n                raise e",
      "                raise exceptions.RallyError(\"transport error\") from e", "O16.2"),
    V("validation guard before the attempt loop", "keep", _R, "        for attempt in range(max_attempts):\n",
      "        if max_attempts < 1:\n            raise exceptions.RallyAssertionError(\"retries must not be negative\")\n        for attempt in range(max_attempts):\n"),
    # ---- hardening round 3: the settings live in an object of ANOTHER class of the module (dataclass with an alternative constructor, class with __init__ / property / method)
    _named("retry settings in a frozen dataclass built by a classmethod, read as attributes in the loop", _settings_object("keep", None, _DC)),
    _named("settings dataclass: alternative constructor forgets the + 1", _settings_object("break", "O16.1", _DC.replace('params.get("retries", 0) + 1', 'params.get("retries", 0)'))),
    _named("settings dataclass: alternative constructor does not force retry-on-error", _settings_object("break", "O16.1", _DC.replace("retry_on_error = True", 'retry_on_error = params.get("retry-on-error", False)'))),
    _named("settings dataclass: the two switches are swapped in the constructor call", _settings_object(
        "break", "O16.", _DC.replace('retry_on_timeout=params.get("retry-on-timeout", True)', "retry_on_timeout=retry_on_error").replace("retry_on_error=retry_on_error,", 'retry_on_error=params.get("retry-on-timeout", True),'))),
    _named("settings dataclass: built positionally in another order than the fields are declared", _settings_object(
        "break", "O16.", _DC.replace("max_attempts=max_attempts,", "max_attempts,").replace('wait_period=params.get("retry-wait-period", 0.5)', 'params.get("retry-on-timeout", True)')
        .replace('retry_on_timeout=params.get("retry-on-timeout", True)', 'params.get("retry-wait-period", 0.5)').replace("retry_on_error=retry_on_error,", "retry_on_error,"))),
    _named("settings dataclass: wait period is a field default that the constructor never overrides", _settings_object(
        "break", "O16.", _DC.replace("    wait_period: float\n    retry_on_timeout: bool\n    retry_on_error: bool\n", "    retry_on_timeout: bool\n    retry_on_error: bool\n    wait_period: float = 0.5\n")
        .replace('            wait_period=params.get("retry-wait-period", 0.5),\n', ""))),
    _named("settings dataclass (not frozen): the bound is decremented inside the loop", _settings_object(
        "break", "O16.1", _DC.replace("@dataclass(frozen=True)", "@dataclass"), then=("            last_attempt = attempt + 1 == settings.max_attempts\n", "            last_attempt = attempt + 1 == settings.max_attempts\n            settings.max_attempts -= 1\n"))),
    _named("retry settings in a plain class: __init__ reads the parameters, the bound is a property, the last attempt is recognised by a method", _settings_object(
        "keep", None, _POLICY, ctor="policy = RetryPolicy(params, self.retry_until_success)", names=_POLICY_NAMES, last="policy.is_last(attempt)")),
    _named("settings class: the property that computes the bound forgets the + 1", _settings_object(
        "break", "O16.1", _POLICY.replace("self._retries + 1", "self._retries"), ctor="policy = RetryPolicy(params, self.retry_until_success)", names=_POLICY_NAMES, last="policy.is_last(attempt)")),
    _named("settings class: is_last() is one off", _settings_object(
        "break", "O16.1", _POLICY.replace("attempt + 1 == self.limit", "attempt == self.limit"), ctor="policy = RetryPolicy(params, self.retry_until_success)", names=_POLICY_NAMES, last="policy.is_last(attempt)")),
    _named("settings class: __init__ ignores the wrapper's retry-until-success default", _settings_object(
        "break", "O16.1", _POLICY.replace('params.get("retry-until-success", unbounded_by_default)', 'params.get("retry-until-success", False)'), ctor="policy = RetryPolicy(params, self.retry_until_success)",
        names=_POLICY_NAMES, last="policy.is_last(attempt)")),
    [V("settings in a typing.NamedTuple built by a module function, unpacked by the caller", "keep", _R, _SETTINGS, _NT_UNPACK), V("", "keep", _R, _CLS, _nt(_NT_CLASS) + _CLS)],
    [V("settings in a collections.namedtuple built by a module function, unpacked by the caller", "keep", _R, _SETTINGS, _NT_UNPACK), V("", "keep", _R, _CLS, _nt(_NT_CALL) + _CLS)],
    [V("settings NamedTuple: built in another order than the fields are declared and unpacked", "break", _R, _SETTINGS, _NT_UNPACK, "O16."),
     V("", "break", _R, _CLS, _nt(_NT_CLASS, "RetryPlan(max_attempts, params.get(\"retry-wait-period\", 0.5), retry_on_error, params.get(\"retry-on-timeout\", True))") + _CLS)],
    [V("settings namedtuple: the last field silently falls back to its declared default", "break", _R, _SETTINGS, _NT_UNPACK, "O16."),
     V("", "break", _R, _CLS, _nt(_NT_CLASS, "RetryPlan(max_attempts, params.get(\"retry-wait-period\", 0.5), params.get(\"retry-on-timeout\", True))") + _CLS)],
    _named("settings class with a coroutine method that does the waiting", _settings_object(
        "keep", None, _POLICY.rstrip("\n") + "\n\n" + _WAIT, ctor="policy = RetryPolicy(params, self.retry_until_success)", names=_POLICY_NAMES, last="policy.is_last(attempt)",
        then=(_CONN_ARM, _CONN_ARM.replace("asyncio.sleep(policy.pause)", "policy.wait()")))),
    _named("settings class: the waiting method waits for the default period, not the configured one", _settings_object(
        "break", "O16.", _POLICY.rstrip("\n") + "\n\n" + _WAIT.replace("self.pause", "0.5"), ctor="policy = RetryPolicy(params, self.retry_until_success)", names=_POLICY_NAMES, last="policy.is_last(attempt)",
        then=(_CONN_ARM, _CONN_ARM.replace("asyncio.sleep(policy.pause)", "policy.wait()")))),
    _named("settings class: the waiting method is called without await", _settings_object(
        "break", "O16.3", _POLICY.rstrip("\n") + "\n\n" + _WAIT, ctor="policy = RetryPolicy(params, self.retry_until_success)", names=_POLICY_NAMES, last="policy.is_last(attempt)",
        then=(_CONN_ARM, _CONN_ARM.replace("await asyncio.sleep(policy.pause)", "policy.wait()")))),
    [V("one broad handler, the exception is classified by isinstance in a static helper", "keep", _R, _ARMS, _ONE_ARM, regex=True), V("", "keep", _R, _REPR, _is_timeout() + _REPR)],
    [V("isinstance classification: every API error counts as a timeout", "break", _R, _ARMS, _ONE_ARM, "O16.2", regex=True), V("", "break", _R, _REPR, _is_timeout(api="return True") + _REPR)],
    [V("isinstance classification: tests the common superclass of all transport errors", "break", _R, _ARMS, _ONE_ARM, "O16.2", regex=True),
     V("", "break", _R, _REPR, _is_timeout(classes="(socket.timeout, elasticsearch.exceptions.TransportError)") + _REPR)],
    [V("isinstance classification: connection timeouts forgotten", "break", _R, _ARMS, _ONE_ARM, "O16.2", regex=True),
     V("", "break", _R, _REPR, _is_timeout(classes="(socket.timeout, elasticsearch.exceptions.ConnectionError)") + _REPR)],
    [V("connection-timeout arm folded into the first arm and removed (three arms left)", "keep", _R, "            except (socket.timeout, elasticsearch.exceptions.ConnectionError):",
       "            except (socket.timeout, elasticsearch.exceptions.ConnectionError, elasticsearch.exceptions.ConnectionTimeout):"),
     V("", "keep", _R, "            except elasticsearch.exceptions.ConnectionTimeout as e:\n                if last_attempt or not retry_on_timeout:\n                    raise e\n\n"
       "                self.logger.info(\"[%s] has timed out. Retrying in [%.2f] seconds.\", repr(self.delegate), sleep_time)\n                await asyncio.sleep(sleep_time)\n", "")],
    V("connection-timeout arm removed without folding it into another arm", "break", _R,
      "            except elasticsearch.exceptions.ConnectionTimeout as e:\n                if last_attempt or not retry_on_timeout:\n                    raise e\n\n"
      "                self.logger.info(\"[%s] has timed out. Retrying in [%.2f] seconds.\", repr(self.delegate), sleep_time)\n                await asyncio.sleep(sleep_time)\n", "", "O16.2"),
    # ---- hardening round 4: what the loop runs over is a value (range / unbounded counter) chosen before the loop; a bound that only the last-attempt test enforces
    _counted("retry-until-success runs over itertools.count() with max_attempts = None, the iterable is chosen into a local first", "keep"),
    _counted("attempt numbers chosen by a conditional expression in the loop header", "keep", loop="(itertools.count() if max_attempts is None else range(max_attempts))"),
    _counted("unbounded counter in both cases: the last-attempt test alone ends the bounded call", "keep", bounded="itertools.count()"),
    _counted("1-based unbounded counter in both cases with the matching last-attempt test", "keep", unbounded="itertools.count(1)", bounded="itertools.count(start=1)",
             last="max_attempts is not None and attempt == max_attempts"),
    _counted("attempt numbers through enumerate over a descending range of remaining retries", "keep", bounded="enumerate(range(max_attempts - 1, -1, -1))", unbounded="enumerate(itertools.count())",
             target="attempt, remaining", last="max_attempts is not None and remaining == 0"),
    _counted("enumerate over a descending range of remaining retries: the last attempt is taken to be the one with one retry left", "break", "O16.", bounded="enumerate(range(max_attempts - 1, -1, -1))",
             unbounded="enumerate(itertools.count())", target="attempt, remaining", last="max_attempts is not None and remaining == 1"),
    _counted("iterable chosen into a local: the bounded range forgets the + 1", "break", "O16.", bounded="range(max_attempts - 1)"),
    _counted("iterable chosen into a local: without a bound every attempt counts as the last one", "break", "O16.1", last="max_attempts is None or attempt + 1 == max_attempts"),
    _counted("iterable chosen into a local: retry-until-success still runs over a range of the configured retries", "break", "O16.1", none='params.get("retries", 0) + 1', unbounded="range(max_attempts)"),
    _counted("unbounded counter in both cases, 1-based, with the 0-based last-attempt test", "break", "O16.1", unbounded="itertools.count(1)", bounded="itertools.count(1)"),
    _counted("unbounded counter in both cases and a last-attempt test that never holds", "break", "O16.1", bounded="itertools.count()", last="max_attempts is not None and attempt == -max_attempts"),
    _counted("iterable chosen into a local: the bound it was built from is decremented inside the loop", "break", "O16.1", none="sys.maxsize", unbounded="range(max_attempts)",
             last="attempt + 1 == max_attempts", extra="            max_attempts -= 1\n"),
    # ---- hardening round 4: the attempt loop as a `while` loop that keeps its own count (every evaluated attempt replays the earlier iterations)
    _while("while True with a counter advanced at the start of the iteration", "keep", None, "attempt = 0", "True", "attempt += 1", "attempt == max_attempts"),
    _while("while loop over a counter advanced after the try", "keep", None, "attempt = 0", "attempt < max_attempts", None, "attempt + 1 == max_attempts", end="attempt += 1"),
    _while("while loop whose test is looser than the last-attempt test (the last attempt always ends the call)", "keep", None, "attempt = 0", "attempt <= max_attempts", None,
           "attempt + 1 == max_attempts", end="attempt += 1"),
    _while("while True counting the remaining attempts down", "keep", None, "remaining = max_attempts", "True", "remaining -= 1", "remaining == 0"),
    _while("while True: the counter is never advanced", "break", "O16.1", "attempt = 1", "True", None, "attempt == max_attempts"),
    _while("while True: counter starts at 1 and is advanced before the last-attempt test", "break", "O16.1", "attempt = 1", "True", "attempt += 1", "attempt == max_attempts"),
    _while("while loop over a 0-based counter with a last-attempt test that never holds inside the loop", "break", "O16.", "attempt = 0", "attempt < max_attempts", None,
           "attempt == max_attempts", end="attempt += 1"),
    _while("while loop: the retried connection error skips the increment with continue", "break", "O16.", "attempt = 0", "attempt < max_attempts", None, "attempt + 1 == max_attempts", end="attempt += 1",
           then=("                if last_attempt or not retry_on_timeout:\n                    raise\n                await asyncio.sleep(sleep_time)\n",
                 "                if last_attempt or not retry_on_timeout:\n                    raise\n                await asyncio.sleep(sleep_time)\n                continue\n")),
    _while("while loop: the counter is advanced twice per attempt", "break", "O16.1", "attempt = 0", "attempt < max_attempts", "attempt += 1", "attempt == max_attempts", end="attempt += 1"),
    [V("parameter source forwards the task's parameters through a helper method", "keep", "esrally/track/params.py", "        p = {}\n        # ensure we pass all parameters...\n        p.update(self._params)\n        p.update(\n            {\n                \"indices\": self.index_definitions,\n                \"request-params\": self.request_params,\n            }",
       "        p = self._task_params()\n        p.update(\n            {\n                \"indices\": self.index_definitions,\n                \"request-params\": self.request_params,\n            }"),
     V("", "keep", "esrally/track/params.py", "    def _client_params(self):\n", "    def _task_params(self):\n        return dict(self._params)\n\n    def _client_params(self):\n")],
    [V("parameter source's extracted helper hands on the client parameters only", "break", "esrally/track/params.py", _PS_OLD, _PS_OLD.replace("        p = {}\n        # ensure we pass all parameters...\n        p.update(self._params)\n", "        p = self._task_params()\n"), "O16.6"),
     V("", "break", "esrally/track/params.py", "    def _client_params(self):\n", "    def _task_params(self):\n        return dict(self._client_params())\n\n    def _client_params(self):\n", "O16.6")],
    V("parameter source builds on the base class's params() through super()", "keep", "esrally/track/params.py", _PS_OLD,
      _PS_OLD.replace("        p = {}\n        # ensure we pass all parameters...\n        p.update(self._params)\n", "        p = dict(super().params())\n")),
    # ---- strengthening round 5 (O16.7): the defaults that apply to a registered operation are the documented ones, decided on the wrapper as the registration builds it
    V("seed m15: get-async-search registered without its documented retry-until-success default", "break", _R, _REG_GAS, _REG_GAS.replace("Retry(GetAsyncSearch(), retry_until_success=True)", "Retry(GetAsyncSearch())"), "O16.7"),
    V("get-async-search: the retry-until-success default is switched off positionally", "break", _R, _REG_GAS, _REG_GAS.replace("Retry(GetAsyncSearch(), retry_until_success=True)", "Retry(GetAsyncSearch(), False)"), "O16.7"),
    V("cluster-health registered with retry-until-success on although its documentation states the general default", "break", _R, _REG_CH, _REG_CH.replace("Retry(ClusterHealth())", "Retry(ClusterHealth(), retry_until_success=True)"), "O16.7"),
    V("get-async-search built by a local factory function that forgets the retry-until-success default", "break", _R, _REG_GAS,
      "    def until_success(runner):\n        return Retry(runner)\n\n" + _REG_GAS.replace("Retry(GetAsyncSearch(), retry_until_success=True)", "until_success(GetAsyncSearch())"), "O16.7"),
    V("the constructor's retry-until-success default flipped: every wrapped operation polls without bound", "break", _R, "    def __init__(self, delegate, retry_until_success=False):", "    def __init__(self, delegate, retry_until_success=True):", "O16."),
    [V("per-wrapper default for retry-on-error, switched on for cluster-health where it is registered", "break", _R, "    def __init__(self, delegate, retry_until_success=False):\n        super().__init__(delegate=delegate)\n",
       "    def __init__(self, delegate, retry_until_success=False, retry_on_error=False):\n        super().__init__(delegate=delegate)\n        self.retry_on_error = retry_on_error\n", "O16.7"),
     V("", "break", _R, "            retry_on_error = params.get(\"retry-on-error\", False)\n", "            retry_on_error = params.get(\"retry-on-error\", self.retry_on_error)\n", "O16.7"),
     V("", "break", _R, _REG_CH, _REG_CH.replace("Retry(ClusterHealth())", "Retry(ClusterHealth(), retry_on_error=True)"), "O16.7")],
    [V("per-wrapper default for retry-on-error, left at the documented value everywhere", "keep", _R, "    def __init__(self, delegate, retry_until_success=False):\n        super().__init__(delegate=delegate)\n",
       "    def __init__(self, delegate, retry_until_success=False, retry_on_error=False):\n        super().__init__(delegate=delegate)\n        self.retry_on_error = retry_on_error\n"),
     V("", "keep", _R, "            retry_on_error = params.get(\"retry-on-error\", False)\n", "            retry_on_error = params.get(\"retry-on-error\", self.retry_on_error)\n"),
     V("", "keep", _R, _REG_CH, _REG_CH.replace("Retry(ClusterHealth())", "Retry(ClusterHealth(), retry_on_error=False)"))],
    V("get-async-search: the retry-until-success default passed positionally", "keep", _R, _REG_GAS, _REG_GAS.replace("Retry(GetAsyncSearch(), retry_until_success=True)", "Retry(GetAsyncSearch(), True)")),
    V("get-async-search built by a local factory function that sets the retry-until-success default", "keep", _R, _REG_GAS,
      "    def until_success(runner):\n        return Retry(runner, retry_until_success=True)\n\n" + _REG_GAS.replace("Retry(GetAsyncSearch(), retry_until_success=True)", "until_success(GetAsyncSearch())")),
    [V("get-async-search built through functools.partial of the wrapper class with the retry-until-success default", "keep", _R, _REG_GAS,
       "    until_success = functools.partial(Retry, retry_until_success=True)\n" + _REG_GAS.replace("Retry(GetAsyncSearch(), retry_until_success=True)", "until_success(GetAsyncSearch())")),
     V("", "keep", _R, "import contextvars\n", "import contextvars\nimport functools\n")],
    V("cluster-health: the general retry-until-success default spelled out where it is registered", "keep", _R, _REG_CH, _REG_CH.replace("Retry(ClusterHealth())", "Retry(ClusterHealth(), retry_until_success=False)")),
    [V("get-async-search registered through a subclass of the wrapper whose constructor switches the retry-until-success default on", "keep", _R, _REG_GAS, _REG_GAS.replace("Retry(GetAsyncSearch(), retry_until_success=True)", "UntilSuccess(GetAsyncSearch())")),
     V("", "keep", _R, _REPR, _REPR + "\n\n\nclass UntilSuccess(Retry):\n    def __init__(self, delegate):\n        super().__init__(delegate, retry_until_success=True)")],
    [V("get-async-search registered through a subclass of the wrapper whose constructor hands on the general default", "break", _R, _REG_GAS, _REG_GAS.replace("Retry(GetAsyncSearch(), retry_until_success=True)", "UntilSuccess(GetAsyncSearch())"), "O16.7"),
     V("", "break", _R, _REPR, _REPR + "\n\n\nclass UntilSuccess(Retry):\n    def __init__(self, delegate, retry_until_success=False):\n        super().__init__(delegate, retry_until_success)")],
    V("get-async-search registered from a table of (operation type, runner, waits until success)", "keep", _R, _REG_GAS,
      "    for operation_type, polled_runner, until_success in [(track.OperationType.GetAsyncSearch, GetAsyncSearch(), True)]:\n"
      "        register_runner(operation_type, Retry(polled_runner, retry_until_success=until_success), async_runner=True)\n"),
    # O16.8: the logging configuration is an environment input
    V("m18: the wait after an unsuccessful result only under isEnabledFor(INFO)", "break", _R, _LOG_ARM, _LOG_ARM.replace("                    else:\n", "                    elif self.logger.isEnabledFor(logging.INFO):\n"), "O16.8"),
    V("408 arm: log line and wait both under a getEffectiveLevel() test", "break", _R, _LOG_408,
      "                if e.status_code == 408:\n                    if self.logger.getEffectiveLevel() <= logging.INFO:\n"
      "                        self.logger.info(\"[%s] has timed out. Retrying in [%.2f] seconds.\", repr(self.delegate), sleep_time)\n                        await asyncio.sleep(sleep_time)\n", "O16.8"),
    V("an unsuccessful result is handed back instead of retried when nothing would be logged", "break", _R, "                    if return_value.get(\"success\", True):\n",
      "                    if return_value.get(\"success\", True) or not self.logger.isEnabledFor(logging.CRITICAL):\n", "O16.8"),
    V("one more attempt when debugging (level query remembered in a local before the loop)", "break", _R, _LOOP,
      "        verbose = self.logger.isEnabledFor(logging.DEBUG)\n        if verbose:\n            max_attempts += 1\n" + _LOOP, "O16.8"),
    [V("the wait skipped by a flag computed from the logger's level before the loop", "break", _R, _LOOP, "        quiet = self.logger.getEffectiveLevel() > logging.INFO\n" + _LOOP, "O16.8"),
     V("", "break", _R, _LOG_TMO + "                await asyncio.sleep(sleep_time)\n", "\n\n                if quiet:\n                    continue" + _LOG_TMO + "                await asyncio.sleep(sleep_time)\n")],
    V("only the log line of the unsuccessful-result arm under isEnabledFor(INFO), the wait after it", "keep", _R, _LOG_ARM,
      "                    else:\n                        if self.logger.isEnabledFor(logging.INFO):\n                            self.logger.info(\"[%s] has returned with an error: %s. Retrying in [%.2f] seconds.\", repr(self.delegate), return_value, sleep_time)\n"
      "                        await asyncio.sleep(sleep_time)\n"),
    V("timeout arm: log line under a getEffectiveLevel() test, wait outside", "keep", _R, _LOG_TMO, "\n\n                if self.logger.getEffectiveLevel() <= logging.INFO:\n    " + _LOG_TMO.lstrip("\n")),
    [V("level query remembered in a local before the loop, used for logging only", "keep", _R, _LOOP, "        verbose = self.logger.isEnabledFor(logging.DEBUG)\n" + _LOOP),
     V("", "keep", _R, "                        self.logger.debug(\"%s has returned successfully\", repr(self.delegate))\n",
       "                        if verbose:\n                            self.logger.debug(\"%s has returned successfully\", repr(self.delegate))\n")],
]
