"""C16 — retryable operations retry exactly as configured (DESIGN.md section 4, C16).

Decision table of Retry.__call__ per attempt outcome over the REAL (parsed) library exception hierarchy × (last attempt, retry-on-timeout, retry-on-error)."""
from __future__ import annotations

import ast
import itertools

from sa import source
from sa.cfg import cfg_of, guards
from sa.classes import is_logging_stmt
from sa.exc import Hierarchy, handler_type_names
from sa.minieval import CannotEval, Record, ev as mev
from sa.pat import fact_nodes
from sa.source import AnchorMissing, dotted, last_attr, local_defs, params_of, short, u, walk_body
from sa.sym import UnknownAtom, parse_expr, rat_equal
from sa.tables import Unsupported, decide

_R = "esrally/driver/runner.py"

# outcome classes of one attempt: (label, raised class, status code or None, retryable as timeout/connection error?)
RAISED = [
    ("socket timeout", "socket.timeout", None, True),
    ("connection error", "elasticsearch.ConnectionError", None, True),
    ("TLS error (a connection error)", "elasticsearch.SSLError", None, True),
    ("connection timeout", "elasticsearch.ConnectionTimeout", None, True),
    ("HTTP 408", "elasticsearch.ApiError", 408, True),
    ("HTTP 404 (NotFoundError)", "elasticsearch.NotFoundError", 404, False),
    ("HTTP 400", "elasticsearch.BadRequestError", 400, False),
    ("HTTP 500 (generic ApiError)", "elasticsearch.ApiError", 500, False),
    ("serialization error (other transport error)", "elasticsearch.SerializationError", None, False),
    ("sniffing error (other transport error)", "elastic_transport.SniffingError", None, False),
    ("generic transport error", "elasticsearch.TransportError", None, False),
    ("KeyError (not a transport error)", "KeyError", None, False),
]


def is_sleep(e):
    return isinstance(e, ast.Await) and isinstance(e.value, ast.Call) and dotted(e.value.func) == "asyncio.sleep"


def value_atom(env):
    """atom function for tables.decide: a test (or any operand of its and/or/not structure) is EVALUATED on the representative values in `env` (local name -> value); orientation of
    comparisons, operand order and polarity are therefore irrelevant. An operand that cannot be evaluated is not an atom (decide then raises UnknownAtom: inconclusive)."""
    def atom(n, _env):
        try:
            return bool(mev(n, dict(env)))
        except CannotEval:
            return None
    return atom


def run(chk):
    repo = chk.repo
    rn = repo.module(_R)
    chk.use(rn, "docs/track.rst")
    H = Hierarchy()
    chk.trusted.append("library exception hierarchy parsed from " + ", ".join(sorted(__import__('os').path.basename(p) for p in H.files)))
    chk.explanation = (
        "Decides the attempt loop of the retry wrapper as a decision table: for each outcome class of one attempt (12 exception classes placed in the real, parsed library "
        "hierarchy, and 4 kinds of return value) and each combination of (last attempt, retry-on-timeout, retry-on-error) the handler that Python would select is located and "
        "abstractly interpreted; the outcome (retry with sleep / raise / return) must equal the documented classification. Also the attempt bound (range(retries+1), "
        "last == attempt+1 == max) and parameter defaults."
    )
    chk.not_decided = "timing of sleeps, behaviour of the delegate, operations wrapped by plugins."
    R = rn.cls("Retry")
    call = rn.methods(R).get("__call__")
    if call is None:
        raise AnchorMissing("Retry.__call__")
    loops = [n for n in walk_body(call) if isinstance(n, ast.For)]
    if not loops:
        raise AnchorMissing("attempt loop in Retry.__call__")
    L = loops[0]
    trys = [n for n in L.body if isinstance(n, ast.Try)]
    if not trys:
        raise AnchorMissing("try in the attempt loop")
    T = trys[0]
    defs = {}
    for n in walk_body(call):
        if isinstance(n, ast.Assign) and len(n.targets) == 1 and isinstance(n.targets[0], ast.Name):
            defs.setdefault(n.targets[0].id, []).append(n)
    # roles by data flow: the parameter dict is the last parameter of __call__(self, es, params); a local's role is the documented key it is read from
    pnames = params_of(call)
    if len(pnames) < 3:
        raise AnchorMissing("Retry.__call__(self, es, params): the parameter dict")
    pv = pnames[-1]

    def param_key(e):
        """K if e is `params.get(K[, default])`"""
        if isinstance(e, ast.Call) and isinstance(e.func, ast.Attribute) and e.func.attr == "get" and isinstance(e.func.value, ast.Name) and e.func.value.id == pv and e.args \
                and isinstance(e.args[0], ast.Constant) and isinstance(e.args[0].value, str):
            return e.args[0].value
        return None

    role = {}  # documented key -> the local that carries the value read under that key
    for nm, ds in defs.items():
        for d in ds:
            for x in ast.walk(d.value):
                k = param_key(x)
                if k is not None:
                    role.setdefault(k, nm)
    rusv, roev, rotv, sleepv = role.get("retry-until-success"), role.get("retry-on-error"), role.get("retry-on-timeout"), role.get("retry-wait-period")

    def attempt_env(last):
        """representative values for one attempt: the last-attempt flag and (for tests that recompute it) the attempt counter and the bound"""
        env = {lastv: last}
        if av and mv and av != mv:
            env.update({av: 2 if last else 0, mv: 3})
        return env

    def carries(e, key, var):
        """e is the local carrying the value of `key`, or reads it directly"""
        return (isinstance(e, ast.Name) and var is not None and e.id == var) or param_key(e) == key

    def under_rus(n):
        """some guard fact of n (polarity-insensitive view of the enclosing tests) is the retry-until-success value itself"""
        return any(carries(f, "retry-until-success", rusv) or (isinstance(f, ast.Attribute) and f.attr == "retry_until_success") for f in fact_nodes(n, stop=call))

    # ---- O16.1 attempt bound ----------------------------------------------------------------------------------------------------------------
    chk.rule("O16.1", "loop is range(max_attempts); max_attempts == retries + 1 (unbounded with retry-on-error forced under retry-until-success); "
             "last == attempt + 1 == max_attempts; documented parameter defaults", 7,
             "one attempt too many/few; the last attempt's failure swallowed (loop falls out returning None)")
    ok = isinstance(L.iter, ast.Call) and dotted(L.iter.func) == "range" and len(L.iter.args) == 1 and isinstance(L.iter.args[0], ast.Name)
    mv = L.iter.args[0].id if ok else None
    chk.ob("O16.1", "for attempt in range(max_attempts)", ok, L, u(L.iter))
    av = L.target.id if isinstance(L.target, ast.Name) else None
    mdefs = defs.get(mv, []) if mv else []
    bounded = [d for d in mdefs if not (dotted(d.value) == "sys.maxsize")]
    unb = [d for d in mdefs if dotted(d.value) == "sys.maxsize"]
    ok = len(bounded) == 1 and rat_equal(bounded[0].value, parse_expr("params.get('retries', 0) + 1"))
    chk.ob("O16.1", "max_attempts == retries + 1 (default 0 retries)", ok, bounded[0] if bounded else call, short(bounded[0], 70) if bounded else "")
    ok = len(unb) == 1 and under_rus(unb[0])
    chk.ob("O16.1", "unbounded only under retry-until-success", ok, unb[0] if unb else call, "")
    roe = defs.get(roev, []) if roev else []
    forced = [d for d in roe if source.is_const(d.value, True)]
    ok = len(forced) == 1 and bool(unb) and (under_rus(forced[0]) or (guards(forced[0]) and guards(unb[0]) and guards(forced[0])[0][0] is guards(unb[0])[0][0] and guards(forced[0])[0][1] == guards(unb[0])[0][1]))
    chk.ob("O16.1", "retry-on-error forced under retry-until-success", bool(ok), forced[0] if forced else call, "")
    for key, dflt in (("retry-on-error", False), ("retry-wait-period", 0.5), ("retry-on-timeout", True)):
        ds = [d for d in defs.get(role.get(key), []) if isinstance(d.value, ast.Call) and last_attr(d.value.func) == "get"]
        ok = len(ds) == 1 and param_key(ds[0].value) == key and len(ds[0].value.args) == 2 and isinstance(ds[0].value.args[1], ast.Constant) and ds[0].value.args[1].value == dflt \
            and type(ds[0].value.args[1].value) is type(dflt)
        chk.ob("O16.1", f"{key} read with default {dflt}", ok, ds[0] if ds else call, short(ds[0], 70) if ds else "")
    la = [n for n in L.body if isinstance(n, ast.Assign) and isinstance(n.targets[0], ast.Name)]
    lastv = None
    ok = False
    for n in la:
        if isinstance(n.value, ast.Compare) and len(n.value.ops) == 1 and isinstance(n.value.ops[0], ast.Eq):
            l, r = n.value.left, n.value.comparators[0]
            if (rat_equal(l, parse_expr(f"{av} + 1")) and u(r) == mv) or (rat_equal(r, parse_expr(f"{av} + 1")) and u(l) == mv) or \
                    (rat_equal(ast.BinOp(left=l, op=ast.Sub(), right=r), parse_expr(f"{av} + 1 - {mv}"))):
                lastv = n.targets[0].id
                ok = T in L.body and L.body.index(n) < L.body.index(T)
    chk.ob("O16.1", "last == (attempt + 1 == max_attempts), computed before the attempt", ok, la[0] if la else L, "")
    if lastv is None:
        raise AnchorMissing("last-attempt flag in the attempt loop")
    dcalls = [n for n in ast.walk(L) if isinstance(n, ast.Call) and u(n.func) == "self.delegate"]
    ok = len(dcalls) == 1 and any(dcalls[0] in list(ast.walk(s)) for s in T.body)
    chk.ob("O16.1", "the delegate is called exactly once per attempt, inside the try", ok, dcalls[0] if dcalls else L, f"{len(dcalls)} call(s)")

    # the wrapper is shared by all tasks of an operation type: per-call parameters must not stick to it
    stores = [n for n in walk_body(call) if isinstance(n, (ast.Assign, ast.AugAssign, ast.AnnAssign)) and
              any(isinstance(t, ast.Attribute) and isinstance(t.value, ast.Name) and t.value.id == "self" for t in (n.targets if isinstance(n, ast.Assign) else [n.target]))]
    chk.ob("O16.1", "the call stores nothing on the (shared) wrapper", not stores, stores[0] if stores else call,
           "" if not stores else f"{short(stores[0], 70)}: one task's retry parameters leak into later tasks using the same wrapper")

    # ---- O16.2 / O16.3 outcome classification ------------------------------------------------------------------------------------------------------
    chk.rule("O16.2", "outcome classification per attempt: retry only for {socket timeout, connection error, connection timeout, HTTP 408} under retry-on-timeout and not last, and for a dict "
             "result with success false under retry-on-error and not last; every other exception class raises on all paths; non-dict or successful result returns it; "
             "the last attempt returns/raises exactly its own outcome", 60,
             "a non-retryable error is retried/swallowed, a retryable one is not retried, or the last attempt's outcome is replaced")
    chk.rule("O16.3", "every retry path awaits sleep(retry-wait-period) before the next attempt", 5, "retries hammer the cluster without waiting")
    mod_imports = dict(rn.imports)
    handlers = []
    for h in T.handlers:
        names = handler_type_names(h)
        handlers.append((h, names))
        for nm in names:
            if not H.known(nm):
                chk.unknown("O16.2", f"handler names class {nm} that is not in the parsed library hierarchy", h)

    def select(raised):
        for h, names in handlers:
            if H.catches(names, raised):
                return h, names
        return None, None

    def classify_outcome(out):
        sleeps = [e for e in out.effects if is_sleep(e)]
        if out.kind == "raise":
            return "raise", sleeps
        if out.kind == "return":
            return "return", sleeps
        if out.kind in ("fallthrough", "continue"):
            return "retry", sleeps
        return out.kind, sleeps

    for label, cls, status, retryable in RAISED:
        h, names = select(cls)
        for last, rot in itertools.product([False, True], repeat=2):
            want = "retry" if (retryable and rot and not last) else "raise"
            inst = f"{label} | last={last} retry-on-timeout={rot}"
            if h is None:
                got, sleeps = "raise", []
                detail = "no handler matches: propagates"
            else:
                # the tests of the selected handler are evaluated on representative values: the last-attempt flag, the retry-on-timeout value and the caught exception's status code
                atom = value_atom({**attempt_env(last), **({rotv: rot} if rotv else {}), **({h.name: Record(status_code=status)} if h.name else {})})

                try:
                    out = decide(h.body, atom, {})
                except (Unsupported, UnknownAtom) as e:
                    chk.unknown("O16.2", f"handler `except {', '.join(names)}` is not a decision over (last, retry-on-timeout, status==408): {e}", h)
                    continue
                got, sleeps = classify_outcome(out)
                detail = f"selected handler `except {', '.join(names)}` -> {out.text()}"
            chk.ob("O16.2", inst, got == want, h if h is not None else T, f"{detail}; expected {want}", key=f"{_R}:Retry.__call__:{label}|{last}|{rot}")
            if got == "retry":
                ok = len(sleeps) == 1 and bool(sleeps[0].value.args) and carries(sleeps[0].value.args[0], "retry-wait-period", sleepv)
                chk.ob("O16.3", f"sleep before retrying after {label}", ok, h, "awaits sleep(<retry-wait-period>)" if ok else "retries without awaiting the retry-wait-period", key=f"{_R}:Retry.__call__:sleep:{label}|{last}|{rot}")
    # return outcomes
    body = [s_ for s_ in T.body if not is_logging_stmt(s_)]
    rv = None
    if body and isinstance(body[0], ast.Assign) and isinstance(body[0].value, ast.Await) and dcalls and body[0].value.value is dcalls[0] and isinstance(body[0].targets[0], ast.Name):
        rv = body[0].targets[0].id
    if rv is None:
        raise AnchorMissing("`return_value = await self.delegate(...)` as first statement of the try")
    # representative results of the delegate: (label, value, is dict, success)
    RET = [("dict success=True", {"success": True, "weight": 1}, True, True), ("dict success=False", {"success": False, "weight": 1}, True, False), ("non-dict result", (1, "ops"), False, True),
           ("None result", None, False, True), ("empty dict (no 'success' key)", {}, True, True)]
    for label, value, isdict, success in RET:
        for last, roe_ in itertools.product([False, True], repeat=2):
            # the result handling is evaluated on the representative result, the last-attempt flag and the retry-on-error value
            atom = value_atom({**attempt_env(last), rv: value, **({roev: roe_} if roev else {})})

            try:
                out = decide(body[1:] + list(T.orelse), atom, {})
            except (Unsupported, UnknownAtom) as e:
                chk.unknown("O16.2", f"result handling is not a decision over (last, retry-on-error, is dict, success): {e}", T)
                continue
            got, sleeps = classify_outcome(out)
            want = "retry" if (isdict and not success and roe_ and not last) else "return"
            ok = got == want and (got != "return" or (out.value is not None and u(out.value) == rv))
            chk.ob("O16.2", f"{label} | last={last} retry-on-error={roe_}", ok, T, f"{out.text()}; expected {want}" + (f" {rv}" if want == "return" else ""), key=f"{_R}:Retry.__call__:{label}|{last}|{roe_}")
            if got == "retry":
                ok = len(sleeps) == 1 and bool(sleeps[0].value.args) and carries(sleeps[0].value.args[0], "retry-wait-period", sleepv)
                chk.ob("O16.3", f"sleep before retrying after {label}", ok, T, "" if ok else "retries without awaiting the retry-wait-period", key=f"{_R}:Retry.__call__:sleep:{label}|{last}|{roe_}")
    # missing 'success' key defaults to success
    gets = [n for n in ast.walk(T) if isinstance(n, ast.Call) and u(n.func) == f"{rv}.get" and n.args and source.is_const(n.args[0], "success")]
    ok = bool(gets) and all(len(g_.args) == 2 and source.is_const(g_.args[1], True) for g_ in gets)
    chk.ob("O16.2", "a dict without 'success' counts as success", ok, gets[0] if gets else T, "")
    # nothing after the try in the loop body changes the outcome; nothing after the loop returns a stale value
    after = L.body[L.body.index(T) + 1:]
    chk.ob("O16.2", "no statement after the try in the loop body", not after, after[0] if after else L, "")
    tail = call.body[call.body.index(L) + 1:] if L in call.body else []
    chk.ob("O16.2", "nothing after the attempt loop", not tail and not L.orelse, tail[0] if tail else L, "")

    # ---- O16.4 shadowing -------------------------------------------------------------------------------------------------------------------------------
    chk.rule("O16.4", "a handler that is completely shadowed by an earlier superclass handler (dead arm) must not classify differently from its shadow", 4,
             "a classification that can never apply hides the intended behaviour (the decision table above is computed over the handler Python really selects)")

    def table_of(h):
        rows = []
        for last, rot, is408 in itertools.product([False, True], repeat=3):
            atom = value_atom({**attempt_env(last), **({rotv: rot} if rotv else {}), **({h.name: Record(status_code=408 if is408 else 500)} if h.name else {})})

            try:
                rows.append(classify_outcome(decide(h.body, atom, {}))[0])
            except (Unsupported, UnknownAtom):
                rows.append("?")
        return rows

    for i, (h, names) in enumerate(handlers):
        shadows = [hh for hh, pn in handlers[:i] if all(H.catches(pn, nm) for nm in names)] if i else []
        if not shadows:
            chk.ob("O16.4", f"`except {', '.join(names)}` reachable", True, h, "")
            continue
        same = table_of(h) == table_of(shadows[0])
        chk.ob("O16.4", f"dead arm `except {', '.join(names)}` agrees with its shadow", same, h, "shadowed by an earlier handler" + ("" if same else " that classifies differently"))
        chk.adv("O16.4", f"`except {', '.join(names)}` can never be selected (shadowed by an earlier handler)", h)

    # ---- O16.5 advisory: which operations are wrapped ------------------------------------------------------------------------------------------------------
    reg = rn.func("register_default_runners")
    wrapped = sorted({u(c.args[0]) for c in source.calls_in(reg, attr="register_runner") if len(c.args) >= 2 and isinstance(c.args[1], ast.Call) and last_attr(c.args[1].func) == "Retry"})
    chk.stats["retry_wrapped_operations"] = wrapped
    if len(wrapped) < 10:
        chk.adv("O16.5", f"only {len(wrapped)} operations are wrapped in Retry by register_default_runners", reg)
    # which operations are wrapped: every operation the documentation marks as retryable is registered through Retry(...)
    import re as _re

    chk.rule("O16.5", "every operation type whose documentation section says `This operation is retryable` is registered as Retry(<runner>) in register_default_runners", 30,
             "the documented retry properties (retries, retry-until-success, ...) are silently ignored for that operation")
    chk.use("docs/track.rst")
    doc = repo.text("docs/track.rst").splitlines()
    secs = [(i, doc[i].strip()) for i in range(len(doc) - 1) if doc[i].strip() and _re.fullmatch(r"~{3,}", doc[i + 1].strip())]
    marks = [i for i, l in enumerate(doc) if "This operation is :ref:`retryable" in l]
    documented = sorted({[t for i, t in secs if i < r][-1] for r in marks if any(i < r for i, _ in secs)})
    regs = {}
    for c in source.calls_in(reg, attr="register_runner"):
        if len(c.args) >= 2:
            member = u(c.args[0]).split(".")[-1]
            regs[_re.sub(r"(?<!^)(?=[A-Z])", "-", member).lower()] = c
    for op in documented:
        c = regs.get(op)
        if c is None:
            chk.adv("O16.5", f"documented retryable operation `{op}` has no default registration under that name", reg)
            continue
        ok = isinstance(c.args[1], ast.Call) and last_attr(c.args[1].func) == "Retry"
        chk.ob("O16.5", f"`{op}` (documented as retryable) is registered through Retry", ok, c, short(c, 90), key=f"{_R}:register_default_runners:retry:{op}")

    # ---- O16.6 the retry settings reach the wrapper ----------------------------------------------------------------------------------------------------------
    chk.rule("O16.6", "for every operation documented as retryable the registered parameter source hands the task's own parameters (and with them retries, retry-until-success, "
             "retry-wait-period, retry-on-timeout, retry-on-error) on to the runner: params() forwards self._params (or every retry key)", 30,
             "the operation is wrapped in Retry but always makes exactly one attempt, whatever the track configures")
    from sa.classes import ClassTable
    pr = repo.module("esrally/track/params.py")
    chk.use(pr)
    tab = ClassTable(repo, ["esrally/track/params.py"])
    reg_src = {}
    for c in ast.walk(pr.tree):
        if isinstance(c, ast.Call) and last_attr(c.func) == "register_param_source_for_operation" and len(c.args) == 2 and isinstance(c.args[1], ast.Name) and source.enclosing_func(c) is None:
            member = u(c.args[0]).split(".")[-1]
            reg_src[_re.sub(r"(?<!^)(?=[A-Z])", "-", member).lower()] = c.args[1].id
    RETRY_KEYS = {"retries", "retry-until-success", "retry-wait-period", "retry-on-timeout", "retry-on-error"}

    def forwards(cname):
        ci = tab.get(cname)
        f = tab.method(ci, "params")
        if f is None:
            return False, f"{cname} has no params()"
        txt_nodes = [n for n in walk_body(f)]
        all_fw = any(is_self_params(n) for n in txt_nodes)
        keys = {k.value for n in txt_nodes if isinstance(n, ast.Dict) for k in n.keys if isinstance(k, ast.Constant)}
        ok_ = all_fw or RETRY_KEYS <= keys
        owner = next((c_.name for c_ in tab.mro(ci) if "params" in c_.methods), cname)
        return ok_, f"{owner}.params() " + ("forwards self._params" if all_fw else ("names every retry key" if ok_ else f"returns only {sorted(keys)}"))

    def is_self_params(n):
        # self._params used as a value: dict(self._params), p.update(self._params), {**self._params}, return self._params, copy
        return isinstance(n, ast.Attribute) and isinstance(n.value, ast.Name) and n.value.id == "self" and n.attr == "_params" and isinstance(n.ctx, ast.Load) \
            and not isinstance(source.parent(n), (ast.Subscript, ast.Attribute)) and not (isinstance(source.parent(n), ast.Call) and source.parent(n).func is n)

    n66 = 0
    for op in documented:
        cname = reg_src.get(op, "ParamSource")
        try:
            ok_, why = forwards(cname)
        except AnchorMissing as e:
            chk.unknown("O16.6", f"parameter source class {cname} of `{op}` not found: {e}", pr.tree)
            continue
        n66 += 1
        chk.ob("O16.6", f"`{op}`: retry settings reach Retry through {cname}", ok_, tab.method(tab.get(cname), "params") or tab.get(cname).node, why,
               key=f"esrally/track/params.py:{cname}.params:forwards-task-params:{op}")


from sa.selftest import V  # noqa: E402

VARIANTS = [
    V("F6: other transport errors swallowed", "break", _R, "                # any other transport error (e.g. a serialization error) is neither a timeout nor a connection error: never retry it\n                raise e",
      "                if last_attempt or not retry_on_timeout:\n                    raise e", "O16.2"),
    V("retries without + 1", "break", _R, "            max_attempts = params.get(\"retries\", 0) + 1", "            max_attempts = params.get(\"retries\", 0)", "O16.1"),
    V("last computed wrongly", "break", _R, "            last_attempt = attempt + 1 == max_attempts", "            last_attempt = attempt == max_attempts", "O16.1"),
    V("sleep removed from connection-error arm", "break", _R, "                if last_attempt or not retry_on_timeout:\n                    raise\n                await asyncio.sleep(sleep_time)", "                if last_attempt or not retry_on_timeout:\n                    raise", "O16.3"),
    V("408 test removed", "break", _R, "                if e.status_code == 408:\n                    self.logger.info(\"[%s] has timed out. Retrying in [%.2f] seconds.\", repr(self.delegate), sleep_time)\n                    await asyncio.sleep(sleep_time)\n                else:\n                    raise e",
      "                self.logger.info(\"[%s] has timed out. Retrying in [%.2f] seconds.\", repr(self.delegate), sleep_time)\n                await asyncio.sleep(sleep_time)", "O16.2"),
    V("unsuccessful result returned although retry-on-error", "break", _R, "                        await asyncio.sleep(sleep_time)\n                else:\n                    return return_value\n            except (socket.timeout",
      "                        return return_value\n                else:\n                    return return_value\n            except (socket.timeout", "O16.2"),
    V("superclass arm first shadows timeouts", "break", _R, "            except (socket.timeout, elasticsearch.exceptions.ConnectionError):\n                if last_attempt or not retry_on_timeout:\n                    raise\n                await asyncio.sleep(sleep_time)",
      "            except elasticsearch.exceptions.TransportError:\n                raise\n            except (socket.timeout, elasticsearch.exceptions.ConnectionError):\n                if last_attempt or not retry_on_timeout:\n                    raise\n                await asyncio.sleep(sleep_time)", "O16."),
    V("retry on timeout ignores the flag", "break", _R, "            except elasticsearch.exceptions.ConnectionTimeout as e:\n                if last_attempt or not retry_on_timeout:", "            except elasticsearch.exceptions.ConnectionTimeout as e:\n                if last_attempt:", "O16.2"),
    V("last attempt result retried", "break", _R, "                if last_attempt or not retry_on_error:\n                    return return_value", "                if not retry_on_error:\n                    return return_value", "O16.2"),
    V("default retry-on-timeout False", "break", _R, "        retry_on_timeout = params.get(\"retry-on-timeout\", True)", "        retry_on_timeout = params.get(\"retry-on-timeout\", False)", "O16.1"),
    V("bare except retries everything", "break", _R, "            except elasticsearch.exceptions.TransportError as e:\n                # any other", "            except Exception as e:\n                if not last_attempt:\n                    continue\n                # any other", "O16.2"),
    V("seed m2: parameter sticks to the shared wrapper", "break", _R, "        retry_until_success = params.get(\"retry-until-success\", self.retry_until_success)\n        if retry_until_success:", "        self.retry_until_success = params.get(\"retry-until-success\", self.retry_until_success)\n        if self.retry_until_success:", "O16.1"),
    V("seed m3: zero wait period replaced by the default", "break", _R, "        sleep_time = params.get(\"retry-wait-period\", 0.5)", "        sleep_time = params.get(\"retry-wait-period\") or 0.5", "O16.1"),
    # preserving
    V("merge the identical timeout arms", "keep", _R, "            except (socket.timeout, elasticsearch.exceptions.ConnectionError):", "            except (socket.timeout, elasticsearch.exceptions.ConnectionError, elasticsearch.exceptions.ConnectionTimeout):"),
    V("bare raise instead of raise e", "keep", _R, "                # any other transport error (e.g. a serialization error) is neither a timeout nor a connection error: never retry it\n                raise e", "                raise"),
    V("inverted 408 test", "keep", _R, "                if e.status_code == 408:\n                    self.logger.info(\"[%s] has timed out. Retrying in [%.2f] seconds.\", repr(self.delegate), sleep_time)\n                    await asyncio.sleep(sleep_time)\n                else:\n                    raise e",
      "                if e.status_code != 408:\n                    raise e\n                self.logger.info(\"[%s] has timed out. Retrying in [%.2f] seconds.\", repr(self.delegate), sleep_time)\n                await asyncio.sleep(sleep_time)"),
]
