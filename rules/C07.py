"""C07 — every request sample reaches the metrics store exactly once (DESIGN.md section 4, C07)."""
from __future__ import annotations

import ast

from sa import source
from sa.cfg import cfg_of, guards
from sa.source import AnchorMissing, arg_of, dotted, is_self_attr, last_attr, local_defs, package_calls, params_of, short, u, walk_body

_D = "esrally/driver/driver.py"
_M = "esrally/metrics.py"
_R = "esrally/racecontrol.py"


class _SamplerFlow:
    """Abstract interpretation of the Worker actor over two facts, interprocedural over its own methods (handlers -> drive() -> drive()):
         R  the load-generator thread may (still) be running, i.e. may add samples to the sampler it was given (1), none has been started since the step began (0),
            or its completion has been observed (2);
         U  the worker's current sampler may hold samples that no drain has read.
       Events (all located by role, none by local name):
         drain    a read of the DRAINING property of the sampler attribute (the attribute that is assigned an instance of a class of the module, read through one of that class's properties):
                  U := R  (a drain that runs while the executor may still add samples protects nothing: whatever is added afterwards is undrained again)
         submit   the pool call whose result becomes the future attribute: R := 1, U := 1
         finished `<future>.result()` / `<future>.exception()` returned, or the branch facts `<future>.done()` / `<future> is None` hold: R := 2 (observed)
         no sampler   branch fact `not <sampler>`: U := 0;   start-of-step flag (the one-shot flag the wake-up handler consumes before it drives on): R := 0, U := 0 - the flag is
                  raised by the driver's Drive message, which is sent when every worker waits at the join point, where this worker has dropped its sampler
         write    an assignment to the sampler attribute: the OLD sampler becomes unreachable - the obligation is that U == 0 in every state that reaches it.
       Every handler starts in the worst state (R=1, U=1: a message may arrive while the executor runs) except the handlers that receive what an executor is built from (they
       necessarily precede the first executor: R=0, U=0). A state also remembers the last drain that ran while R was still 1 (for the diagnosis)."""

    def __init__(self, drv, W):
        self.drv = drv
        self.wm = drv.methods(W)
        # the sampler attribute: assigned an instance of a class of this module one of whose properties the worker reads through that attribute (the draining property; that every
        # read of it empties the queue and returns all of it is O7.1, that the ship routine sends what it read is O7.2)
        props = {c.name: {f.name for f in drv.methods(c).values() if any((dotted(d) or "") == "property" for d in f.decorator_list)} for c in drv.classes()}
        reads = {}
        for f in self.wm.values():
            for x in walk_body(f):
                if isinstance(x, ast.Attribute) and isinstance(x.ctx, ast.Load) and is_self_attr(x.value):
                    reads.setdefault(x.value.attr, set()).add(x.attr)
        self.sampler = self.prop = self.future = None
        self.submits = []
        for f in self.wm.values():
            defs = local_defs(f)
            for n in walk_body(f):
                if not (isinstance(n, ast.Assign) and len(n.targets) == 1 and is_self_attr(n.targets[0])):
                    continue
                v = defs.get(n.value.id, n.value) if isinstance(n.value, ast.Name) else n.value
                if isinstance(v, ast.Call):
                    hit = sorted(props.get(last_attr(v.func), set()) & reads.get(n.targets[0].attr, set()))
                    if hit:
                        self.sampler, self.prop = n.targets[0].attr, hit[0]
                    if last_attr(v.func) == "submit":
                        self.future = n.targets[0].attr
                        self.submits.append(v)
        if self.sampler is None:
            raise AnchorMissing("Worker attribute that is assigned a sampler (instance of a class whose property the worker reads through it)")
        if self.future is None:
            raise AnchorMissing("Worker attribute that is assigned the future of the submitted executor")
        # what the executor is built from: self attributes among the arguments of the submitted callable's constructor
        self.exec_inputs = set()
        for s in self.submits:
            f = source.enclosing_func(s)
            defs = local_defs(f)
            for a in s.args[:1]:
                a = defs.get(a.id, a) if isinstance(a, ast.Name) else a
                self.exec_inputs |= {x.attr for x in ast.walk(a) if is_self_attr(x) and x.attr != self.sampler}
        self.roots = {n: f for n, f in self.wm.items() if n.startswith("receiveMsg_") or n == "receiveUnrecognizedMessage"}
        self.pre_start = set()
        for n, f in self.roots.items():
            ps = params_of(f)
            mp = ps[1] if len(ps) > 1 else None
            if mp and any(isinstance(a, ast.Assign) and any(is_self_attr(t) and t.attr in self.exec_inputs for t in a.targets) and any(isinstance(x, ast.Name) and x.id == mp for x in ast.walk(a.value))
                          for a in walk_body(f)):
                self.pre_start.add(n)
        # the one-shot start-of-step flag: tested by a timer handler that lowers it in the arm it guards, raised by another handler
        self.flag = None
        from sa import pat
        for f in self.roots.values():
            for n in walk_body(f):
                if isinstance(n, ast.Assign) and len(n.targets) == 1 and is_self_attr(n.targets[0]) and source.is_const(n.value, False):
                    a = n.targets[0].attr
                    if any(is_self_attr(t, a) for t in pat.fact_nodes(n)) and any(
                            isinstance(m, ast.Assign) and any(is_self_attr(t, a) for t in m.targets) and source.is_const(m.value, True) for g in self.roots.values() if g is not f for m in walk_body(g)):
                        self.flag = a
        self.early = []      # drains that ran while the executor could still add samples
        self.summ = {}       # (method, entry state) -> normal-exit states
        self.at_write = {}   # id(write stmt) -> (stmt, {(root, state)})
        self.writes = [n for f in self.wm.values() if f.name != "__init__" for n in walk_body(f) if self._is_write(n)]
        self._active = set()
        self._root = None
        for _ in range(12):
            before = {k: set(v) for k, v in self.summ.items()}
            for n, f in self.roots.items():
                self._root, self._done = n, set()  # summaries are re-derived per handler so that every write records the handler it is reached from
                self._run(f, (0, 0, None) if n in self.pre_start else (1, 1, None))
            if before == self.summ:
                break
        else:
            raise AnchorMissing("sampler-flow analysis of Worker did not reach a fixed point")

    # -- events ----------------------------------------------------------------------------------------------------------------------------
    def _is_write(self, n):
        ts = n.targets if isinstance(n, ast.Assign) else [n.target] if isinstance(n, (ast.AugAssign, ast.AnnAssign)) else []
        return any(is_self_attr(x, self.sampler) and isinstance(x.ctx, ast.Store) for t in ts for x in ast.walk(t))

    def _events(self, node, defs):
        s = node.ast
        if node.kind == "test":
            roots = [s.test] if hasattr(s, "test") else [s.subject]
        elif node.kind == "for":
            roots = [s.iter]
        elif node.kind == "with":
            roots = [i.context_expr for i in s.items]
        elif node.kind == "stmt" and not isinstance(s, (ast.FunctionDef, ast.AsyncFunctionDef, ast.ClassDef)):
            roots = [s]
        else:
            return []

        def post(n):  # evaluation order: operands before the operation they feed (no source positions involved)
            for c in ast.iter_child_nodes(n):
                if not isinstance(c, source.SCOPE_TYPES):
                    yield from post(c)
            yield n

        ev = []
        for r in roots:
            for n in post(r):
                if isinstance(n, ast.Attribute) and isinstance(n.ctx, ast.Load) and n.attr == self.prop and self._is(n.value, self.sampler, defs):
                    ev.append(("drain", n))
                elif isinstance(n, ast.Call) and last_attr(n.func) == "submit" and isinstance(n.func, ast.Attribute):
                    ev.append(("submit", n))
                elif isinstance(n, ast.Call) and isinstance(n.func, ast.Attribute) and n.func.attr in ("result", "exception") and self._is(n.func.value, self.future, defs):
                    ev.append(("finished", n))
                elif isinstance(n, ast.Call) and is_self_attr(n.func) and n.func.attr in self.wm:
                    ev.append(("call", n))
        if node.kind == "stmt" and self._is_write(s):
            ev.append(("write", s))
        return ev

    @staticmethod
    def _is(e, attr, defs):
        """e is self.<attr>, or a single-assignment local that was bound to it."""
        return is_self_attr(e, attr) or (isinstance(e, ast.Name) and e.id in defs and is_self_attr(defs[e.id], attr))

    def _refine(self, st, test, pol, defs):
        """the state on the branch of `test` with polarity pol: atomic facts of the (negated) test."""
        from sa.cfg import conjuncts, negate
        r, un, tag = st
        test = source.inline_node(test, defs)  # a test kept in a single-assignment local reads like the test itself
        for f in conjuncts(test if pol else negate(test)):
            if isinstance(f, ast.Call) and isinstance(f.func, ast.Attribute) and f.func.attr == "done" and is_self_attr(f.func.value, self.future):
                r = 2 if r == 1 else r
            elif isinstance(f, ast.Compare) and len(f.ops) == 1 and isinstance(f.ops[0], ast.Is) and is_self_attr(f.left, self.future) and source.is_const(f.comparators[0]) and f.comparators[0].value is None:
                r = 2 if r == 1 else r
            elif isinstance(f, ast.UnaryOp) and isinstance(f.op, ast.Not) and is_self_attr(f.operand, self.sampler):
                un, tag = 0, None
            elif isinstance(f, ast.Compare) and len(f.ops) == 1 and isinstance(f.ops[0], ast.Is) and is_self_attr(f.left, self.sampler) and source.is_const(f.comparators[0]) and f.comparators[0].value is None:
                un, tag = 0, None
            elif self.flag is not None and is_self_attr(f, self.flag):
                r, un, tag = 0, 0, None
        return (r, un, tag)

    def _apply(self, node, states, defs):
        for kind, n in self._events(node, defs):
            out = set()
            for st in states:
                r, un, tag = st
                if kind == "drain":
                    if r == 1:
                        if n not in self.early:
                            self.early.append(n)
                        out.add((1, 1, self.early.index(n)))
                    else:
                        out.add((r, 0, None))
                elif kind == "submit":
                    out.add((1, 1, None))
                elif kind == "finished":
                    out.add((2 if r == 1 else r, un, tag))
                elif kind == "write":
                    self.at_write.setdefault(id(n), (n, set()))[1].add((self._root, st))
                    out.add((r, 1 if r == 1 else 0, None))
                elif kind == "call":
                    for r2, u2, t2 in self._run(self.wm[n.func.attr], st):
                        if t2 is not None and t2 != tag:  # an early drain inside the callee: name this call site in the diagnosis
                            if n not in self.early:
                                self.early.append(n)
                            t2 = self.early.index(n)
                        out.add((r2, u2, t2))
            states = out
        return states

    def _run(self, f, entry):
        """normal-exit states of method f entered in state `entry`. Inside the method a state also carries what is known about single-assignment boolean locals that were computed
        from the future / sampler / flag (`finished = fut is not None and fut.done()` ... `if finished:`): the observation counts from where it was MADE, not from where it is used."""
        from sa.cfg import conjuncts, negate
        k = (f.name, entry)
        if k in self._done or k in self._active:
            return set(self.summ.get(k, ()))
        self._active.add(k)
        g, defs = cfg_of(f), local_defs(f)
        inn = {g.entry.id: {(entry, frozenset())}}
        work = [g.entry.id]
        exits = set()
        while work:
            x = work.pop()
            node = g.nodes[x]
            sin = inn.get(x, set())
            if x == g.exit.id:
                exits |= {c for c, _ in sin}
                continue
            if x == g.raise_exit.id:
                continue
            sout = set()
            for facts in {fa for _, fa in sin}:
                sout |= {(c, facts) for c in self._apply(node, {c for c, fa in sin if fa == facts}, defs)}
            s = node.ast
            if node.kind == "stmt" and isinstance(s, ast.Assign) and len(s.targets) == 1 and isinstance(s.targets[0], ast.Name) and defs.get(s.targets[0].id) is s.value:
                forked = set()
                for c, fa in sout:
                    ct, cf = self._refine(c, s.value, True, defs), self._refine(c, s.value, False, defs)
                    forked |= {(c, fa)} if ct == c and cf == c else {(ct, fa | {(s.targets[0].id, True)}), (cf, fa | {(s.targets[0].id, False)})}
                sout = forked
            for y, lab in g.succ[x]:
                if g.normal_edge(x, y, lab):
                    nxt = sout
                    if node.kind == "test" and lab in ("true", "false") and hasattr(s, "test"):
                        pol = lab == "true"
                        atoms = conjuncts(s.test if pol else negate(s.test))
                        contra = {(a.id, False) for a in atoms if isinstance(a, ast.Name)} | {(a.operand.id, True) for a in atoms if isinstance(a, ast.UnaryOp) and isinstance(a.op, ast.Not) and isinstance(a.operand, ast.Name)}
                        nxt = {(self._refine(c, s.test, pol, defs), fa) for c, fa in sout if not (contra & fa)}  # states that contradict a recorded local are infeasible on this branch
                else:
                    nxt = sin | sout  # the statement raised somewhere in the middle
                cur = inn.setdefault(y, set())
                if not nxt <= cur:
                    cur |= nxt
                    work.append(y)
        self._active.discard(k)
        self._done.add(k)
        self.summ[k] = self.summ.get(k, set()) | exits
        return set(self.summ[k])

    # -- results ---------------------------------------------------------------------------------------------------------------------------
    def drainers(self):
        """methods of the worker that read the draining property themselves (the ship routine)."""
        return {n for n, f in self.wm.items() if any(isinstance(x, ast.Attribute) and isinstance(x.ctx, ast.Load) and x.attr == self.prop and is_self_attr(x.value, self.sampler) for x in walk_body(f))}

    def verdict(self, w):
        """(reached, ok, detail) for one write of the sampler attribute."""
        seen = self.at_write.get(id(w), (w, set()))[1]
        bad = sorted(((root, st) for root, st in seen if st[1]), key=lambda x: (x[0], x[1][0], -1 if x[1][2] is None else x[1][2]))
        if not bad:
            return bool(seen), True, ""
        root, (r, _, tag) = bad[0]
        if tag is not None:
            d = self.early[tag]
            why = f"the last drain before it (`{short(source.enclosing_stmt(d), 60)}` in {source.qualname(d)}) runs while the load generator may still add samples; its completion is observed only afterwards"
        else:
            why = "no drain of the old sampler since the load generator could last add samples"
        return True, False, f"reached from {root}" + (" with the load generator possibly still running" if r == 1 else " after the load generator has finished") + f": {why} - the samples queued in between are garbage collected with the old sampler"


def drain_before_drive_rule(chk, rid, drv):
    """Every path on which the worker replaces (or drops) its sampler passes through a drain of the OLD sampler after the last point at which the load generator can add samples
    (shared with C04: one sample per executed request also survives a task switch without a join point). The periodic drain of the wake-up handler does NOT qualify when it runs
    before the handler observes that the executor has finished (F23): the executor can finish - and record its last samples - between that drain and the done() check. Where the
    qualifying drain is written (in drive() right before the replacement, or in the wake-up handler after the done() check) does not matter."""
    W = drv.cls("Worker")
    wk = drv.methods(W).get("receiveMsg_WakeupMessage")
    if wk is None:
        raise AnchorMissing("Worker.receiveMsg_WakeupMessage")
    flow = _SamplerFlow(drv, W)
    if flow.flag is None:
        raise AnchorMissing("one-shot start-of-step flag consumed by a handler of Worker (raised by another handler)")
    if not flow.writes:
        raise AnchorMissing("assignment to the sampler attribute of Worker outside __init__")
    for w in flow.writes:
        kind = "dropped" if isinstance(w, ast.Assign) and source.is_const(w.value) and w.value.value is None else "replaced"
        reached, ok, detail = flow.verdict(w)
        if not reached:
            chk.unknown(rid, f"the write of the sampler attribute in {source.qualname(w)} is not reached from any handler of Worker", w)
            continue
        chk.ob(rid, f"the sampler is {kind} only after a drain of the old one that follows the last point at which the load generator can add samples", ok, w, detail,
               key=f"{_D}:{source.qualname(w)}:old-sampler-drained-before-it-is-{kind}")
    # non-vacuity: the timer handler does move on to the next row when it OBSERVES that the executor has finished (not only at the start of a step)
    n_live = sum(1 for w in flow.writes for root, st in flow.at_write.get(id(w), (w, ()))[1] if root == wk.name and st[0] == 2 and not (isinstance(w.value, ast.Constant) and w.value.value is None))
    chk.ob(rid, "executor-finished branch located in the wake-up handler", n_live >= 1, wk, f"{n_live} state(s) in which the handler reaches a replacement of the sampler after it observed the completion of the executor")
    return flow


def flush_no_fallible_gap(chk, rid, met):
    """EsMetricsStore.flush: between the acknowledged bulk send and emptying the buffer no other store-client call can run (shared with C17): if such a call raises,
    the already-indexed documents stay buffered and the next flush / close sends them a second time."""
    fl = met.methods(met.cls("EsMetricsStore")).get("flush")
    if fl is None:
        raise AnchorMissing("EsMetricsStore.flush")
    g = cfg_of(fl)
    bi = [n for n in walk_body(fl) if isinstance(n, ast.Call) and last_attr(n.func) == "bulk_index"]
    rs = [n for n in walk_body(fl) if isinstance(n, ast.Assign) and any(is_self_attr(t, "_docs") for t in n.targets)]
    other = [n for n in walk_body(fl) if isinstance(n, ast.Call) and isinstance(n.func, ast.Attribute) and is_self_attr(n.func.value, "_client") and n not in bi]
    if not bi or not rs:
        raise AnchorMissing("bulk send / buffer reset in EsMetricsStore.flush")
    bn, rn_ = g.node_of(bi[0]), g.node_of(rs[0])
    between = [c for c in other if g.path_exists(bn, g.node_of(c), avoid=[rn_], edge_ok=g.normal_edge) and g.path_exists(g.node_of(c), rn_, edge_ok=g.normal_edge)]
    chk.ob(rid, "no other store-client call between the acknowledged bulk send and emptying the buffer", not between, between[0] if between else rs[0],
           "" if not between else f"`{short(between[0], 50)}` runs while the sent documents are still buffered: if it fails they are sent again by the next flush / close",
           key="esrally/metrics.py:EsMetricsStore.flush:fallible-gap")


def run(chk):
    repo = chk.repo
    drv, met, rc = repo.module(_D), repo.module(_M), repo.module(_R)
    chk.use(drv, met, rc)
    chk.explanation = (
        "Decides the shipping / post-processing / hand-over skeleton: the sampler's drain returns everything it dequeues; the drain is read once per "
        "shipment and is both payload and return value; the driver appends the whole payload; post-processing works on a snapshot taken before the reset; "
        "each kept sample yields exactly three records fed from the attribute of the same name (plus one service_time per dependent timing, fed from the timing); "
        "throughput is computed from the unfiltered list; every hand-over clears the driver's store after post-processing and is consumed by exactly one bulk_add; "
        "a two-fact abstract interpretation of the Worker's handlers (may the load generator still add samples / may the sampler hold undrained samples) shows that every "
        "replacement or drop of the sampler follows a drain taken after the completion of the load generator was observed."
    )
    chk.not_decided = ("at-least/at-most-once under message loss, ES bulk partial failures, the executor-thread/actor-thread race on the queue; the worker analysis assumes the "
                       "driver's protocol (Drive is sent only to workers waiting at a join point; the handlers that deliver the executor's inputs run before the first executor).")
    W = drv.cls("Worker")
    wm = drv.methods(W)
    S = drv.cls("Sampler")
    sm = drv.methods(S)
    D = drv.cls("Driver")
    dm = drv.methods(D)
    SP = drv.cls("SamplePostprocessor")
    spc = drv.methods(SP).get("__call__")

    # ---- O7.1 drain / add ---------------------------------------------------------------------------------------------
    chk.rule("O7.1", "the sampler's drain loops until queue.Empty and returns every dequeued element; add drops only on queue.Full", 3,
             "any burst of samples: some are dequeued and dropped, or an unrelated error silently loses a sample")
    smp = sm.get("samples")
    add = sm.get("add")
    if smp is None or add is None:
        raise AnchorMissing("Sampler.samples / Sampler.add")
    gets = [n for n in walk_body(smp) if isinstance(n, ast.Call) and last_attr(n.func) in ("get_nowait", "get")]
    ok = False
    detail = "no get_nowait"
    if len(gets) == 1:
        p = source.parent(gets[0])
        acc = p.func.value.id if isinstance(p, ast.Call) and last_attr(p.func) == "append" and isinstance(p.func.value, ast.Name) else None
        loop = source.enclosing(gets[0], ast.While)
        tr = source.enclosing(gets[0], ast.Try)
        rets = [n for n in walk_body(smp) if isinstance(n, ast.Return)]
        ok = acc is not None and loop is not None and isinstance(loop.test, ast.Constant) and loop.test.value is True and not guards(gets[0], stop=loop) \
            and tr is not None and len(tr.handlers) == 1 and last_attr(tr.handlers[0].type) == "Empty" \
            and len(rets) == 1 and isinstance(rets[0].value, ast.Name) and rets[0].value.id == acc \
            and not any(isinstance(x, (ast.Break, ast.Continue)) for x in ast.walk(loop))
        detail = f"accumulator={acc}"
    chk.ob("O7.1", "drain: while True: acc.append(q.get_nowait()) until Empty; return acc", ok, smp, detail)
    puts = [n for n in walk_body(add) if isinstance(n, ast.Call) and last_attr(n.func) in ("put_nowait", "put")]
    ok = False
    if len(puts) == 1:
        tr = source.enclosing(puts[0], ast.Try)
        ok = tr is not None and all(last_attr(h.type) == "Full" for h in tr.handlers) and not guards(puts[0]) and isinstance(puts[0].args[0], ast.Call) and last_attr(puts[0].args[0].func) == "Sample"
    chk.ob("O7.1", "add: put_nowait(Sample(...)) unconditionally, dropping only on queue.Full", ok, add, "")
    is_prop = any((dotted(d) or "") == "property" for d in smp.decorator_list)
    chk.ob("O7.1", "drain is exposed as a property (every read drains)", is_prop, smp, "")

    # ---- O7.2 drain read once -----------------------------------------------------------------------------------------------
    chk.rule("O7.2", "in the ship routine the draining property is evaluated exactly once and that value is both the UpdateSamples payload and the return value", 2,
             "two reads: the second read drains samples that are never sent")
    ss = wm.get("send_samples")
    if ss is None:
        raise AnchorMissing("Worker.send_samples")
    reads = [n for n in walk_body(ss) if isinstance(n, ast.Attribute) and n.attr == "samples" and is_self_attr(n.value, "sampler")]
    ok = len(reads) == 1 and isinstance(source.parent(reads[0]), ast.Assign) and isinstance(source.parent(reads[0]).targets[0], ast.Name)
    var = source.parent(reads[0]).targets[0].id if ok else None
    chk.ob("O7.2", "single read of self.sampler.samples into a local", ok, reads[0] if reads else ss, f"{len(reads)} read(s)")
    sends = [c for c in source.calls_in(ss, attr="send") if len(c.args) >= 2 and isinstance(c.args[1], ast.Call) and last_attr(c.args[1].func) == "UpdateSamples"]
    ok = bool(sends) and var is not None and any(isinstance(a, ast.Name) and a.id == var for a in sends[0].args[1].args + [k.value for k in sends[0].args[1].keywords])
    if ok:
        gs = guards(sends[0])
        # only guards allowed: sampler present, len(samples) > 0
        ok = all(pol and (is_self_attr(t, "sampler") or u(t) in (f"len({var}) > 0", var)) for t, pol in gs)
    chk.ob("O7.2", "the drained value is the UpdateSamples payload (guarded only by emptiness)", ok, sends[0] if sends else ss, short(sends[0], 70) if sends else "no UpdateSamples send")
    # other reads of the draining property in the package
    for m in repo.all_modules():
        for n in ast.walk(m.tree):
            if isinstance(n, ast.Attribute) and n.attr == "samples" and isinstance(n.ctx, ast.Load) and (is_self_attr(n.value, "sampler") or (isinstance(n.value, ast.Name) and n.value.id == "sampler")):
                if source.enclosing_func(n) is not ss:
                    chk.ob("O7.2", "no other reader of the draining property", False, n, f"{source.qualname(n)} drains the sampler: those samples are never shipped")

    # ---- O7.3 driver appends the whole payload ---------------------------------------------------------------------------------
    chk.rule("O7.3", "the driver appends the whole UpdateSamples payload to the raw list", 2, "samples lost between worker and post-processing")
    us = dm.get("update_samples")
    if us is None:
        raise AnchorMissing("Driver.update_samples")
    p = params_of(us)[1]
    adds = [n for n in walk_body(us) if isinstance(n, ast.AugAssign) and is_self_attr(n.target, "raw_samples") and isinstance(n.op, ast.Add) and isinstance(n.value, ast.Name) and n.value.id == p]
    adds += [n for n in walk_body(us) if isinstance(n, ast.Call) and u(n.func) == "self.raw_samples.extend" and isinstance(n.args[0], ast.Name) and n.args[0].id == p]
    ok = len(adds) == 1 and all(pol and u(t) in (f"len({p}) > 0", p) for t, pol in guards(adds[0]))
    chk.ob("O7.3", "raw_samples += samples", ok, adds[0] if adds else us, "")
    h = drv.methods(drv.cls("DriverActor")).get("receiveMsg_UpdateSamples")
    ok = h is not None and any(isinstance(c, ast.Call) and last_attr(c.func) == "update_samples" and u(c.args[0]) == f"{params_of(h)[1]}.samples" for c in walk_body(h))
    chk.ob("O7.3", "handler passes msg.samples", ok, h if h is not None else drv.tree, "")

    # ---- O7.4 snapshot-and-reset ---------------------------------------------------------------------------------------------------
    chk.rule("O7.4", "post-processing takes a local reference to the raw list, resets the attribute, then processes the local (in that order)", 1,
             "samples arriving during post-processing are lost, or a batch is processed twice")
    pp = dm.get("post_process_samples")
    if pp is None:
        raise AnchorMissing("Driver.post_process_samples")
    g = cfg_of(pp)
    snap = [n for n in walk_body(pp) if isinstance(n, ast.Assign) and is_self_attr(n.value, "raw_samples") and isinstance(n.targets[0], ast.Name)]
    tup = [n for n in walk_body(pp) if isinstance(n, ast.Assign) and isinstance(n.value, ast.Tuple) and isinstance(n.targets[0], ast.Tuple) and is_self_attr(n.value.elts[0], "raw_samples")]
    reset = [n for n in walk_body(pp) if isinstance(n, ast.Assign) and any(is_self_attr(t, "raw_samples") for t in n.targets) and isinstance(n.value, ast.List) and not n.value.elts]
    use = [n for n in walk_body(pp) if isinstance(n, ast.Call) and is_self_attr(n.func, "sample_post_processor")]
    ok = False
    if tup and use:
        lv = tup[0].targets[0].elts[0].id
        ok = isinstance(tup[0].value.elts[1], ast.List) and u(use[0].args[0]) == lv and g.dominated_by_nodes(g.node_of(use[0]), [g.node_of(tup[0])])
    elif snap and reset and use:
        lv = snap[0].targets[0].id
        ok = g.dominated_by_nodes(g.node_of(reset[0]), [g.node_of(snap[0])]) and g.dominated_by_nodes(g.node_of(use[0]), [g.node_of(reset[0])]) and u(use[0].args[0]) == lv \
            and not guards(snap[0]) and not guards(reset[0])
    chk.ob("O7.4", "snapshot; reset; process(snapshot)", ok, pp, f"snapshot={len(snap) + len(tup)} reset={len(reset)} use={len(use)}")

    # ---- O7.5 three records per sample -------------------------------------------------------------------------------------------------
    chk.rule("O7.5", "under the down-sampling guard exactly three put_value calls {latency, service_time, processing_time}, each fed from the sample attribute of the same "
             "name, plus one service_time per dependent timing fed from the timing; task/operation/type/sample-type/times/client id come from the same object; "
             "throughput is computed from the unfiltered list", 12,
             "records missing/duplicated per request, or a record filed under the wrong task / operation type / sample type / client")
    if spc is None:
        raise AnchorMissing("SamplePostprocessor.__call__")
    rawp = params_of(spc)[1]
    loops = [n for n in walk_body(spc) if isinstance(n, ast.For) and isinstance(n.iter, ast.Call) and last_attr(n.iter.func) == "enumerate" and u(n.iter.args[0]) == rawp]
    if not loops:
        raise AnchorMissing("loop over enumerate(raw_samples) in SamplePostprocessor.__call__")
    L = loops[0]
    idx, svar = L.target.elts[0].id, L.target.elts[1].id
    puts = [n for n in ast.walk(L) if isinstance(n, ast.Call) and last_attr(n.func) == "put_value_cluster_level"]
    main = [c for c in puts if source.enclosing(c, ast.For) is L]
    dep = [c for c in puts if source.enclosing(c, ast.For) is not L]
    names = sorted(source.const(arg_of(c, 0, "name")) if isinstance(arg_of(c, 0, "name"), ast.Constant) else "?" for c in main)
    chk.ob("O7.5", "exactly three records per kept sample", names == ["latency", "processing_time", "service_time"], L, f"names={names}")
    for c in main:
        gs = guards(c, stop=L)
        ok = len(gs) == 1 and gs[0][1] and u(gs[0][0]) in (f"{idx} % self.downsample_factor == 0",)
        chk.ob("O7.5", "record guarded only by the down-sampling test", ok, c, f"guards={[(u(t), p) for t, p in gs]}")
    defs = {}
    for n in ast.walk(L):
        if isinstance(n, ast.Assign) and len(n.targets) == 1 and isinstance(n.targets[0], ast.Name):
            defs[n.targets[0].id] = n.value

    def field_ok(c, obj, name):
        exp = {
            "value": f"convert.seconds_to_ms({obj}.{name})",
            "task": f"{obj}.task.name",
            "operation": f"{obj}.operation_name",
            "operation_type": f"{obj}.operation_type",
            "sample_type": f"{obj}.sample_type",
            "absolute_time": f"{obj}.absolute_time",
            "relative_time": f"{obj}.relative_time",
        }
        bad = []
        for k, e in exp.items():
            pos = {"value": 1}.get(k)
            a = arg_of(c, pos, k)
            if a is None or u(a) != e:
                bad.append(f"{k}={u(a) if a is not None else None} (expected {e})")
        un = arg_of(c, 2, "unit")
        if un is None or not source.is_const(un, "ms"):
            bad.append("unit != 'ms'")
        return bad

    for c in main:
        nm = arg_of(c, 0, "name")
        if not isinstance(nm, ast.Constant):
            chk.ob("O7.5", "record name is a constant", False, c, "")
            continue
        bad = field_ok(c, svar, nm.value)
        chk.ob("O7.5", f"{nm.value} record fed from the sample's {nm.value} and identity fields", not bad, c, "; ".join(bad))
        md = arg_of(c, None, "meta_data")
        mdv = defs.get(md.id) if isinstance(md, ast.Name) else md
        ok = mdv is not None and "client_id" in u(mdv) or (isinstance(mdv, ast.Call) and any(isinstance(a, ast.Name) and "client_id" in u(defs.get(a.id, a)) for a in mdv.args))
        chk.ob("O7.5", f"{nm.value} record carries the client id", bool(ok), c, "")
    cid = [v for k, v in defs.items() if isinstance(v, ast.Dict) and any(source.is_const(kk, "client_id") for kk in v.keys)]
    ok = bool(cid) and u(cid[0].values[0]) == f"{svar}.client_id"
    chk.ob("O7.5", "client id meta data is the sample's client id", ok, cid[0] if cid else L, "")
    # dependent timings
    dloops = [n for n in ast.walk(L) if isinstance(n, ast.For) and n is not L and u(n.iter) == f"{svar}.dependent_timings"]
    ok = len(dloops) == 1 and len(dep) == 1 and source.enclosing(dep[0], ast.For) is dloops[0]
    chk.ob("O7.5", "one record per dependent timing", ok, dloops[0] if dloops else L, f"loops={len(dloops)} puts={len(dep)}")
    if ok:
        tv = dloops[0].target.id
        c = dep[0]
        nm = arg_of(c, 0, "name")
        bad = field_ok(c, tv, "service_time") + ([] if source.is_const(nm, "service_time") else ["name != service_time"])
        chk.ob("O7.5", "dependent record fed from the timing itself", not bad, c, "; ".join(bad))
        gs = guards(c, stop=dloops[0])
        chk.ob("O7.5", "dependent record unconditional within its loop", not gs and not any(isinstance(x, (ast.Break, ast.Continue)) for x in ast.walk(dloops[0])), c, "")
        # the dependent loop is under the same down-sampling guard as the three records
        chk.ob("O7.5", "dependent timings under the same down-sampling guard", [u(t) for t, p in guards(dloops[0], stop=L)] == [f"{idx} % self.downsample_factor == 0"], dloops[0], "")
    tc = [n for n in walk_body(spc) if isinstance(n, ast.Call) and last_attr(n.func) == "calculate" and "throughput_calculator" in u(n.func)]
    ok = len(tc) == 1 and u(tc[0].args[0]) == rawp and L not in list(source.ancestors(tc[0]))
    # the parameter is not reassigned / filtered before
    reass = [n for n in walk_body(spc) if isinstance(n, (ast.Assign, ast.AugAssign)) and any(isinstance(t, ast.Name) and t.id == rawp for t in (n.targets if isinstance(n, ast.Assign) else [n.target]))]
    chk.ob("O7.5", "throughput computed from the unfiltered list", ok and not reass, tc[0] if tc else spc, short(tc[0], 60) if tc else "")
    # no early exit in the sample loop
    ok = not any(isinstance(x, (ast.Break, ast.Return)) for x in source.walk_local(L, include_root=False))
    chk.ob("O7.5", "sample loop has no early exit", ok, L, "")
    # the only early return of the routine is for an empty batch
    rets = [n for n in walk_body(spc) if isinstance(n, ast.Return)]
    ok = all(any(pol and u(t) in (f"len({rawp}) == 0", f"not {rawp}") for t, pol in guards(r)) for r in rets)
    chk.ob("O7.5", "early return only for an empty batch", ok, rets[0] if rets else spc, "")

    from rules.C01 import executor_wiring

    executor_wiring(chk, "O7.5", drv)
    from rules.C06 import lazy_batch_rule

    lazy_batch_rule(chk, "O7.5", drv)

    # ---- O7.6 hand-over ---------------------------------------------------------------------------------------------------------------------
    chk.rule("O7.6", "every to_externalizable call in the driver passes clear=True, is preceded on every path by post-processing, and its value flows through the "
             "message field `metrics` into exactly one bulk_add on the race-control side, for TaskFinished and for BenchmarkComplete", 8,
             "multi-step race: step k's records are handed over again at every later boundary (duplicates), or the last batch of a step is not handed over")
    jr = dm.get("joinpoint_reached")
    mv = dm.get("move_to_next_task")
    te = [c for c in package_calls(repo, "to_externalizable") if source.enclosing_class(c) is D]
    if len(te) < 2:
        raise AnchorMissing("to_externalizable calls in Driver")
    gj = cfg_of(jr)
    ppc = [c for c in source.calls_in(jr, attr="post_process_samples")]
    for c in te:
        cl = arg_of(c, 0, "clear")
        chk.ob("O7.6", "hand-over clears the driver's store", cl is not None and source.is_const(cl, True), c, f"clear={u(cl) if cl is not None else 'default False'}")
        fn = source.enclosing_func(c)
        if fn is jr:
            site = c
        else:
            calls = [x for x in source.calls_in(jr, attr=fn.name)]
            site = calls[0] if calls else None
            allcallers = [x for x in package_calls(repo, fn.name)]
            if not all(source.enclosing_func(x) is jr for x in allcallers):
                site = None
        ok = site is not None and bool(ppc) and gj.dominated_by_nodes(gj.node_of(site), [gj.node_of(p_) for p_ in ppc])
        chk.ob("O7.6", "post-processing precedes the hand-over", ok, c, f"in {fn.name}")
        # value flows into the driver-actor callback
        asg = source.parent(c)
        ok = isinstance(asg, ast.Assign) and isinstance(asg.targets[0], ast.Name)
        if ok:
            v = asg.targets[0].id
            cb = [x for x in source.calls_in(fn) if last_attr(x.func) in ("on_task_finished", "on_benchmark_complete") and x.args and isinstance(x.args[0], ast.Name) and x.args[0].id == v]
            ok = len(cb) == 1
            chk.ob("O7.6", "externalised metrics handed to the driver actor", ok, c, short(cb[0], 60) if cb else "value not passed on")
            gf = cfg_of(fn)
            if cb:
                chk.ob("O7.6", "hand-over callback reached on every normal path after externalising", gf.must_pass(gf.node_of(c), [gf.node_of(cb[0])], normal_only=True), cb[0], "")
    DA = drv.cls("DriverActor")
    dam = drv.methods(DA)
    BA = rc.cls("BenchmarkActor")
    bam = rc.methods(BA)
    CO = rc.cls("BenchmarkCoordinator")
    com = rc.methods(CO)
    for cbname, msgname, hname, coname in (("on_task_finished", "TaskFinished", "receiveMsg_TaskFinished", "on_task_finished"),
                                            ("on_benchmark_complete", "BenchmarkComplete", "receiveMsg_BenchmarkComplete", "on_benchmark_complete")):
        cb = dam.get(cbname)
        ok = False
        if cb is not None:
            p0 = params_of(cb)[1]
            ctor = [n for n in walk_body(cb) if isinstance(n, ast.Call) and last_attr(n.func) == msgname]
            ok = len(ctor) == 1 and ctor[0].args and isinstance(ctor[0].args[0], ast.Name) and ctor[0].args[0].id == p0 and isinstance(source.parent(ctor[0]), ast.Call) \
                and last_attr(source.parent(ctor[0]).func) == "send" and not guards(source.parent(ctor[0]))
        chk.ob("O7.6", f"{msgname}: metrics parameter becomes the message's first field, sent unconditionally", ok, cb if cb is not None else DA, "")
        mc = drv.cls(msgname)
        init = drv.methods(mc).get("__init__")
        ok = init is not None and any(isinstance(n, ast.Assign) and any(is_self_attr(t, "metrics") for t in n.targets) and isinstance(n.value, ast.Name) and n.value.id == params_of(init)[1] for n in walk_body(init))
        chk.ob("O7.6", f"{msgname}.metrics := first constructor parameter", ok, init if init is not None else mc, "")
        h = bam.get(hname)
        ok = False
        if h is not None:
            mp = params_of(h)[1]
            calls = [n for n in walk_body(h) if isinstance(n, ast.Call) and last_attr(n.func) == coname and n.args and u(n.args[0]) == f"{mp}.metrics"]
            ok = len(calls) == 1 and not guards(calls[0])
        chk.ob("O7.6", f"{hname} passes msg.metrics to the coordinator exactly once", ok, h if h is not None else BA, "")
        co = com.get(coname)
        ok = False
        if co is not None:
            cp = params_of(co)[1]
            ba = [n for n in walk_body(co) if isinstance(n, ast.Call) and last_attr(n.func) == "bulk_add"]
            ok = len(ba) == 1 and u(ba[0].args[0]) == cp and not guards(ba[0])
        chk.ob("O7.6", f"coordinator.{coname}: exactly one unconditional bulk_add(metrics)", ok, co if co is not None else CO, "")

    # ---- O7.7 in-memory store -----------------------------------------------------------------------------------------------------------------
    chk.rule("O7.7", "in-memory store: clear replaces the list after the snapshot reference is taken and the snapshot is what is serialised; bulk_add adds every document", 3,
             "hand-over returns an empty/incomplete list, or drops documents when restoring")
    IM = met.cls("InMemoryMetricsStore")
    te_f = met.methods(IM).get("to_externalizable")
    if te_f is None:
        raise AnchorMissing("InMemoryMetricsStore.to_externalizable")
    gt = cfg_of(te_f)
    snap = [n for n in walk_body(te_f) if isinstance(n, ast.Assign) and is_self_attr(n.value, "docs") and isinstance(n.targets[0], ast.Name)]
    reset = [n for n in walk_body(te_f) if isinstance(n, ast.Assign) and any(is_self_attr(t, "docs") for t in n.targets)]
    ok = len(snap) == 1 and len(reset) == 1 and gt.dominated_by_nodes(gt.node_of(reset[0]), [gt.node_of(snap[0])]) and not guards(snap[0])
    chk.ob("O7.7", "snapshot before reset", ok, te_f, "")
    if reset:
        gs = guards(reset[0])
        cp = params_of(te_f)[1]
        chk.ob("O7.7", "reset iff clear", len(gs) == 1 and gs[0][1] and u(gs[0][0]) == cp and isinstance(reset[0].value, ast.List) and not reset[0].value.elts, reset[0], "")
    dumps = [n for n in walk_body(te_f) if isinstance(n, ast.Call) and last_attr(n.func) == "dumps"]
    ok = bool(dumps) and bool(snap) and u(dumps[0].args[0]) == snap[0].targets[0].id
    chk.ob("O7.7", "the snapshot is serialised", ok, dumps[0] if dumps else te_f, "")
    MS = met.cls("MetricsStore")
    ba = met.methods(MS).get("bulk_add")
    if ba is None:
        raise AnchorMissing("MetricsStore.bulk_add")
    loops = [n for n in walk_body(ba) if isinstance(n, ast.For)]
    ok = len(loops) == 1 and len(loops[0].body) == 1 and isinstance(loops[0].body[0], ast.Expr) and isinstance(loops[0].body[0].value, ast.Call) and u(loops[0].body[0].value.func) == "self._add" \
        and isinstance(loops[0].target, ast.Name) and u(loops[0].body[0].value.args[0]) == loops[0].target.id and "loads" in u(loops[0].iter)
    chk.ob("O7.7", "bulk_add adds every restored document", ok, ba, "")
    addf = met.methods(IM).get("_add")
    ok = addf is not None and any(isinstance(n, ast.Call) and u(n.func) == "self.docs.append" and u(n.args[0]) == params_of(addf)[1] and not guards(n) for n in walk_body(addf))
    chk.ob("O7.7", "_add appends the document", ok, addf if addf is not None else IM, "")
    # _put_metric reaches _add on every normal path
    pm = met.methods(MS).get("_put_metric")
    gp = cfg_of(pm)
    addc = [gp.node_of(n) for n in walk_body(pm) if isinstance(n, ast.Call) and u(n.func) == "self._add"]
    chk.ob("O7.7", "_put_metric stores the record on every normal path", bool(addc) and gp.must_pass(gp.entry, addc), pm, "")

    # ---- O7.10 ES-backed store buffer -------------------------------------------------------------------------------------------------------------------------
    chk.rule("O7.10", "ES-backed store: every record is appended to the buffer; flush sends the whole buffer through the guarded bulk call and empties it only after the send returned; "
             "its hand-over is None (records go to Elasticsearch directly, nothing to add twice)", 4,
             "records dropped before being sent, or re-sent on the next flush (duplicates) with the ES metrics store")
    EM = met.cls("EsMetricsStore")
    emm = met.methods(EM)
    ea = emm.get("_add")
    ok = ea is not None and any(isinstance(n, ast.Call) and u(n.func) == "self._docs.append" and u(n.args[0]) == params_of(ea)[1] and not guards(n) for n in walk_body(ea))
    chk.ob("O7.10", "_add appends the record to the buffer", ok, ea if ea is not None else EM, "")
    fl = emm.get("flush")
    if fl is None:
        raise AnchorMissing("EsMetricsStore.flush")
    gfl = cfg_of(fl)
    bi = [n for n in walk_body(fl) if isinstance(n, ast.Call) and last_attr(n.func) == "bulk_index"]
    rs = [n for n in walk_body(fl) if isinstance(n, (ast.Assign, ast.AugAssign)) and any(is_self_attr(x, "_docs") and isinstance(x.ctx, ast.Store) for t in (n.targets if isinstance(n, ast.Assign) else [n.target]) for x in ast.walk(t))]
    ok = len(bi) == 1 and arg_of(bi[0], 1, "items") is not None and u(arg_of(bi[0], 1, "items")) == "self._docs" and [u(t) for t, pol in guards(bi[0]) if pol] == ["self._docs"]
    chk.ob("O7.10", "flush sends the whole buffer (guarded only by non-emptiness)", ok, bi[0] if bi else fl, "")
    ok = len(rs) == 1 and isinstance(rs[0], ast.Assign) and isinstance(rs[0].value, ast.List) and not rs[0].value.elts and bool(bi) and not gfl.path_exists(gfl.node_of(rs[0]), gfl.node_of(bi[0])) \
        and gfl.must_pass(gfl.node_of(bi[0]), [gfl.node_of(rs[0])], normal_only=True)
    chk.ob("O7.10", "buffer emptied after (and only after) the send returned", ok, rs[0] if rs else fl, "")
    flush_no_fallible_gap(chk, "O7.10", met)
    te2 = emm.get("to_externalizable")
    ok = te2 is not None and all(isinstance(n.value, ast.Constant) and n.value.value is None for n in walk_body(te2) if isinstance(n, ast.Return))
    chk.ob("O7.10", "hand-over representation is None", ok, te2 if te2 is not None else EM, "")
    ba2 = met.methods(met.cls("MetricsStore"))["bulk_add"]
    ok = any(isinstance(n, ast.If) and u(n.test) == params_of(ba2)[1] for n in ba2.body)
    chk.ob("O7.10", "bulk_add ignores an empty (None) hand-over", ok, ba2, "")

    # ---- O7.8 store before exit ----------------------------------------------------------------------------------------------------------------
    chk.rule("O7.8", "BenchmarkComplete handling hands the message's metrics to the coordinator on every path (unconditionally)", 1, "the final batch is lost")
    h = bam.get("receiveMsg_BenchmarkComplete")
    gh = cfg_of(h)
    mp_ = params_of(h)[1]
    st = [n for n in walk_body(h) if isinstance(n, ast.Call) and last_attr(n.func) == "on_benchmark_complete" and n.args and u(n.args[0]) == f"{mp_}.metrics"]
    ok = len(st) == 1 and gh.must_pass(gh.entry, [gh.node_of(st[0])]) and not guards(st[0])
    chk.ob("O7.8", "the final metrics of BenchmarkComplete reach the coordinator on every path", ok, st[0] if st else h, "")

    # ---- O7.9 samples precede the barrier message ----------------------------------------------------------------------------------------------
    chk.rule("O7.9", "on the join-point path the final drain (send_samples) is unconditional, precedes send(JoinPointReached) and precedes dropping the sampler; every path on which the "
             "worker replaces or drops its sampler passes through a drain of the old one after the last point at which the load generator can add samples; samples are shipped "
             "periodically while it runs", 2,
             "last step of any race (or the last sample of any step, or of any round of a parallel element with more tasks than clients): samples queued after the last periodic "
             "drain are never shipped")
    wd = wm.get("drive")
    gw = cfg_of(wd)
    jp = [c for c in source.calls_in(wd, attr="send") if len(c.args) >= 2 and isinstance(c.args[1], ast.Call) and last_attr(c.args[1].func) == "JoinPointReached"]
    sc = [c for c in source.calls_in(wd, attr="send_samples")]
    if not jp:
        raise AnchorMissing("send(JoinPointReached) in Worker.drive")
    ok = bool(sc) and gw.dominated_by_nodes(gw.node_of(jp[0]), [gw.node_of(c) for c in sc])
    chk.ob("O7.9", "send_samples() on every path to JoinPointReached", ok, jp[0], "" if ok else "the final drain is conditional or missing")
    drop = [n for n in walk_body(wd) if isinstance(n, ast.Assign) and any(is_self_attr(t, "sampler") for t in n.targets) and source.is_const(n.value) and n.value.value is None]
    ok = bool(sc) and all(gw.dominated_by_nodes(gw.node_of(d), [gw.node_of(c) for c in sc]) for d in drop)
    chk.ob("O7.9", "final drain precedes dropping the sampler", ok, drop[0] if drop else wd, "")
    res = [n for n in walk_body(wd) if isinstance(n, ast.Call) and last_attr(n.func) == "result"]
    # the drains that no wait for the executor can follow (an additional, earlier drain - e.g. on entry to drive() - is harmless) still cover every path to the barrier message
    late = [c for c in sc if not any(gw.path_exists(gw.node_of(c), gw.node_of(r)) for r in res)]
    ok = bool(res) and bool(late) and gw.dominated_by_nodes(gw.node_of(jp[0]), [gw.node_of(c) for c in late])
    chk.ob("O7.9", "the executor has finished before the final drain", ok, late[0] if late else (sc[0] if sc else wd), "" if ok else "no drain after the wait for the executor covers every path to JoinPointReached")
    # periodic drain in the wake-up handler
    wk = wm.get("receiveMsg_WakeupMessage")
    ok = any(isinstance(n, ast.Call) and last_attr(n.func) == "send_samples" for n in walk_body(wk))
    chk.ob("O7.9", "periodic drain on wake-up", ok, wk, "")
    flow = drain_before_drive_rule(chk, "O7.9", drv)
    # periodic shipping while the executor runs: the wake-up that finds it still running (the one that re-arms the timer) has shipped what was queued so far
    gk = cfg_of(wk)
    ship = flow.drainers()
    pdr = [c for c in walk_body(wk) if isinstance(c, ast.Call) and is_self_attr(c.func) and c.func.attr in ship]
    rearm = [c for c in walk_body(wk) if isinstance(c, ast.Call) and is_self_attr(c.func) and c.func.attr == "wakeupAfter"]
    ok = bool(rearm) and bool(pdr) and all(gk.dominated_by_nodes(gk.node_of(r), [gk.node_of(d) for d in pdr]) for r in rearm)
    chk.ob("O7.9", "the wake-up that finds the executor still running ships the queued samples before it re-arms the timer", ok, rearm[0] if rearm else wk,
           "" if ok else "the periodic wake-up re-arms the timer without shipping: samples pile up in the bounded queue until the task ends (and are dropped once it is full)",
           key=f"{_D}:Worker.receiveMsg_WakeupMessage:periodic-drain-before-rearm")
    repl = [n for n in walk_body(wd) if isinstance(n, ast.Assign) and any(is_self_attr(t, "sampler") for t in n.targets) and isinstance(n.value, ast.Call)]
    others = [n for f_ in wm.values() if f_ is not wd and f_.name != "__init__" for n in walk_body(f_) if isinstance(n, ast.Assign) and any(is_self_attr(t, "sampler") for t in n.targets)]
    chk.ob("O7.9", "the sampler is replaced only in drive()", bool(repl) and not others, others[0] if others else wd, "")

    # ---- O7.11 the sample type a record carries ----------------------------------------------------------------------------------------------
    chk.rule("O7.11", "the sample type of a record is the one the schedule computed for that request, and the clock it is computed from starts at the task's start, "
             "not after the client's ramp-up wait", 2,
             "a task with ramp-up: requests issued after the warm-up period by a late-starting client are recorded as warm-up samples and vanish from every statistic")
    from rules.C05 import timer_before_rampup_rule

    ex, ge, *_ = timer_before_rampup_rule(chk, "O7.11", drv, "the warm-up clock of client i starts ramp*i/total late: its normal samples are labelled warm-up")
    # the loop variable that carries the schedule's sample type is what the sampler receives
    loops_ = [n for n in walk_body(ex) if isinstance(n, ast.AsyncFor)]
    tnames = [e.id for e in (loops_[0].target.elts if isinstance(loops_[0].target, ast.Tuple) else [loops_[0].target]) if isinstance(e, ast.Name)]
    adds = [c for c in source.calls_in(ex, attr="add") if u(c.func).endswith("sampler.add")]
    if not adds:
        raise AnchorMissing("sampler.add in AsyncExecutor.__call__")
    for c in adds:
        st = [a for a in c.args if isinstance(a, ast.Name) and "sample_type" in a.id]
        ok = len(st) == 1 and st[0].id in tnames
        chk.ob("O7.11", "sampler.add receives the sample type yielded by the schedule for this request", ok, c, f"{[a.id for a in st]} of loop targets {tnames}")


from sa.selftest import V  # noqa: E402

VARIANTS = [
    V("drain read twice", "break", _D, "                self.send(self.driver_actor, UpdateSamples(self.worker_id, samples))", "                self.send(self.driver_actor, UpdateSamples(self.worker_id, self.sampler.samples))", "O7.2"),
    V("drain stops at 1000", "break", _D, "            while True:\n                samples.append(self.q.get_nowait())", "            while len(samples) < 1000:\n                samples.append(self.q.get_nowait())", "O7.1"),
    V("add swallows everything", "break", _D, "        except queue.Full:\n            self.logger.warning(\"Dropping sample", "        except Exception:\n            self.logger.warning(\"Dropping sample", "O7.1"),
    V("driver keeps only latest payload", "break", _D, "            self.raw_samples += samples", "            self.raw_samples = samples", "O7.3"),
    V("reset after processing", "break", _D, "        raw_samples = self.raw_samples\n        self.raw_samples = []\n        self.sample_post_processor(raw_samples)", "        raw_samples = self.raw_samples\n        self.sample_post_processor(raw_samples)\n        self.raw_samples = []", "O7.4"),
    V("process attribute after reset", "break", _D, "        self.sample_post_processor(raw_samples)", "        self.sample_post_processor(self.raw_samples)", "O7.4"),
    V("latency record fed with service_time", "break", _D, '                    name="latency",\n                    value=convert.seconds_to_ms(sample.latency),', '                    name="latency",\n                    value=convert.seconds_to_ms(sample.service_time),', "O7.5"),
    V("seed m2: dependent record uses the parent's operation type", "break", _D, "                        operation_type=timing.operation_type,", "                        operation_type=sample.operation_type,", "O7.5"),
    V("throughput from downsampled list", "break", _D, "        aggregates = self.throughput_calculator.calculate(raw_samples)", "        aggregates = self.throughput_calculator.calculate(raw_samples[:: self.downsample_factor])", "O7.5"),
    V("processing_time record dropped", "break", _D, '                self.metrics_store.put_value_cluster_level(\n                    name="processing_time",', '                (lambda **kw: None)(\n                    name="processing_time",', "O7.5"),
    V("sample type from first sample", "break", _D, '                    name="service_time",\n                    value=convert.seconds_to_ms(sample.service_time),\n                    unit="ms",\n                    task=sample.task.name,\n                    operation=sample.operation_name,\n                    operation_type=sample.operation_type,\n                    sample_type=sample.sample_type,',
      '                    name="service_time",\n                    value=convert.seconds_to_ms(sample.service_time),\n                    unit="ms",\n                    task=sample.task.name,\n                    operation=sample.operation_name,\n                    operation_type=sample.operation_type,\n                    sample_type=raw_samples[0].sample_type,', "O7.5"),
    V("seed m3: step hand-over without clear", "break", _D, "        m = self.metrics_store.to_externalizable(clear=True)\n        self.driver_actor.on_task_finished(m, waiting_period)", "        m = self.metrics_store.to_externalizable()\n        self.driver_actor.on_task_finished(m, waiting_period)", "O7.6"),
    V("hand-over before post-processing", "break", _D, "            self.logger.debug(\"Postprocessing samples...\")\n            self.post_process_samples()\n            if self.finished():", "            if self.finished():", "O7.6"),
    V("coordinator drops task metrics", "break", _R, "        self.logger.info(\"Bulk adding request metrics to metrics store.\")\n        self.metrics_store.bulk_add(new_metrics)\n\n    def on_benchmark_complete", "        self.logger.info(\"Bulk adding request metrics to metrics store.\")\n\n    def on_benchmark_complete", "O7.6"),
    V("in-memory clear before snapshot", "break", _M, "        docs = self.docs\n        if clear:\n            self.docs = []", "        if clear:\n            self.docs = []\n        docs = self.docs", "O7.7"),
    V("final metrics stored only when non-empty", "break", _R, "        self.coordinator.on_benchmark_complete(msg.metrics)\n        self.send(self.main_driver, thespian.actors.ActorExitRequest())", "        if msg.metrics:\n            self.coordinator.on_benchmark_complete(msg.metrics)\n        self.send(self.main_driver, thespian.actors.ActorExitRequest())", "O7.8"),
    V("seed m1: final drain only when a future exists", "break", _D, "                self.executor_future.result()\n            self.send_samples()", "                self.executor_future.result()\n                self.send_samples()", "O7.9"),
    V("JoinPointReached before final drain", "break", _D, "            self.send_samples()\n            self.cancel.clear()\n            self.complete.clear()\n            self.executor_future = None\n            self.sampler = None\n            self.send(self.driver_actor, JoinPointReached(self.worker_id, task_allocations))",
      "            self.send(self.driver_actor, JoinPointReached(self.worker_id, task_allocations))\n            self.send_samples()\n            self.cancel.clear()\n            self.complete.clear()\n            self.executor_future = None\n            self.sampler = None", "O7.9"),
    V("ES buffer emptied before sending", "break", _M, "            self._client.bulk_index(index=self._index, items=self._docs)\n            sw.stop()", "            docs, self._docs = self._docs, []\n            self._client.bulk_index(index=self._index, items=self._docs)\n            sw.stop()", "O7.10"),
    V("ES buffer never emptied", "break", _M, "                sw.total_time(),\n            )\n        self._docs = []", "                sw.total_time(),\n            )", "O7.10"),
    # F23 (rally f7c4bc2): the old sampler is drained after the executor is known to have finished, before it is replaced
    V("F23 reverted: next round's sampler replaces the old one without a final drain", "break", _D,
      "                self.send_samples()\n                self.sampler = Sampler(", "                self.sampler = Sampler(", "O7.9"),
    V("F23: the drain comes after the replacement (drains the new, empty sampler)", "break", _D,
      "                self.send_samples()\n                self.sampler = Sampler(start_timestamp=time.perf_counter(), buffer_size=self.sample_queue_size)\n",
      "                self.sampler = Sampler(start_timestamp=time.perf_counter(), buffer_size=self.sample_queue_size)\n                self.send_samples()\n", "O7.9"),
    [V("F23: the only drain before the replacement runs before the done() check (wake-up handler), none in drive()", "break", _D,
       "                self.send_samples()\n                self.sampler = Sampler(", "                self.sampler = Sampler(", "O7.9"),
     V("", "break", _D, "            elif self.executor_future is not None and self.executor_future.done():", "            elif self.send_samples() is not None and self.executor_future is not None and self.executor_future.done():")],
    [V("samples are shipped only once the executor has finished, never while it runs", "break", _D,
       "            current_samples = self.send_samples()\n            if self.cancel.is_set():", "            current_samples = None\n            if self.cancel.is_set():", "O7.9"),
     V("", "break", _D, "                    self.executor_future = None\n                    self.drive()", "                    self.executor_future = None\n                    self.send_samples()\n                    self.drive()")],
    # preserving
    V("F23 respelled: the final drain is hoisted above the debug line", "keep", _D,
      "                self.logger.debug(\"Worker[%d] is executing tasks at index [%d].\", self.worker_id, self.current_task_index)\n"
      "                # the previous tasks may have finished after the last periodic drain: ship their remaining samples before the sampler is replaced\n                self.send_samples()\n",
      "                self.send_samples()\n                self.logger.debug(\"Worker[%d] is executing tasks at index [%d].\", self.worker_id, self.current_task_index)\n"),
    [V("F23 respelled: the final drain sits in the wake-up handler AFTER the done() check instead of in drive()", "keep", _D,
       "                self.send_samples()\n                self.sampler = Sampler(", "                self.sampler = Sampler("),
     V("", "keep", _D, "                    self.executor_future = None\n                    self.drive()", "                    self.executor_future = None\n                    self.send_samples()\n                    self.drive()")],
    [V("F23 respelled: the final drain is taken for the whole not-a-join-point arm (also before skipped rows)", "keep", _D,
       "            if self.complete.is_set():\n                self.logger.info(\n                    \"Worker[%d] skips tasks",
       "            self.send_samples()\n            if self.complete.is_set():\n                self.logger.info(\n                    \"Worker[%d] skips tasks"),
     V("", "keep", _D, "                self.send_samples()\n                self.sampler = Sampler(", "                self.sampler = Sampler(")],
    V("tuple-swap snapshot", "keep", _D, "        raw_samples = self.raw_samples\n        self.raw_samples = []\n        self.sample_post_processor(raw_samples)", "        raw_samples, self.raw_samples = self.raw_samples, []\n        self.sample_post_processor(raw_samples)"),
    V("extend instead of +=", "keep", _D, "            self.raw_samples += samples", "            self.raw_samples.extend(samples)"),
    V("positional clear", "keep", _D, "        m = self.metrics_store.to_externalizable(clear=True)\n        self.driver_actor.on_task_finished(m, waiting_period)", "        m = self.metrics_store.to_externalizable(True)\n        self.driver_actor.on_task_finished(m, waiting_period)"),
]
